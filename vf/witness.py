"""Native witnesses of the listed findings (known_findings.json): each returns True while the defect is still
present on the current tree, judged by running the real code on the recorded input (never by a solver)."""
from __future__ import annotations

from typing import Any, Callable, Dict


def _contexts(src: str):
    from tealer.utils.command_line.common import init_tealer_from_single_contract
    t = init_tealer_from_single_contract(src.strip(), "w")
    f = t.contracts["w"].functions["w"]
    blocks = sorted(f.blocks, key=lambda b: b.idx)
    return t, f, blocks


def D1() -> bool:
    _, f, bs = _contexts("#pragma version 6\nint 3\nglobal GroupSize\n<\nassert\ngtxn 0 Amount\npop\nint 1\nreturn\n")
    return set(f.transaction_context(bs[0]).group_sizes) != set(range(4, 17))


def D5() -> bool:
    _, f, bs = _contexts("#pragma version 6\ntxn TypeEnum\nint appl\n==\nassert\nint 1\nreturn\n")
    from tealer.utils.teal_enums import TealerTransactionType as L
    return L.ApplUpdateApplication not in f.transaction_context(bs[0]).transaction_types


def D18() -> bool:
    from tealer.analyses.dataflow.transaction_context.fee_field import FeeField, FeeValue
    from tealer.teal.instructions.instructions import Neq
    t, _ = FeeField._get_asserted_max_value(Neq(), FeeValue(value=2 ** 64 - 1))
    return t.value == 2 ** 64 - 1


def D19() -> bool:
    _, f, bs = _contexts("#pragma version 6\ntxn RekeyTo\naddr AAAAAAAAAAAAAAAAAAAAAAAAAAAAAAAAAAAAAAAAAAAAEVAL4QAJS7JHB4\n"
                         "==\nassert\nint 1\nreturn\n")
    return f.transaction_context(bs[0]).rekeyto.no_addr


WITNESS: Dict[str, Callable[[], bool]] = {k: v for k, v in list(globals().items()) if k.startswith("D") and callable(v)}


def still_present(fid: str) -> Any:
    fn = WITNESS.get(fid)
    if fn is None:
        return None
    import io
    import contextlib
    import logging
    logging.disable(logging.CRITICAL)
    try:
        with contextlib.redirect_stdout(io.StringIO()), contextlib.redirect_stderr(io.StringIO()):
            return bool(fn())
    except Exception as e:  # the witness itself crashing means the defect surfaces differently: still present
        return f"witness raised {type(e).__name__}: {e}"
    finally:
        logging.disable(logging.NOTSET)


def _paths(src: str, detector_name: str):
    import inspect
    import tealer.detectors.all_detectors as all_det
    from tealer.detectors.abstract_detector import AbstractDetector
    from tealer.utils.command_line.common import init_tealer_from_single_contract
    t = init_tealer_from_single_contract(src.strip(), "w")
    for c in vars(all_det).values():
        if inspect.isclass(c) and issubclass(c, AbstractDetector) and getattr(c, "NAME", "") == detector_name:
            t.register_detector(c)
    out = t.run_detectors()[0]
    return [p for eo in out for p in eo.paths]


def D4() -> bool:
    # approves whenever Fee != 0; missing-fee-check must report a path
    return not _paths("#pragma version 6\ncallsub f\nerr\nf:\ntxn Fee\nint 0\n==\nbnz out\nint 1\nreturn\nout:\nretsub\n", "missing-fee-check")


def D13() -> bool:
    src = ("#pragma version 4\nint 0\nstore 20\nloop:\nload 20\nint 2\n>=\nbnz loop_end\ngtxn 0 RekeyTo\nglobal ZeroAddress\n==\nassert\n"
           "load 20\nint 1\n+\nstore 20\nb loop\nloop_end:\nint 1\nreturn\n")
    return not _paths(src, "group-size-check")


def D20() -> bool:
    return not _paths("#pragma version 4\nb main\nf:\nretsub\nmain:\nint 1\ncallsub f\n", "rekey-to")


WITNESS.update({k: v for k, v in list(globals().items()) if k in ("D4", "D13", "D20")})


def D26() -> bool:
    from tealer.teal.instructions.parse_instruction import parse_line
    return type(parse_line("int 1//c")).__name__ != "Int"


def D27() -> bool:
    from tealer.teal.instructions.parse_instruction import parse_line
    try:
        return type(parse_line("byte base64 //8=")).__name__ != "Byte"
    except Exception:
        return True


def D29() -> bool:
    from tealer.teal.instructions.parse_instruction import parse_line
    return type(parse_line("switch")).__name__ == "UnsupportedInstruction"


def D30() -> bool:
    from tealer.teal.instructions.parse_instruction import parse_line
    return type(parse_line("errx")).__name__ != "UnsupportedInstruction"


def D22() -> bool:
    src = ("#pragma version 6\nb main\nok:\npop\ntxn RekeyTo\nglobal ZeroAddress\n==\nassert\nint 1\nreturn\nmain:\nint 1\nload 8\nbnz ok\n")
    return not _paths(src, "rekey-to")


def D32() -> bool:
    from tealer.teal.parse_teal import parse_teal
    from tealer.utils.regex.regex import parse_regex, match_regex
    teal = parse_teal("#pragma version 8\n" + "int 1\npop\n" * 700 + "int 7\nreturn\n")
    try:
        match_regex(teal, parse_regex("* =>\nint 7\nreturn\n"))
        return False
    except RecursionError:
        return True


WITNESS.update({k: v for k, v in list(globals().items()) if k in ("D22", "D26", "D27", "D29", "D30", "D32")})


def D14() -> bool:
    from tealer.teal.instructions.parse_instruction import parse_line
    return parse_line("frame_bury 0").stack_push_size != 0


WITNESS["D14"] = D14
