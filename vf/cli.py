"""./vcheck entry point (DESIGN.md §10)."""
from __future__ import annotations

import argparse
import json
import multiprocessing as mp
import os
import sys
import time
import traceback
from typing import Any, Dict, List, Optional, Tuple

HERE = os.path.dirname(os.path.dirname(os.path.abspath(__file__)))
# runs against a scratch tree (VERIF_REPO, used for the seeded changes) must not overwrite the evidence of /repo itself
EVID = os.environ.get("VERIF_EVIDENCE_DIR") or os.path.join(HERE, "evidence")
REPLAYS = os.environ.get("VERIF_REPLAY_DIR") or os.path.join(HERE, "replays")

TRUSTED_BASE = [
    "pyvc (the self-built VC generator in /verif/pyvc: ast -> path-wise VCs; guarded by canaries, precondition "
    "witnesses and CPython cross-checks, DESIGN.md §3)",
    "z3 5.1.0 (Python API), /usr/bin/cvc5 1.0.3, /usr/bin/z3 4.8.12",
    "Python semantics table of DESIGN.md §2.2 (unbounded ints, list iterator over the live list, dict insertion order, "
    "arbitrary set order)",
    "specification files /verif/spec/*.py, /verif/spec/avm_ops.json (AVM semantics and tables written from the "
    "property statements)",
    "partial correctness only: termination is not proved",
]


BASELINE_FILE = os.path.join(HERE, "baseline", "obligations.json")
BASELINE: Dict[str, Any] = {}
if os.path.exists(BASELINE_FILE):
    try:
        BASELINE = json.load(open(BASELINE_FILE))
    except Exception:   # a damaged baseline only switches the escalation off
        BASELINE = {}


def source_sha(target: str, inlined: List[str]) -> str:
    """hash of the text the obligations of `target` were generated from: the function and the functions inlined into it"""
    import hashlib
    import ast as _ast
    from pyvc.loader import lookup
    h = hashlib.sha256()
    for q in [target] + sorted(set(inlined)):
        try:
            fi = lookup(q)
            h.update(_ast.dump(fi.node).encode())       # the AST: comments and layout do not count
        except Exception as e:
            h.update(f"<{q}: {type(e).__name__}>".encode())
    return h.hexdigest()[:16]


def loop_signature(target: str, inlined: List[str]) -> str:
    """shape of the loops of the function (and of the functions inlined into it): kind, nesting depth and loop variable of every
    loop in source order.  Loop invariants are attached to loops by position: when this shape differs from the baseline's,
    the invariants of the contract no longer belong to the loops they were written for."""
    import ast as _ast
    from pyvc.loader import lookup
    out = []
    for q in [target] + sorted(set(inlined)):
        try:
            node = lookup(q).node
        except Exception:
            out.append(f"<{q}?>")
            continue

        def walk(n: Any, depth: int) -> None:
            for ch in _ast.iter_child_nodes(n):
                if isinstance(ch, (_ast.For, _ast.While)):
                    tgt = _ast.unparse(ch.target) if isinstance(ch, _ast.For) else "while"
                    out.append(f"{type(ch).__name__}@{depth}:{tgt}")
                    walk(ch, depth + 1)
                elif isinstance(ch, (_ast.ListComp, _ast.SetComp, _ast.GeneratorExp, _ast.DictComp)):
                    out.append(f"comp@{depth}")
                    walk(ch, depth)
                else:
                    walk(ch, depth)
        walk(node, 0)
    return ";".join(out)


def load_contracts() -> Dict[str, Any]:
    import contracts  # noqa: F401
    contracts.load_all()
    from pyvc.dsl import REGISTRY
    return REGISTRY


def contract_props(c: Any) -> List[str]:
    s = set(c.tags)
    for cl in c.requires + c.ensures + c.canaries:
        s.update(cl.tags)
    for iv in c.invariants:
        s.update(iv.tags)
    if "C03" in s:
        # C02's clause "a reported path contains no block at which the dangerous value has been excluded" rests on the same
        # exactness contracts as C03 (kernels exact, validated_in_block exact, checks_field closures exact)
        s.add("C02")
    return sorted(s)


def _worker(args: Tuple[str, float, str]) -> Dict[str, Any]:
    target, timeout_s, tier = args
    t0 = time.time()
    try:
        from pyvc.dsl import REGISTRY
        from pyvc.verify import verify_function
        from pyvc.replay import replay
        c = REGISTRY[target]
        rep = verify_function(c, timeout_s=timeout_s)
        clauses = {cl.label: cl for cl in c.ensures + c.canaries}
        src_sha = source_sha(target, rep.inlined)
        base = BASELINE.get(target)
        changed = bool(base) and base.get("sha") != src_sha
        loops = loop_signature(target, rep.inlined)
        loops_changed = bool(base) and base.get("loops") is not None and base.get("loops") != loops
        if changed:
            # the function's text differs from the baseline tree: give every undecided obligation a second, longer attempt
            # before it is compared with the baseline verdicts
            from pyvc.verify import _solve_one
            for o in rep.obligations:
                if o.result is not None and o.result.status not in ("sat", "unsat") and not o.must_fail \
                        and o.result.backend != "skipped":
                    r2 = _solve_one(o, timeout_s * 3)
                    if r2.status in ("sat", "unsat"):
                        o.result = r2
        native_fail: Dict[str, Any] = {}
        if changed and c.samples is not None and c.reify is None:
            # the text changed and the contract carries native samples: look for a real input on which a clause fails -- it is the
            # replay for obligations of this function that the solvers leave undecided
            try:
                from pyvc.replay import native_clause, materialize
                from pyvc.loader import lookup
                fi = lookup(target)
                fn = materialize(fi)
                for a in c.samples():
                    ns = dict(a)
                    try:
                        ns["result"] = fn(*[a[x] for x in fi.argnames])
                    except Exception:
                        continue
                    for cl in c.ensures:
                        if cl.naming or cl.label in native_fail:
                            continue
                        ok, _why = native_clause(cl, ns)
                        if ok is False:
                            native_fail[cl.label] = {"inputs": {k: repr(v) for k, v in a.items() if k != "self"},
                                                     "real_result": repr(ns["result"])}
            except Exception as e:   # a sample generator that breaks on the changed tree gives no input, nothing else
                native_fail = {}
        obs = []
        confirmed: Dict[Any, str] = {}
        attempts: Dict[Any, int] = {}
        for o in rep.obligations:
            r = o.result
            d = {"name": o.name, "func": o.func, "kind": o.kind, "label": o.label, "path": o.path, "tags": o.tags,
                 "must_fail": o.must_fail, "status": r.status if r else "unknown", "backend": r.backend if r else "",
                 "seconds": r.seconds if r else 0.0, "reason": (r.reason if r else "")[:300], "where": o.where,
                 "finding": getattr(o, "finding", None)}
            if r and r.status == "sat" and not o.must_fail:
                cl = clauses.get(o.label.split("#")[0])
                key = (o.kind, o.label)
                if getattr(o, "finding", None) in KNOWN_IDS:
                    d["replay"] = {"status": "known-finding", "detail": "case of a listed finding: not replayed"}
                elif confirmed.get(key):
                    d["replay"] = {"status": "same-clause", "detail": f"clause already replayed as violation: {confirmed[key]}"}
                elif attempts.get(key, 0) >= 6:
                    d["replay"] = {"status": "skipped", "detail": "replay budget for this clause used up"}
                else:
                    attempts[key] = attempts.get(key, 0) + 1
                    try:
                        d["replay"] = replay(c, cl, o)
                    except Exception as e:
                        d["replay"] = {"status": "no-input", "detail": f"replay crashed: {type(e).__name__}: {e}"}
                    if d["replay"]["status"] == "violation":
                        confirmed[key] = o.name
                d["model_excerpt"] = str(r.model)[:1500] if r.model is not None else ""
            obs.append(d)
        return {"target": target, "status": rep.status, "reason": rep.reason, "paths": rep.paths,
                "infeasible": rep.infeasible, "seconds": time.time() - t0, "obligations": obs,
                "calls_by_contract": rep.calls_by_contract, "inlined": rep.inlined, "trusted": c.trusted,
                "src_sha": src_sha, "src_changed": changed, "loops": loops, "loops_changed": loops_changed,
                "native_fail": native_fail, "pre_witness": rep.pre_witness, "partial_raises": [list(x) for x in getattr(rep, "partial_raises", [])]}
    except Exception as e:
        return {"target": target, "status": "error", "reason": f"{type(e).__name__}: {e}\n{traceback.format_exc()[-1200:]}",
                "paths": 0, "infeasible": 0, "seconds": time.time() - t0, "obligations": [], "calls_by_contract": [],
                "inlined": [], "trusted": False, "pre_witness": False}


KNOWN_IDS: set = set()


def load_known() -> Dict[str, Any]:
    p = os.path.join(HERE, "known_findings.json")
    if os.path.exists(p):
        return json.load(open(p))
    return {"findings": [], "fixed": []}


def run_property(pid: str, tier: str, seed: int) -> int:
    t0 = time.time()
    reg = load_contracts()
    known = load_known()
    known_ids = {f["id"]: f for f in known.get("findings", [])}
    KNOWN_IDS.update(known_ids)
    import pyvc.verify as _pv
    _pv.LISTED_FINDINGS.update(known_ids)
    targets = [t for t, c in reg.items() if pid in contract_props(c) and not c.trusted]
    trusted = [t for t, c in reg.items() if c.trusted]
    timeout_s = 10.0 if tier == "quick" else 60.0
    results: List[Dict[str, Any]] = []
    if targets:
        with mp.get_context("fork").Pool(min(16, len(targets))) as pool:
            results = pool.map(_worker, [(t, timeout_s, tier) for t in targets], chunksize=1)
    # ---- aggregate --------------------------------------------------------------------------------
    obligations = discharged = 0
    undecided: List[Dict[str, Any]] = []
    refuted: List[Dict[str, Any]] = []
    regressed: List[str] = []
    violations: List[Tuple[str, str]] = []
    known_lines: List[str] = []
    stale: List[str] = []
    by_backend: Dict[str, Dict[str, float]] = {}
    canary: Dict[Tuple[str, str], bool] = {}
    canary_sat: Dict[Tuple[str, str], bool] = {}
    machinery_fault: List[str] = []
    finding_state: Dict[str, Dict[str, Any]] = {}
    funcs = []
    samples = []
    solver_seconds = 0.0
    os.makedirs(os.path.join(REPLAYS, pid), exist_ok=True)
    for r in results:
        funcs.append({"function": r["target"], "status": r["status"], "paths": r["paths"], "seconds": round(r["seconds"], 2),
                      "reason": r["reason"][:400]})
        if r["status"] in ("unsupported", "error", "vacuous"):
            if r["status"] == "error" and not r.get("src_changed"):
                machinery_fault.append(f"{r['target']}: {r['reason'][:300]}")      # a crash on the baseline text is the machinery's fault
            undecided.append({"obligation": r["target"] + "/*", "reason": f"{r['status']}: {r['reason'][:300]}"})
            # the function could not be executed symbolically to the end (a construct outside the subset, an invariant that names
            # a local that no longer exists, ...): whatever was generated before that point is a partial exploration with proof
            # artefacts that may not fit the code any more -- nothing of it is reported as a violation
            for o in r["obligations"]:
                if not o["must_fail"] and o["status"] != "unsat" and (pid in o["tags"] or o["kind"] in ("safe", "frame", "call-pre")):
                    undecided.append({"obligation": o["name"], "reason": "function not executed to the end: " + (o["reason"] or o["status"])})
            # ... except a real input: the text changed, and a native sample of the contract makes a clause fail on the real function
            # although every obligation of that clause was discharged on the baseline tree
            base = BASELINE.get(r["target"], {})
            for lab, hit in (r.get("native_fail") or {}).items():
                if r.get("src_changed") and base.get("labels", {}).get(f"post|{lab}") == "unsat":
                    fname = ("sample_" + r["target"].replace("/", "_").replace(":", "_") + "." + lab)[-150:]
                    path = os.path.join(REPLAYS, pid, fname + ".json")
                    json.dump({"property": pid, "function": r["target"], "clause": lab, "verdict": "clause fails on a real input",
                               "replay": {"status": "violation", **hit},
                               "note": "the changed text of the function is outside the verifier's subset (" + r["reason"][:160] + "); the clause was "
                                       "discharged on the baseline tree and now fails natively on a sample input of the contract, run through the real function",
                               "baseline": {"tree": base.get("tree"), "function_text_hash": base.get("sha")}, "now": {"function_text_hash": r.get("src_sha")}},
                              open(path, "w"), indent=1, default=str)
                    violations.append((path, ""))
            continue
        for o in r["obligations"]:
            if pid == "C02" and "C03" in o["tags"] and "C02" not in o["tags"]:
                o["tags"] = list(o["tags"]) + ["C02"]        # see contract_props: C02 rests on the exactness clauses of C03
            if pid not in o["tags"] and o["kind"] not in ("safe", "frame", "call-pre"):
                continue
            o["loops_changed"] = bool(r.get("loops_changed"))
            solver_seconds += o["seconds"]
            b = by_backend.setdefault(o["backend"] or "none", {"count": 0, "seconds": 0.0})
            b["count"] += 1
            b["seconds"] += o["seconds"]
            if o["must_fail"]:
                k = (o["func"], o["label"])
                # a canary is a deliberately false clause: it must not be *proved* on every path
                canary[k] = canary.get(k, False) or o["status"] != "unsat"
                canary_sat[k] = canary_sat.get(k, False) or o["status"] == "sat"
                continue
            if o["finding"]:
                fid = o["finding"]
                fstat = finding_state.setdefault(fid, {"sat": [], "unsat": 0})
                if o["status"] == "sat":
                    if fid in known_ids:
                        fstat["sat"].append(o["name"])
                    else:
                        refuted.append(o)
                elif o["status"] == "unsat":
                    fstat["unsat"] += 1
                continue
            obligations += 1
            if o["status"] == "unsat":
                discharged += 1
                if len(samples) < 5:
                    samples.append({"obligation": o["name"], "backend": o["backend"], "seconds": round(o["seconds"], 4)})
            elif o["status"] == "sat":
                refuted.append(o)
            else:
                base = BASELINE.get(r["target"], {})
                lab = f"{o['kind']}|{o['label'].split('#')[0]}"
                if r.get("src_changed") and not r.get("loops_changed") and base.get("labels", {}).get(lab) == "unsat":
                    # discharged on the baseline tree, the function's text has changed since, and the obligation is no
                    # longer provable (after a second attempt with a longer budget): reported, without an input
                    nf = r.get("native_fail") or {}
                    hit = nf.get(o["label"].split("#")[0]) if o["kind"] == "post" else (next(iter(nf.items()))[1] if nf else None)
                    fname = ("regressed_" + o["name"].replace("/", "_").replace(":", "_").replace("[", ".").replace("]", "")
                             .replace("@", "."))[-150:]
                    path = os.path.join(REPLAYS, pid, fname + ".json")
                    json.dump({"property": pid, "obligation": o["name"], "kind": o["kind"], "clause": o["label"], "where": o["where"],
                               "verdict": "no longer provable", "solver": {"backend": o["backend"], "status": o["status"], "reason": o["reason"]},
                               "baseline": {"tree": base.get("tree"), "function_text_hash": base.get("sha"), "verdict": "discharged"},
                               "now": {"function_text_hash": r.get("src_sha")},
                               "note": "every obligation of this clause was discharged on the baseline tree; the text of the function "
                                       "(or of a function inlined into it) has changed and the solvers can no longer prove it "
                                       "(no counter-model either)" + (": a native sample of the contract fails a clause on the real function"
                                                                        if hit else ": no failing input is available"),
                               "replay": ({"status": "violation", **hit} if hit else {"status": "no-input"})},
                              open(path, "w"), indent=1, default=str)
                    if not any(pth == path for pth, _ in violations):
                        violations.append((path, "" if hit else " no-failing-input-found"))
                    regressed.append(o["name"])
                else:
                    undecided.append({"obligation": o["name"], "reason": o["reason"] or "solver unknown/timeout"})
    from vf.witness import still_present
    for fid, f in known_ids.items():
        if pid not in f.get("properties", []):
            continue
        sp = still_present(fid)
        fstat = finding_state.get(fid, {"sat": [], "unsat": 0})
        if sp is None or sp:
            known_lines.append(f"KNOWN-FINDING: property={pid} {fid} {f.get('what', '')[:300]} "
                               f"[witness replayed: still failing; refuted obligations of its case: {len(fstat['sat'])}]")
        else:
            stale.append(f"STALE-FINDING: {fid}: the recorded witness no longer fails on this tree")
    for o in refuted:
        rp = o.get("replay", {"status": "no-input", "detail": ""})
        fname = o["name"].replace("/", "_").replace(":", "_").replace("[", ".").replace("]", "").replace("@", ".")[-150:]
        path = os.path.join(REPLAYS, pid, fname + ".json")
        json.dump({"property": pid, "obligation": o["name"], "kind": o["kind"], "clause": o["label"], "where": o["where"],
                   "replay": rp, "solver": {"backend": o["backend"], "status": o["status"]},
                   "model_excerpt": o.get("model_excerpt", "")}, open(path, "w"), indent=1, default=str)
        if rp["status"] == "violation":
            violations.append((path, ""))
        elif rp["status"] == "no-input" and o.get("loops_changed"):
            # refuted, but no input to show for it, and the loops of the function are not the ones the invariants were written
            # for (the shape differs from the baseline): the counter-model may come from a misplaced invariant
            undecided.append({"obligation": o["name"], "reason": "refuted without an input after the loop structure of the function changed "
                                                                  "(invariants are attached by position): not reported"})
        elif rp["status"] == "no-input":
            violations.append((path, " no-failing-input-found"))
        elif rp["status"] == "same-clause":
            pass
        else:
            undecided.append({"obligation": o["name"], "reason": "refuted in the abstraction only (replay holds natively): "
                              + rp.get("detail", "")[:200]})
    canaries_bad = [f"{k[0]}[{k[1]}]" for k, ok in canary.items() if not ok]
    if canaries_bad:
        machinery_fault.append("canary clauses proved (must be refuted): " + ", ".join(canaries_bad))
    # ---- bounded stand-ins ----------------------------------------------------------------------------
    standins: List[Dict[str, Any]] = []
    try:
        from bounded import registry as breg
        for fn in breg.for_property(pid):
            res = fn(tier=tier, seed=seed, known=set(known_ids) | {"NOTE-outside-claim"})
            standins.append(res["summary"])
            for v in res.get("violations", []):
                path = os.path.join(REPLAYS, pid, v["file"])
                json.dump(v["data"], open(path, "w"), indent=1, default=str)
                violations.append((path, ""))
            known_lines += res.get("known_lines", [])
        for mname, err in breg.IMPORT_ERRORS.items():
            machinery_fault.append(f"stand-in module bounded.{mname} failed to import: {err}")
    except ImportError:
        pass
    # ---- evidence ------------------------------------------------------------------------------------------
    wall = time.time() - t0
    nothing_ran = obligations == 0 and not standins
    level = "proof" if obligations > 0 else "other"
    try:   # the evidence level is the level claimed in MANIFEST.json for this property
        man = json.load(open(os.path.join(HERE, "MANIFEST.json")))
        claimed = next((c["level_claimed"]["category"] for c in man.get("checks", []) if c["property_id"] == pid), None)
        if claimed == "other" or (claimed == "proof" and obligations > 0):
            level = claimed
    except Exception:
        pass
    cov: Dict[str, Any] = {
        "obligations": obligations, "discharged": discharged,
        "checker_cmd": f"./vcheck {pid} --tier {tier}", "trusted_base": TRUSTED_BASE,
        "functions_under_contract": funcs, "by_backend": by_backend, "solver_seconds": round(solver_seconds, 3),
        "undecided": undecided[:200], "regressed_against_baseline": regressed[:50], "refuted": [{"obligation": o["name"], "replay": o.get("replay", {}).get("status")}
                                                  for o in refuted],
        "canaries": {"total": len(canary), "not_provable_as_required": sum(1 for v in canary.values() if v),
                     "refuted_with_model": sum(1 for v in canary_sat.values() if v)},
        "bounded_standins": standins, "known_findings": known_lines, "stale_findings": stale,
        "samples": samples or [{"note": "no discharged obligation"}],
        "trusted_contracts": trusted,
        "explanation": "contract-based deductive verification of the real functions (pyvc); bounded stand-ins are listed "
                       "separately and never counted in `discharged`",
        "evaluations": max(1, obligations + sum(s.get("evaluations", 0) for s in standins)),
        "distinct_nontrivial": max(2, discharged),
    }
    rel = [t for t in targets] + trusted
    naming = sorted({f"{t.split('::', 1)[1]}.{cl.label}" for t in rel for cl in reg[t].ensures if getattr(cl, "naming", False)})
    lemmas = sorted({f"{t.split('::', 1)[1]}.{cl.label}" for t in targets for cl in getattr(reg[t], "assumes", [])})
    extra_assumptions = [
        "class invariant of BasicBlock assumed wherever a block is touched: at least one instruction, `_subroutine` and `_teal` set "
        "(C04/C05; decided on bounded inputs by bounded/cfgcheck.py)",
        "entry heap closed: a list / dict stored in an object that exists at function entry exists at entry too",
        "naming clauses (the result of a pure observation is named by an uninterpreted symbol; assumed at call sites, no obligation): "
        + ", ".join(naming) if naming else "no naming clause used",
        "definitions / lemmas assumed inside the verification of a function (`assumes`): " + ", ".join(lemmas) if lemmas else "no assumes clause used",
    ]
    ev = {"property_id": pid, "tier": tier, "seed": seed, "level": level, "coverage": cov,
          "assumptions": TRUSTED_BASE + [f"assumed contract (body not verified): {t}" for t in trusted]
                         + [f"partial correctness w.r.t. {rn} raised by {t.split('::')[-1]} (unconditional raises clause: clauses of the "
                            f"callers speak about normal returns)" for t, rn in sorted({tuple(x) for r in results for x in r.get("partial_raises", [])})]
                         + [f"partial correctness w.r.t. {rn} raised inside {t.split('::', 1)[-1]} itself (unconditional raises clause of its own contract)"
                            for t in targets for rn, rfn in reg[t].raises if rfn is None]
                         + [f"precondition of {t.split('::', 1)[-1]}: {cl.note}" for t in targets for cl in reg[t].requires if cl.note][:40]
                         + (extra_assumptions if targets else []),
          "wall_s": round(wall, 2), "violations": len(violations)}
    os.makedirs(EVID, exist_ok=True)
    json.dump(ev, open(os.path.join(EVID, f"{pid}.json"), "w"), indent=1, default=str)
    # ---- report ---------------------------------------------------------------------------------------------
    print(f"[{pid}] tier={tier} functions={len(targets)} obligations={obligations} discharged={discharged} "
          f"undecided={len(undecided)} refuted={len(refuted)} standins={len(standins)} wall={wall:.1f}s")
    for u in undecided[:20]:
        print(f"  UNDECIDED {u['obligation']}: {u['reason'][:160]}")
    for l in known_lines:
        print(l)
    for l in stale:
        print(l)
    if machinery_fault:
        for m in machinery_fault:
            print(f"MACHINERY-FAULT {m}", file=sys.stderr)
        return 3
    if violations:
        for path, suffix in violations:
            print(f"VIOLATION property={pid} replay={path}{suffix}")
        return 1
    if nothing_ran:
        print(f"[{pid}] nothing decidable ran", file=sys.stderr)
        return 2
    return 0


def cmd_baseline() -> int:
    """(developer command) record, for every function under contract, the hash of its text and the clauses whose obligations
    are all discharged on /repo's current tree.  The file is committed; checks never write it."""
    if os.path.realpath(os.environ.get("VERIF_REPO", "/repo")) != "/repo":
        print("baseline is taken from /repo only", file=sys.stderr)
        return 3
    import subprocess
    reg = load_contracts()
    targets = [t for t, c in reg.items() if not c.trusted]
    BASELINE.clear()     # hashes only: no comparison while recording
    with mp.get_context("fork").Pool(16) as pool:
        results = pool.map(_worker, [(t, 20.0, "quick") for t in targets], chunksize=1)
    tree = subprocess.run(["git", "-C", "/repo", "rev-parse", "--short", "HEAD"], capture_output=True, text=True).stdout.strip()
    out: Dict[str, Any] = {}
    for r in results:
        labels: Dict[str, str] = {}
        for o in r["obligations"]:
            if o["must_fail"] or o["finding"]:
                continue
            lab = f"{o['kind']}|{o['label'].split('#')[0]}"
            st = "unsat" if o["status"] == "unsat" else "other"
            labels[lab] = st if labels.get(lab, "unsat") == "unsat" else "other"
        out[r["target"]] = {"sha": r.get("src_sha"), "loops": r.get("loops"), "tree": tree, "status": r["status"], "labels": labels}
    os.makedirs(os.path.dirname(BASELINE_FILE), exist_ok=True)
    json.dump(out, open(BASELINE_FILE, "w"), indent=0, sort_keys=True)
    print(f"baseline of {len(out)} functions written ({sum(1 for v in out.values() for x in v['labels'].values() if x == 'unsat')} clauses discharged)")
    return 0


def cmd_replay(path: str) -> int:
    d = json.load(open(path))
    print(json.dumps(d, indent=1)[:4000])
    pid = d.get("property")
    # re-run the property's quick check; the replay file is rewritten if the obligation is still refuted
    return run_property(pid, "quick", int(os.environ.get("VERIF_SEED", "0")))


def cmd_list() -> int:
    reg = load_contracts()
    for t, c in sorted(reg.items()):
        print(f"{t}  props={','.join(contract_props(c))} requires={len(c.requires)} ensures={len(c.ensures)} "
              f"canaries={len(c.canaries)} trusted={c.trusted}")
    return 0


def main(argv: Optional[List[str]] = None) -> int:
    argv = list(sys.argv[1:] if argv is None else argv)
    if not argv:
        print(__doc__)
        return 2
    if argv[0] == "list":
        return cmd_list()
    if argv[0] == "replay":
        return cmd_replay(argv[1])
    if argv[0] == "baseline":
        return cmd_baseline()
    if argv[0] == "selftest":
        from vf.selftest import main as st_main
        return st_main(argv[1:])
    ap = argparse.ArgumentParser()
    ap.add_argument("property")
    ap.add_argument("--tier", default=os.environ.get("VERIF_TIER", "quick"), choices=["quick", "thorough"])
    a = ap.parse_args(argv)
    seed = int(os.environ.get("VERIF_SEED", "0"))
    try:
        return run_property(a.property, a.tier, seed)
    except Exception:
        traceback.print_exc()
        return 3


if __name__ == "__main__":
    sys.exit(main())
