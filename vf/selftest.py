"""Self-test of the verifier itself (`./vcheck selftest`): small functions with a right and a deliberately wrong variant; the
right ones must verify, the wrong ones must fail the named obligation.  Guards the features added for the engine contracts (loop
invariants over lists, dict heap objects, the loop frame check, conditional raises clauses)."""
from __future__ import annotations

import sys
from typing import Any, List

import z3


def main(argv: List[str]) -> int:
    from pyvc.dsl import contract, requires, ensures, invariant, And, Implies, Len, ForallIdx, In, Not, Count, current, REGISTRY
    from pyvc.values import T, VBool, VInt
    from pyvc.verify import verify_function
    P = "selftest/funcs.py::"
    saved = dict(REGISTRY)
    results = []

    def expect(target: str, want_ok: bool, must_fail_label: str = "") -> None:
        rep = verify_function(REGISTRY[P + target], timeout_s=10.0)
        bad = [(o.kind, o.label, o.result.status) for o in rep.obligations if not o.must_fail and o.result.status != "unsat"]
        ok = rep.status == "ok" and not bad
        good = ok if want_ok else (not ok and (not must_fail_label or any(must_fail_label in b[1] for b in bad)))
        results.append((target, "as expected" if good else "UNEXPECTED", rep.status, bad[:3]))

    try:
        c = contract(P + "count_pos", params={"xs": T.List(T.Int)}, returns=T.Int)
        ensures(c, "bounded", lambda xs, result: And(result >= 0, result <= Len(xs)))
        ensures(c, "zero_if_none", lambda xs, result: Implies(ForallIdx(xs, lambda j, x: x <= 0), lambda: result == 0))
        invariant(c, 1, "x", lambda it, i, c: And(i <= Len(it), c >= 0, c <= i,
                                                  Implies(ForallIdx(it, lambda j, x: x <= 0, upto=i), lambda: c == 0)))
        expect("count_pos", True)
        c = contract(P + "count_pos_wrong", params={"xs": T.List(T.Int)}, returns=T.Int)
        ensures(c, "zero_if_none", lambda xs, result: Implies(ForallIdx(xs, lambda j, x: x <= 0), lambda: result == 0))
        invariant(c, 1, "x", lambda it, i, c: And(i <= Len(it), c >= 0, c <= i,
                                                  Implies(ForallIdx(it, lambda j, x: x <= 0, upto=i), lambda: c == 0)))
        expect("count_pos_wrong", False, "inv")
        DS = T.Dict(T.Str, T.Int)
        c = contract(P + "fill", params={"d": DS, "keys": T.List(T.Str)}, returns=T.NoneT,
                     modifies=["D.map:String->Int", "D.dom:String", "param:d"])
        c.loop_havoc = {1: ["D.map:String->Int", "D.dom:String"]}
        ensures(c, "all_present", lambda d, keys: ForallIdx(keys, lambda j, k: In(k, d)))
        invariant(c, 1, "k", lambda it, i, d: And(i <= Len(it), ForallIdx(it, lambda j, k: In(k, d), upto=i)))
        expect("fill", True)
        c = contract(P + "fill_and_touch", params={"d": DS, "keys": T.List(T.Str), "other": T.List(T.Int)}, returns=T.NoneT,
                     modifies=["D.map:String->Int", "D.dom:String", "L.len", "L.elem:Int", "param:d", "param:other"])
        c.loop_havoc = {1: ["D.map:String->Int", "D.dom:String"]}      # the hint forgets the list: the loop frame check must object
        invariant(c, 1, "k", lambda it, i, d: And(i <= Len(it), ForallIdx(it, lambda j, k: In(k, d), upto=i)))
        expect("fill_and_touch", False, "loop-body-leaves")
        c = contract(P + "guarded_div", params={"a": T.Int, "b": T.Int}, returns=T.Int,
                     raises=[("ValueError", lambda b: b == 0)])
        ensures(c, "defined", lambda b: Not(b == 0))
        expect("guarded_div", True)
        c = contract(P + "calls_div", params={"a": T.Int, "b": T.Int}, returns=T.Int)
        expect("calls_div", False, "ValueError")
        c = contract(P + "calls_div_ok", params={"a": T.Int, "b": T.Int}, returns=T.Int)
        expect("calls_div_ok", True)
    finally:
        REGISTRY.clear()
        REGISTRY.update(saved)
    bad = [r for r in results if r[1] != "as expected"]
    for r in results:
        print(f"selftest {r[0]:18s} {r[1]:12s} status={r[2]} {r[3] if r[1] != 'as expected' or r[3] else ''}")
    print(f"selftest: {len(results) - len(bad)}/{len(results)} as expected")
    return 0 if not bad else 3
