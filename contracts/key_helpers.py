"""Contracts for key_helpers.py and group_helpers.py (DESIGN.md §6.3, §6.4; C10, and every kernel that calls them)."""
from pyvc.dsl import (contract, requires, assumes, ensures, must_fail, And, Or, Not, Implies, If, Iff, Eq, forall, IsInstance,
                      IsNone, IsInt, IsStr, AsInt, AsStr, current)
from pyvc.values import T, V, VBool, VInt
from spec.avm_axioms import ev, gidx, gsize
from spec.ghost import is_field_read, is_field_read_f, keydef, keyfld, keyfld_f, _clsid
from spec.keys import (valid_key, key_kind, key_idx, key_base, key_semantics, field_read_definition, BASE_FIELDS,
                       KEYKIND, KEYIDX, KEYBASE, valid_key_term)
import contracts.helpers  # noqa: F401
import z3

K = "tealer/analyses/dataflow/transaction_context/utils/key_helpers.py::"
G = "tealer/analyses/dataflow/transaction_context/utils/group_helpers.py::"
VISIT = T.Abs("Visit")
X_REASON = ("tied to the abstract key view (KEYKIND/KEYIDX/KEYBASE) by exhaustive native evaluation over the finite key "
            "space: bounded/keyspace.py (complete, not bounded)")

# ---- recognisers / constructors / inverter: exhaustively checked (X tier), assumed here -------------------------------------
for name, kind in (("is_gtxn_at_index_key", 1), ("is_absolute_index_key", 2), ("is_relative_index_key", 3)):
    c = contract(K + name, params={"analysis_key": T.Str}, returns=T.Bool, tags=["C10"], trusted=True, trusted_reason=X_REASON)
    requires(c, "valid", lambda analysis_key: valid_key(analysis_key))

    def mk(kind):
        return lambda analysis_key, result: Iff(result, key_kind(analysis_key) == kind)
    ensures(c, "recognises", mk(kind))

c = contract(K + "get_ind_base_for_gtxn_type_keys", params={"analysis_key": T.Str}, returns=T.Tuple(T.Int, T.Str),
             tags=["C10"], trusted=True, trusted_reason=X_REASON)
requires(c, "valid", lambda analysis_key: And(valid_key(analysis_key), Not(key_kind(analysis_key) == 0)))
ensures(c, "inverts", lambda analysis_key, result: And(Eq(result[0], key_idx(analysis_key)), Eq(result[1], key_base(analysis_key))))

for name, kind in (("get_gtxn_at_index_key", 1), ("get_absolute_index_key", 2), ("get_relative_index_key", 3)):
    pn = "offset" if kind == 3 else "idx"
    c = contract(K + name, params={pn: T.Int, "base_key": T.Str}, returns=T.Str, tags=["C10"], trusted=True,
                 trusted_reason=X_REASON)
    if kind == 3:
        requires(c, "range", lambda offset: And(offset >= -15, offset <= 15, Not(offset == 0)))
        requires(c, "base", lambda base_key: And(valid_key(base_key), key_kind(base_key) == 0))
        ensures(c, "view", lambda offset, base_key, result: And(valid_key(result), key_kind(result) == 3,
                                                                 Eq(key_idx(result), offset), Eq(key_base(result), base_key)))
    else:
        requires(c, "range", lambda idx: And(idx >= 0, idx <= 15))
        requires(c, "base", lambda base_key: And(valid_key(base_key), key_kind(base_key) == 0))

        def mkc(kind):
            return lambda idx, base_key, result: And(valid_key(result), key_kind(result) == kind,
                                                     Eq(key_idx(result), idx), Eq(key_base(result), base_key))
        ensures(c, "view", mkc(kind))


# ---- is_value_matches_key ------------------------------------------------------------------------------------------------
def _defs(analysis_key, stack_value, key_field, v):
    """instantiate the definitions of ISFIELDREAD(_F), KEYDEF, KEYFLD(_F) for this key / stack value / visit"""
    if isinstance(stack_value, V):
        ctx = current()
        ex, st = ctx.ex, ctx.st
        n = ex.term_of_refu(stack_value)
        k = analysis_key.term
        st.pc.extend(field_read_definition(ex, st, k, n, None))
        st.pc.extend(key_semantics(v.term, k, None))
        isnone = IsNone(key_field) if key_field is not None else True
        if not (isnone is True or z3.is_true(z3.simplify(isnone.term))):
            fc = _clsid(key_field)
            st.pc.extend(field_read_definition(ex, st, k, n, fc))
            st.pc.extend(key_semantics(v.term, k, fc))
    return True


c = contract(K + "is_value_matches_key",
             params={"analysis_key": T.Str, "stack_value": T.Ref("KnownStackValue"),
                     "key_field": T.Union(T.NoneT, T.Cls("TransactionField"))},
             returns=T.Bool, ghost={"v": VISIT}, tags=["C10", "C01", "C03", "C06", "C07", "C08", "C09", "C13"], touch=["stack_value"])
requires(c, "valid_key", lambda analysis_key: valid_key(analysis_key))
requires(c, "field_known", lambda analysis_key, key_field:
         Implies(IsNone(key_field), Or(*[Eq(key_base(analysis_key), b) for b in BASE_FIELDS])))
def _leaf_field(key_field):
    """an explicitly given field class has no subclasses (TypeEnum, OnCompletion, ApplicationID ...): its reads are its own"""
    from pyvc.values import VClass, VUnion
    from pyvc.execbase import CLS_LO, CLS_HI
    from pyvc.loader import class_table
    if isinstance(key_field, VUnion):
        for g, a in key_field.alts:
            if isinstance(a, VClass):
                return Implies(VBool(g), _leaf_field(a))
        return True
    if isinstance(key_field, VClass):
        if key_field.pycls is not None:
            ct = class_table()
            ctx = current()
            lo = ct.lo[key_field.pycls]
            ctx.st.pc.append(z3.And(CLS_LO(z3.IntVal(lo)) == lo, CLS_HI(z3.IntVal(lo)) == ct.hi[key_field.pycls]))
            return ct.hi[key_field.pycls] == lo + 1
        return VBool(CLS_HI(key_field.term) == CLS_LO(key_field.term) + 1)
    return True


requires(c, "leaf_field", lambda key_field: _leaf_field(key_field))
assumes(c, "defs", lambda analysis_key, stack_value, key_field, v: _defs(analysis_key, stack_value, key_field, v))
ensures(c, "exact", lambda analysis_key, stack_value, key_field, result:
        Implies(IsNone(key_field), lambda: Iff(result, is_field_read(analysis_key, stack_value))))
ensures(c, "sound", lambda analysis_key, stack_value, key_field, result, v:
        Implies(And(IsNone(key_field), result, keydef(v, analysis_key)),
                lambda: Eq(ev(v, stack_value, 2), keyfld(v, analysis_key))))
ensures(c, "exact_f", lambda analysis_key, stack_value, key_field, result:
        Implies(Not(IsNone(key_field)), lambda: Iff(result, is_field_read_f(analysis_key, stack_value, key_field))))
ensures(c, "sound_f", lambda analysis_key, stack_value, key_field, result, v:
        Implies(And(Not(IsNone(key_field)), result, keydef(v, analysis_key)),
                lambda: Eq(ev(v, stack_value, 2), keyfld_f(v, analysis_key, key_field))))
must_fail(c, "canary", lambda analysis_key, stack_value, key_field, result, v:
          Implies(And(IsNone(key_field), result), lambda: Eq(ev(v, stack_value, 2), gidx(v))))
