"""Contracts of the detector layer (DESIGN.md §6.7; C01, C03, C09, C13): the nine `checks_field` closures and
`validated_in_block`.

The danger predicates are written here from the property statements / the AVM constants, not from tealer's constants:
the fee threshold is 16 * 17000 = 272000 micro-algos (MAX_GROUP_SIZE * the per-transaction cost bound the property
names), the group size limit is 16, the transaction kinds are the enum members named in the property.

`validated_in_block` is verified against an *uninterpreted* pure callable CF (its `checks_field` parameter): the post is
exact:  result  <=>  CF(ctx)  or  (abs given and CF(gtxn_ctx(abs)))  or  (abs not given and CF holds on gtxn_ctx(i) for
every i in ctx.group_indices).
"""
from pyvc.dsl import (contract, requires, assumes, ensures, must_fail, invariant, And, Or, Not, Implies, If, Iff, Eq, In, forall,
                      IsInstance, IsNone, AsInt, ForallIdx, ExistsIdx, Len, Count, current)
from pyvc.values import T, V, VBool, VInt
from pyvc.execbase import FIELD_TYPES

CTX = T.Ref("BlockTransactionContext")
TXTYPE = T.Enum("TealerTransactionType")
ADDRV = T.Rec("AddrFieldValue")

FIELD_TYPES[("BlockTransactionContext", "transaction_types")] = T.List(TXTYPE)
FIELD_TYPES[("BlockTransactionContext", "group_sizes")] = T.List(T.Int)
FIELD_TYPES[("BlockTransactionContext", "group_indices")] = T.List(T.Int)
FIELD_TYPES[("BlockTransactionContext", "is_gtxn_context")] = T.Bool
FIELD_TYPES[("BlockTransactionContext", "_gtxn_at_index_context")] = T.Opt(T.List(CTX))
for _a in ("rekeyto", "closeto", "assetcloseto", "sender"):
    FIELD_TYPES[("BlockTransactionContext", _a)] = ADDRV

FEE_THRESHOLD = 16 * 17000   # 272000
GROUP_LIMIT = 16
D = "tealer/detectors/"


def _closure(path, fn="checks_field", tags=("C01", "C03")):
    return contract(D + path + "::" + fn, params={"block_ctx": CTX}, returns=T.Bool, tags=list(tags))


def _has(block_ctx, member):
    from tealer.utils.teal_enums import TealerTransactionType
    return In(getattr(TealerTransactionType, member), block_ctx.transaction_types)


# ---- missing-fee-check: validated iff the fee is bounded by an unknown value or by a known value <= 272000
c = _closure("fee_check.py::MissingFeeCheck.detect", tags=("C01", "C03", "C09"))
ensures(c, "threshold", lambda block_ctx, result: Iff(result, Or(block_ctx.max_fee_unknown, block_ctx.max_fee <= FEE_THRESHOLD)))
must_fail(c, "always_validated", lambda result: result)
must_fail(c, "never_validated", lambda result: Not(result))

# ---- rekey-to: validated iff RekeyTo cannot be an arbitrary address
c = _closure("rekeyto.py::MissingRekeyTo.detect")
ensures(c, "any_addr", lambda block_ctx, result: Iff(result, Not(block_ctx.rekeyto.any_addr)))
must_fail(c, "always_validated", lambda result: result)

# ---- can-close-account / can-close-asset
c = _closure("can_close_account.py::CanCloseAccount.detect")
ensures(c, "pay_and_any", lambda block_ctx, result: Iff(result, Not(And(block_ctx.closeto.any_addr, _has(block_ctx, "Pay")))))
must_fail(c, "always_validated", lambda result: result)
c = _closure("can_close_asset.py::CanCloseAsset.detect")
ensures(c, "axfer_and_any", lambda block_ctx, result: Iff(result, Not(And(block_ctx.assetcloseto.any_addr, _has(block_ctx, "Axfer")))))
must_fail(c, "always_validated", lambda result: result)

# ---- is-updatable / is-deletable
c = _closure("is_updatable.py::IsUpdatable.detect")
ensures(c, "update_kind", lambda block_ctx, result: Iff(result, Not(_has(block_ctx, "ApplUpdateApplication"))))
must_fail(c, "always_validated", lambda result: result)
c = _closure("is_deletable.py::IsDeletable.detect")
ensures(c, "delete_kind", lambda block_ctx, result: Iff(result, Not(_has(block_ctx, "ApplDeleteApplication"))))
must_fail(c, "always_validated", lambda result: result)

# ---- unprotected-updatable / unprotected-deletable
c = _closure("anyone_can_update.py::AnyoneCanUpdate.detect")
ensures(c, "update_by_anyone", lambda block_ctx, result: Iff(result, Not(And(_has(block_ctx, "ApplUpdateApplication"),
                                                                               block_ctx.sender.any_addr))))
must_fail(c, "always_validated", lambda result: result)
c = _closure("anyone_can_delete.py::AnyoneCanDelete.detect")
ensures(c, "delete_by_anyone", lambda block_ctx, result: Iff(result, Not(And(_has(block_ctx, "ApplDeleteApplication"),
                                                                               block_ctx.sender.any_addr))))
must_fail(c, "always_validated", lambda result: result)

# ---- group-size-check: validated iff the context is the txn's own and size 16 is excluded
c = _closure("groupsize.py::MissingGroupSize.detect", fn="checks_group_size", tags=("C01", "C03", "C06"))
ensures(c, "limit_excluded", lambda block_ctx, result: Iff(result, And(Not(block_ctx.is_gtxn_context),
                                                                        Not(In(GROUP_LIMIT, block_ctx.group_sizes)))))
must_fail(c, "always_validated", lambda result: result)


# ---- tealer/detectors/utils.py::validated_in_block ---------------------------------------------------------------------
CF = T.Callable([CTX], T.Bool)


def _sym(x):
    return isinstance(x, V)


def ctx_of(function, block):
    """function._transaction_contexts[block]"""
    if _sym(function):
        ctx = current()
        d = function._transaction_contexts
        val, st2 = ctx.ex.dict_read(d, block, ctx.st)
        ctx.st.pc[:] = st2.pc
        return val
    return function._transaction_contexts[block]


def has_ctx(function, block):
    return In(block, function._transaction_contexts)


def gtxn_none(c_):
    """c_._gtxn_at_index_context is None"""
    if _sym(c_):
        return IsNone(c_._gtxn_at_index_context)
    return c_._gtxn_at_index_context is None


def gtxn_list(c_):
    """the list c_._gtxn_at_index_context (meaningful where it is not None)"""
    if _sym(c_):
        from pyvc.values import VList, VUnion
        u = c_._gtxn_at_index_context
        if isinstance(u, VUnion):
            return next(v for _, v in u.alts if isinstance(v, VList))
        return u
    return c_._gtxn_at_index_context


def wf_ctx(c_):
    """representation invariant of a transaction context as far as `gtxn_context` depends on it: the per-index list, when
    present, has one entry per possible group position (16), and the recorded own indices are positions"""
    return And(Or(gtxn_none(c_), Eq(Len(gtxn_list(c_)), 16)),
               ForallIdx(c_.group_indices, lambda j, x: And(x >= 0, x < 16)))


TC = "tealer/teal/functions.py::Function.transaction_context"
c = contract(TC, params={"self": T.Ref("Function"), "block": T.Ref("BasicBlock")}, returns=CTX, tags=["C01", "C03"])
requires(c, "has_context", lambda self, block: has_ctx(self, block))
ensures(c, "lookup", lambda self, block, result: Eq(result, ctx_of(self, block)))

GC = "tealer/teal/context/block_transaction_context.py::BlockTransactionContext.gtxn_context"
c = contract(GC, params={"self": CTX, "txn_index": T.Int}, returns=CTX, tags=["C01", "C03", "C10"],
             raises=[("TealerException", lambda self, txn_index: Or(gtxn_none(self), txn_index >= 16))])
requires(c, "position", lambda txn_index: txn_index >= 0)
requires(c, "wf", lambda self: Or(gtxn_none(self), Eq(Len(gtxn_list(self)), 16)))
ensures(c, "lookup", lambda self, txn_index, result: And(Not(gtxn_none(self)), txn_index < 16,
                                                         Eq(result, gtxn_list(self)[txn_index])))


def _cf(checks_field, x):
    """application of the callable parameter (an uninterpreted pure function symbolically)"""
    if _sym(x):
        from pyvc.values import to_term
        return VBool(checks_field.fn(to_term(x, CTX)))
    return checks_field(x)


c = contract(D + "utils.py::validated_in_block",
             params={"block": T.Ref("BasicBlock"), "function": T.Ref("Function"), "checks_field": CF,
                     "absolute_index": T.Opt(T.Int)},
             returns=T.Bool, tags=["C01", "C03", "C13"], raises=[("TealerException", None)])
requires(c, "has_context", lambda function, block: has_ctx(function, block))
requires(c, "wf", lambda function, block: wf_ctx(ctx_of(function, block)))
requires(c, "position", lambda absolute_index: Implies(Not(IsNone(absolute_index)), lambda: AsInt(absolute_index) >= 0))
ensures(c, "exact", lambda block, function, checks_field, absolute_index, result: Iff(result, Or(
    _cf(checks_field, ctx_of(function, block)),
    lambda: If(IsNone(absolute_index),
       lambda: ForallIdx(ctx_of(function, block).group_indices,
                         lambda j, i: _cf(checks_field, gtxn_list(ctx_of(function, block))[i])),
       lambda: _cf(checks_field, gtxn_list(ctx_of(function, block))[AsInt(absolute_index)])))),
    note="validated iff the own-transaction view validates, or the view at the given absolute index does, or (no index given) "
         "the view at every possible own index does")
invariant(c, 1, "i", lambda it, i, function, block, checks_field: And(
    i <= Len(it), ForallIdx(it, lambda j, x: _cf(checks_field, gtxn_list(ctx_of(function, block))[x]), upto=i)),
    label="all_so_far")
must_fail(c, "always_validated", lambda result: result)
must_fail(c, "never_validated", lambda result: Not(result))


# ---- native samples (replay of refuted obligations; cross-validation of the contracts on real objects) -------------------
def _ctx_samples():
    from tealer.teal.context.block_transaction_context import BlockTransactionContext
    from tealer.utils.teal_enums import TealerTransactionType as TT
    allt = list(TT)
    type_sets = [allt, [], [TT.Pay], [TT.Axfer], [TT.ApplUpdateApplication], [TT.ApplDeleteApplication],
                 [t for t in allt if t is not TT.Pay], [t for t in allt if t is not TT.Axfer],
                 [t for t in allt if t is not TT.ApplUpdateApplication], [t for t in allt if t is not TT.ApplDeleteApplication]]
    fees = [(False, 0), (False, 271999), (False, 272000), (False, 272001), (False, 2 ** 64 - 1), (True, 2 ** 64 - 1), (True, 5)]
    sizes = [list(range(1, 17)), list(range(1, 16)), [16], [], [3]]
    k = 0
    for ts in type_sets:
        for anyv in (True, False):
            for unk, fee in fees:
                for tail in (False, True):
                    b = BlockTransactionContext(tail)
                    b.transaction_types = list(ts)
                    for a in ("rekeyto", "closeto", "assetcloseto", "sender"):
                        getattr(b, a).any_addr = anyv if (k + hash(a)) % 3 else not anyv
                    b.max_fee, b.max_fee_unknown = fee, unk
                    if not tail:
                        b.group_sizes = list(sizes[k % len(sizes)])
                    k += 1
                    yield b


def _closure_samples():
    for b in _ctx_samples():
        yield {"block_ctx": b}


def _closures():
    from pyvc.dsl import REGISTRY
    from pyvc.loader import lookup, materialize
    return [materialize(lookup(t)) for t in REGISTRY if t.startswith(D) and ("::checks_field" in t or "::checks_group_size" in t)]


def _vib_samples():
    from tealer.teal.context.block_transaction_context import BlockTransactionContext
    from tealer.teal.functions import Function
    from tealer.teal.basic_blocks import BasicBlock
    pool = list(_ctx_samples())
    tails = [b for b in pool if b.is_gtxn_context]
    k = 0
    for cf in _closures() + [lambda x: True, lambda x: False]:
        for own in [b for b in pool if not b.is_gtxn_context][::9]:
            for idxs in ([], [0], [1, 3], list(range(16)), [15]):
                for absidx in (None, 0, 3, 15, 16):
                    own.group_indices = list(idxs)
                    own._gtxn_at_index_context = [tails[(k + 7 * j) % len(tails)] for j in range(16)]
                    k += 1
                    blk = BasicBlock()
                    f = Function.__new__(Function)
                    f._transaction_contexts = {blk: own}
                    yield {"block": blk, "function": f, "checks_field": cf, "absolute_index": absidx}


def _attach_samples():
    from pyvc.dsl import REGISTRY
    for t, c_ in REGISTRY.items():
        if t.startswith(D) and ("::checks_field" in t or "::checks_group_size" in t):
            c_.samples = _closure_samples
    REGISTRY[D + "utils.py::validated_in_block"].samples = _vib_samples


_attach_samples()


# ---- group-size-check: which blocks read another transaction by absolute index -------------------------------------------------
import z3                                                   # noqa: E402
from pyvc.values import VRef, fresh_name                     # noqa: E402
from pyvc.execbase import TYPEOF                             # noqa: E402
import contracts.helpers  # noqa: F401,E402
INS = T.Ref("Instruction")
SVOF_ = None


def _svof():
    from contracts.engine import SVOF
    return SVOF


c = contract("tealer/analyses/utils/stack_ast_builder.py::construct_stack_ast", params={"bb": T.Ref("BasicBlock")},
             returns=T.Dict(INS, T.Ref("KnownStackValue")), trusted=True, tags=["C11"],
             trusted_reason="the stack AST of a block is faithful (C11: stack-effect table contracts + bounded stackcheck); naming: "
                            "the node of instruction ins is SVOF(ins), the same node get_stack_value_for_ins returns")


def _ast_map(bb, result):
    ctx = current()
    K = ctx.ex.ct.cls("BasicBlock")
    ins, _ = ctx.ex.read_field(bb, K, "_instructions", ctx.st)
    j = z3.Int(fresh_name("aj"))
    it = ctx.ex.list_get(ins, j, ctx.st).term
    n = ctx.ex.list_len(ins, ctx.st).term
    return VBool(z3.ForAll([j], z3.Implies(z3.And(j >= 0, j < n), z3.And(
        z3.Select(ctx.ex.dict_dom(result, ctx.st), it), z3.Select(ctx.ex.dict_map(result, ctx.st), it) == _svof()(it)))))


ensures(c, "name", lambda bb, result: _ast_map(bb, result), naming=True)
ensures(c, "index_operand", lambda bb, result: VBool(z3.BoolVal(True)))


def _cls_in(term, names):
    ct = current().ex.ct
    return z3.Or([z3.And(TYPEOF(term) >= ct.lo[ct.cls(n)], TYPEOF(term) < ct.hi[ct.cls(n)]) for n in names])


IMM = ["Gtxn", "Gtxna", "Gtxnas"]
STK = ["Gtxns", "Gtxnsa", "Gtxnsas"]


def _stack_read_of_literal(ins_term):
    """a stack-indexed group read whose index operand is produced by a literal-pushing instruction (whatever its value)"""
    ctx = current()
    K = ctx.ex.ct.cls("KnownStackValue")
    args, _ = ctx.ex.read_field(VRef(_svof()(ins_term), K, ctx.ex), K, "_args", ctx.st)
    a0 = ctx.ex.list_get(args, 0, ctx.st)
    known = IsInstance(a0, "KnownStackValue").term
    kref = next(v for _, v in a0.alts if v.cls is K)
    pusher, _ = ctx.ex.read_field(kref, K, "_ins", ctx.st)
    return z3.And(_cls_in(ins_term, STK), known, _cls_in(pusher.term, ["Int", "PushInt", "IntcInstruction"]))


def _abs_read(bb, upto=None, what="both"):
    ctx = current()
    K = ctx.ex.ct.cls("BasicBlock")
    ins, _ = ctx.ex.read_field(bb, K, "_instructions", ctx.st)
    j = z3.Int(fresh_name("rj"))
    it = ctx.ex.list_get(ins, j, ctx.st).term
    n = ctx.ex.list_len(ins, ctx.st).term if upto is None else upto
    body = {"imm": _cls_in(it, IMM), "stk": _stack_read_of_literal(it)}
    cond = z3.Or(body["imm"], body["stk"]) if what == "both" else body[what]
    return z3.Exists([j], z3.And(j >= 0, j < n, cond))


c = contract(D + "groupsize.py::MissingGroupSize._accessed_using_absolute_index", params={"bb": T.Ref("BasicBlock")}, returns=T.Bool,
             ghost={"v": T.Abs("Visit")}, tags=["C01", "C03"], touch=["bb"], raises=[("TealerException", None)])
c.timeout_factor = 6.0
requires(c, "operands", lambda bb: VBool(_operands_ok(bb)))
ensures(c, "exact", lambda bb, result: Iff(result, VBool(_abs_read(bb))),
        note="true iff the block holds gtxn / gtxna / gtxnas, or gtxns / gtxnsa / gtxnsas whose index operand is pushed by int, "
             "pushint or intc* -- whatever the pushed value (0 included) and whether or not tealer can resolve it")


def _operands_ok(bb):
    """C11 for the instructions concerned: the node of a stack-indexed group read has at least one operand"""
    ctx = current()
    KS = ctx.ex.ct.cls("KnownStackValue")
    x = z3.Int(fresh_name("ox"))
    args, _ = ctx.ex.read_field(VRef(_svof()(x), KS, ctx.ex), KS, "_args", ctx.st)
    return z3.ForAll([x], z3.Implies(_cls_in(x, STK), ctx.ex.list_len(args, ctx.st).term >= 1), patterns=[_svof()(x)])


def _collected(bb, lst, upto):
    """stack_gtxns_ins holds exactly the stack-indexed group reads among the first `upto` instructions"""
    ctx = current()
    K = ctx.ex.ct.cls("BasicBlock")
    ins, _ = ctx.ex.read_field(bb, K, "_instructions", ctx.st)
    j, k = z3.Int(fresh_name("cj")), z3.Int(fresh_name("ck"))
    it = ctx.ex.list_get(ins, j, ctx.st).term
    el = ctx.ex.list_get(lst, k, ctx.st).term
    nl = ctx.ex.list_len(lst, ctx.st).term
    return z3.And(
        z3.ForAll([k], z3.Implies(z3.And(k >= 0, k < nl), z3.And(_cls_in(el, STK), z3.Exists([j], z3.And(j >= 0, j < upto, it == el)))),
                  patterns=[el]),
        z3.ForAll([j], z3.Implies(z3.And(j >= 0, j < upto, _cls_in(it, STK)), z3.Exists([k], z3.And(k >= 0, k < nl, el == it))),
                  patterns=[it]))


invariant(c, 1, "ins", lambda it, i, bb, stack_gtxns_ins: And(
    i <= Len(it), Not(VBool(_abs_read(bb, upto=i.term, what="imm"))), VBool(_collected(bb, stack_gtxns_ins, i.term))), label="scan")
invariant(c, 2, "ins", lambda it, i, bb: And(
    i <= Len(it), VBool(z3.ForAll([z3.Int("sk")], z3.Implies(z3.And(z3.Int("sk") >= 0, z3.Int("sk") < i.term), z3.Not(
        _stack_read_of_literal(current().ex.list_get(it, z3.Int("sk"), current().st).term)))))), label="none_so_far")
must_fail(c, "always", lambda result: result)
must_fail(c, "never", lambda result: Not(result))


# ---- group mode (C13): what a contract checks on its own / another transaction, over its leaf blocks ---------------------------
import contracts.engine as _eng   # noqa: E402  (leaf_block_global, LEAF)
FIELD_TYPES[("BlockTransactionContext", "_abs_context")] = T.Opt(T.List(CTX))
FIELD_TYPES[("BlockTransactionContext", "_relative_context")] = T.Opt(T.Dict(T.Int, CTX))


def abs_none(c_):
    return IsNone(c_._abs_context) if _sym(c_) else c_._abs_context is None


def abs_list(c_):
    if _sym(c_):
        from pyvc.values import VList, VUnion
        u = c_._abs_context
        return next(v for _, v in u.alts if isinstance(v, VList)) if isinstance(u, VUnion) else u
    return c_._abs_context


def rel_none(c_):
    return IsNone(c_._relative_context) if _sym(c_) else c_._relative_context is None


def rel_dict(c_):
    if _sym(c_):
        from pyvc.values import VDict, VUnion
        u = c_._relative_context
        return next(v for _, v in u.alts if isinstance(v, VDict)) if isinstance(u, VUnion) else u
    return c_._relative_context


def rel_get(c_, offset):
    d = rel_dict(c_)
    if _sym(c_):
        ctx = current()
        v, st2 = ctx.ex.dict_read(d, offset, ctx.st)
        return v
    return d[offset]


AC = "tealer/teal/context/block_transaction_context.py::BlockTransactionContext.absolute_context"
c = contract(AC, params={"self": CTX, "txn_index": T.Int}, returns=CTX, tags=["C10", "C13"],
             raises=[("TealerException", lambda self, txn_index: Or(abs_none(self), txn_index >= 16))])
requires(c, "position", lambda txn_index: txn_index >= 0)
requires(c, "wf", lambda self: Or(abs_none(self), Eq(Len(abs_list(self)), 16)))
ensures(c, "lookup", lambda self, txn_index, result: And(Not(abs_none(self)), txn_index < 16, Eq(result, abs_list(self)[txn_index])))
RC = "tealer/teal/context/block_transaction_context.py::BlockTransactionContext.relative_context"
c = contract(RC, params={"self": CTX, "offset": T.Int}, returns=CTX, tags=["C10", "C13"],
             raises=[("TealerException", lambda self, offset: Or(rel_none(self), Not(In(offset, rel_dict(self)))))])
ensures(c, "lookup", lambda self, offset, result: And(Not(rel_none(self)), In(offset, rel_dict(self)), Eq(result, rel_get(self, offset))))


def _leaf(block):
    return VBool(_eng.LEAF(block.term)) if _sym(block) else __import__("tealer.utils.analyses", fromlist=["x"]).leaf_block_global(block)


def _blocks(function):
    return function._blocks


def _all_leaf_blocks(function, fn):
    """forall blocks b of the function that are leaves of the global graph: fn(b)"""
    return ForallIdx(_blocks(function), lambda j, b: Implies(_leaf(b), lambda: fn(b)))


def _vib_exact(block, function, checks_field, absolute_index):
    """validated_in_block's exact clause, as a term about `block`"""
    return Or(_cf(checks_field, ctx_of(function, block)),
              lambda: If(IsNone(absolute_index),
                         lambda: ForallIdx(ctx_of(function, block).group_indices,
                                           lambda j, i: _cf(checks_field, gtxn_list(ctx_of(function, block))[i])),
                         lambda: _cf(checks_field, gtxn_list(ctx_of(function, block))[AsInt(absolute_index)])))


def _fn_wf(function, need):
    """every block of the function has a context, and every stored context has the representation invariant the callee needs"""
    if _sym(function):
        ctx = current()
        bt = z3.Int(fresh_name("wb"))
        b = VRef(bt, ctx.ex.ct.cls("BasicBlock"), ctx.ex)
        d = function._transaction_contexts
        sel = z3.Select(ctx.ex.dict_map(d, ctx.st), bt)
        nd = need(ctx_of(function, b))
        body = z3.Implies(z3.Select(ctx.ex.dict_dom(d, ctx.st), bt), nd.term if isinstance(nd, V) else z3.BoolVal(bool(nd)))
        return And(ForallIdx(_blocks(function), lambda j, b_: has_ctx(function, b_)),
                   VBool(z3.ForAll([bt], body, patterns=[sel])))
    return all(b in function._transaction_contexts and need(function._transaction_contexts[b]) for b in function._blocks)


c = contract(D + "utils.py::contract_checks_its_field",
             params={"function": T.Ref("Function"), "checks_field": CF, "absolute_index": T.Opt(T.Int)}, returns=T.Bool,
             tags=["C13", "C01"], raises=[("TealerException", None)])
c.seq_filter = True
requires(c, "contexts", lambda function: _fn_wf(function, wf_ctx))
requires(c, "position", lambda absolute_index: Implies(Not(IsNone(absolute_index)), lambda: AsInt(absolute_index) >= 0))
ensures(c, "all_leaves_validate", lambda function, checks_field, absolute_index, result: Iff(result, _all_leaf_blocks(
    function, lambda b: _vib_exact(b, function, checks_field, absolute_index))),
    note="true iff every leaf block of the global graph validates the field (own view, or the view at the given / at every possible own index)")
invariant(c, 1, "block", lambda it, i, function, checks_field, absolute_index: And(
    i <= Len(it), ForallIdx(it, lambda j, b: _vib_exact(b, function, checks_field, absolute_index), upto=i)), label="validated_so_far")

c = contract(D + "utils.py::contract_checks_txn_at_absolute_index",
             params={"function": T.Ref("Function"), "checks_field": CF, "absolute_index": T.Int}, returns=T.Bool,
             tags=["C13"], raises=[("TealerException", None)])
c.seq_filter = True
requires(c, "contexts", lambda function: _fn_wf(function, lambda x: Or(abs_none(x), Eq(Len(abs_list(x)), 16))))
requires(c, "position", lambda absolute_index: absolute_index >= 0)
ensures(c, "all_leaves_check_it", lambda function, checks_field, absolute_index, result: Iff(result, _all_leaf_blocks(
    function, lambda b: _cf(checks_field, abs_list(ctx_of(function, b))[absolute_index]))),
    note="true iff at every leaf block the information about the transaction at that absolute index validates the field")
invariant(c, 1, "block", lambda it, i, function, checks_field, absolute_index: And(
    i <= Len(it), ForallIdx(it, lambda j, b: _cf(checks_field, abs_list(ctx_of(function, b))[absolute_index]), upto=i)), label="checked_so_far")

c = contract(D + "utils.py::contract_checks_using_relative_index",
             params={"function": T.Ref("Function"), "checks_field": CF, "offset": T.Int}, returns=T.Bool,
             tags=["C13"], raises=[("TealerException", None)])
c.seq_filter = True
requires(c, "contexts", lambda function: _fn_wf(function, lambda x: True))
ensures(c, "all_leaves_check_it", lambda function, checks_field, offset, result: Iff(result, _all_leaf_blocks(
    function, lambda b: _cf(checks_field, rel_get(ctx_of(function, b), offset)))),
    note="true iff at every leaf block the information about the transaction at that offset validates the field")
invariant(c, 1, "block", lambda it, i, function, checks_field, offset: And(
    i <= Len(it), ForallIdx(it, lambda j, b: _cf(checks_field, rel_get(ctx_of(function, b), offset)), upto=i)), label="checked_so_far")



def _canaries():
    from pyvc.dsl import REGISTRY
    for _t in ("contract_checks_its_field", "contract_checks_txn_at_absolute_index", "contract_checks_using_relative_index"):
        _c = REGISTRY[D + "utils.py::" + _t]
        must_fail(_c, "always", lambda result: result)
        must_fail(_c, "never", lambda result: Not(result))


_canaries()
