"""Contracts for tealer/analyses/dataflow/transaction_context/int_fields.py (DESIGN.md §6.6; C06, C01, C03, C14)."""
from pyvc.dsl import (contract, requires, ensures, must_fail, And, Or, Not, Implies, If, Iff, Eq, forall, exists,
                      IsInstance, In, Count)
from pyvc.values import T
from spec.avm_axioms import ev, gsize, gidx
from spec.ghost import has_int_lit, int_lit
import contracts.helpers  # noqa: F401
from contracts.fee_field import cmp_sem, SIXOPS, _known_ins, _arg

F = "tealer/analyses/dataflow/transaction_context/int_fields.py::GroupIndices."
R16 = list(range(0, 18))

# ---- _get_asserted_int_values -----------------------------------------------------------------------------------
c = contract(F + "_get_asserted_int_values",
             params={"comparison_ins": T.Ref("Instruction"), "compared_int": T.Int,
                     "universal_set": T.List(T.Int, "bag")},
             returns=T.List(T.Int, "bag"), tags=["C06", "C01", "C03", "C14"])
requires(c, "nodup", lambda universal_set: forall(T.Int, lambda i: Count(universal_set, i) <= 1, sample=R16))
ensures(c, "members", lambda comparison_ins, compared_int, universal_set, result, old:
        forall(T.Int, lambda i: Implies(In(i, universal_set),
                                        Iff(In(i, result), cmp_sem(comparison_ins, i, compared_int))), sample=R16))
must_fail(c, "canary", lambda comparison_ins, compared_int, universal_set, result:
          forall(T.Int, lambda i: Implies(In(i, universal_set),
                                          Iff(In(i, result), cmp_sem(comparison_ins, compared_int, i))), sample=R16))


def _direct(sv, pos, gcls, fcls):
    a0, a1 = _arg(sv, 0), _arg(sv, 1)
    fa, ca = (a0, a1) if pos == 0 else (a1, a0)
    fi_, ci_ = _known_ins(fa), _known_ins(ca)
    return And(IsInstance(sv.instruction, SIXOPS), IsInstance(a0, "KnownStackValue"), IsInstance(a1, "KnownStackValue"),
               IsInstance(fi_, gcls), _fld_is(fi_, fcls), has_int_lit(ci_)), int_lit(ci_)


def _fld_is(ins, fcls):
    from pyvc.values import V
    f = getattr(ins, "field", None) if not isinstance(ins, V) else None
    if not isinstance(ins, V):
        return f is not None and type(f).__name__ == fcls
    # symbolic: read the field of Txn/Global through the executor
    from pyvc.dsl import current
    from pyvc.loader import class_table
    from pyvc.values import VRef
    ex, st = current().ex, current().st
    C = class_table().cls("Global" if fcls == "GroupSize" else "Txn")
    fv, st2 = ex.read_field(VRef(ins.term, C, ex), C, "_field", st)
    st.pc[:] = st2.pc
    return IsInstance(fv, fcls)


def _mk(name, gcls, fcls, value_of, lo, hi):
    c = contract(F + name, params={"self": T.Ref("GroupIndices"), "ins_stack_value": T.Ref("KnownStackValue")},
                 returns=T.Tuple(T.Set(T.Int), T.Set(T.Int)), ghost={"v": T.Abs("Visit")}, touch=["ins_stack_value"],
                 tags=["C06", "C01", "C03"])
    # D1: `c OP field` with an order comparison is read as `field OP c` (pinned by tests/transaction_context/
    # test_group_indices.py[test4], hence a listed finding and not a fix)
    d1 = {"D1": lambda ins_stack_value: And(_direct(ins_stack_value, 1, gcls, fcls)[0],
                                            IsInstance(ins_stack_value.instruction, ("Less", "LessE", "Greater", "GreaterE")))}
    ensures(c, "true_sound", lambda ins_stack_value, result, v:
            Implies(ev(v, ins_stack_value) != 0, In(value_of(v), result[0])), tags=["C06", "C01"], known=d1)
    ensures(c, "false_sound", lambda ins_stack_value, result, v:
            Implies(ev(v, ins_stack_value) == 0, In(value_of(v), result[1])), tags=["C06", "C01"], known=d1)
    ensures(c, "within_universe", lambda result: forall(T.Int, lambda i:
            Implies(In(i, result[1]), And(i >= lo, i <= hi)), sample=list(range(-1, 20))), tags=["C06"])
    def mk_exact(pos):
        def exact(ins_stack_value, result):
            d, cval = _direct(ins_stack_value, pos, gcls, fcls)
            sem = (lambda i: cmp_sem(ins_stack_value.instruction, i, cval)) if pos == 0 else \
                  (lambda i: cmp_sem(ins_stack_value.instruction, cval, i))
            other = _direct(ins_stack_value, 1 - pos, gcls, fcls)[0] if pos == 1 else False
            return Implies(And(d, Not(other)), forall(T.Int, lambda i: Implies(And(i >= lo, i <= hi),
                           And(Iff(In(i, result[0]), sem(i)), Iff(In(i, result[1]), Not(sem(i))))),
                           sample=list(range(lo, hi + 1))))
        return exact
    ensures(c, "exact_field_left", mk_exact(0), tags=["C06", "C03"])
    ensures(c, "exact_field_right", mk_exact(1), tags=["C06", "C03"], known=d1)
    must_fail(c, "canary", lambda ins_stack_value, result, v:
              Implies(ev(v, ins_stack_value) != 0, In(value_of(v), result[1])))
    from contracts.reify_sv import make_reifier
    c.reify = make_reifier([], "GroupIndices")
    return c


_mk("_get_asserted_groupsizes", "Global", "GroupSize", gsize, 1, 16)
_mk("_get_asserted_groupindices", "Txn", "GroupIndex", gidx, 0, 15)
