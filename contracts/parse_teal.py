"""Contracts for tealer/teal/parse_teal.py (DESIGN.md §6.8; C19 version/mode logic; C04/C05 passes follow)."""
from pyvc.dsl import (contract, requires, assumes, ensures, must_fail, invariant, And, Or, Not, Implies, If, Iff, Eq, forall, IsInstance,
                      ForallIdx, ExistsIdx, Len, current)
from pyvc.values import T, V, VBool, VInt, VRef
from pyvc.execbase import TYPEOF
from pyvc.loader import class_table, init_assigned_attrs
import z3

P = "tealer/teal/parse_teal.py::"
FIELD_ROOTS = ("TransactionField", "GlobalField", "AssetHoldingField", "AssetParamsField", "AppParamsField", "AcctParamsField")
FLAGGED = z3.Function("FLAGGED", z3.IntSort(), z3.IntSort(), z3.BoolSort())
MODEOF = z3.Function("MODEOF", z3.IntSort(), z3.IntSort())


def _field_classes():
    """instruction classes that carry a `_field` immediate (their own field array), from the real class table"""
    ct = class_table()
    I = ct.cls("Instruction")
    from pyvc.replay import _DummyTyper
    out = []
    for c in ct.subclasses(I):
        if "_field" in {a for a, k in init_assigned_attrs(c).items() if k is c}:
            try:
                if _DummyTyper().field_type(c, "_field").kind == "ref":   # `block f` keeps its field as plain text
                    out.append(c)
            except Exception:
                pass
    return out


def _defs(program_version, ins_list=None):
    """definition of the ghosts FLAGGED(ins, pv) / MODEOF(ins) for every instruction (quantified; symbolic mode only):
    an instruction is flagged iff its own introduction version, or the introduction version of its field immediate --
    a field of ANY kind: transaction, global, asset holding/params, app params, account params -- exceeds pv."""
    if not isinstance(program_version, V):
        return True
    ctx = current()
    ex, st = ctx.ex, ctx.st
    ct = class_table()
    I = z3.IntSort()
    x = z3.Int("fx")
    ver = z3.Select(st.harr("F:Instruction._version", I, I), x)
    fld = z3.IntVal(0)
    for c in _field_classes():
        lo, hi = ct.lo[c], ct.hi[c]
        fld = z3.If(z3.And(TYPEOF(x) >= lo, TYPEOF(x) < hi), z3.Select(st.harr(f"F:{c.__name__}._field", I, I), x), fld)
    fver = z3.IntVal(0)
    iskind = z3.BoolVal(False)
    for r in FIELD_ROOTS:
        R = ct.cls(r)
        inr = z3.And(TYPEOF(fld) >= ct.lo[R], TYPEOF(fld) < ct.hi[R])
        fver = z3.If(inr, z3.Select(st.harr(f"F:{r}._version", I, I), fld), fver)
        iskind = z3.Or(iskind, inr)
    pv = program_version.term
    st.pc.append(z3.ForAll([x], FLAGGED(x, pv) == z3.Or(pv < ver, z3.And(fld != 0, iskind, pv < fver)), patterns=[FLAGGED(x, pv)]))
    st.pc.append(z3.ForAll([x], MODEOF(x) == z3.Select(st.harr("F:Instruction._mode", I, I), x), patterns=[MODEOF(x)]))
    return True


def flagged(x, pv):
    return VBool(FLAGGED(x.term if isinstance(x, V) else x, pv.term))


def mode_is(x, name):
    from tealer.utils.teal_enums import ExecutionMode
    return VBool(MODEOF(x.term) == getattr(ExecutionMode, name).value)


c = contract(P + "_verify_version", params={"ins_list": T.List(T.Ref("Instruction")), "program_version": T.Int}, returns=T.Bool,
             tags=["C19"])
assumes(c, "defs", lambda ins_list, program_version: _defs(program_version))
requires(c, "version_range", lambda program_version: And(program_version >= 1, program_version <= 8))
ensures(c, "flag_iff", lambda ins_list, program_version, result:
        Iff(result, Or(ExistsIdx(ins_list, lambda j, x: flagged(x, program_version)),
                       And(ExistsIdx(ins_list, lambda j, x: mode_is(x, "STATEFUL")),
                           ExistsIdx(ins_list, lambda j, x: mode_is(x, "STATELESS"))))),
        note="flags exactly the instructions/fields introduced after the declared version, and mixed-mode programs")
must_fail(c, "canary", lambda ins_list, program_version, result: Iff(result, ExistsIdx(ins_list, lambda j, x: flagged(x, program_version))))
invariant(c, 1, "ins", lambda it, i, program_version, error, stateful_ins, stateless_ins: And(
    i <= Len(it),
    Iff(error, ExistsIdx(it, lambda j, x: flagged(x, program_version), upto=i)),
    Iff(Len(stateful_ins) > 0, ExistsIdx(it, lambda j, x: mode_is(x, "STATEFUL"), upto=i)),
    Iff(Len(stateless_ins) > 0, ExistsIdx(it, lambda j, x: mode_is(x, "STATELESS"), upto=i)),
    Len(stateful_ins) >= 0, Len(stateless_ins) >= 0), label="scan")
