"""Contracts for generic.py -- the dataflow engine, verified once against the abstract-domain interface
(DESIGN.md §6.5; C01, C03, C06-C10).

Abstract-domain interface D = (AbsVal, gamma):  GAMMA(key, a, c) "concrete value c is admitted by abstract value a";
CONC(v, key) "the concrete value of the attribute tracked by `key` in visit v" (the fee / address / size / (type, on-completion)
pair ... of tgt(key)).  The four domains refine this interface (contracts/{fee_field,int_fields,txn_types,addr_fields}.py
prove the same clauses with GAMMA := in_gamma_fee etc., CONC := KEYFLD ...); the refinement mapping is listed in DESIGN §6.6.
"""
from pyvc.dsl import (contract, requires, ensures, must_fail, invariant, And, Or, Not, Implies, If, Iff, Eq, forall, IsInstance,
                      ForallIdx, ExistsIdx, Len, current)
from pyvc.values import T, V, VBool, VInt, abs_sort, _s
from spec.avm_axioms import ev
from spec.ghost import keydef
import contracts.stack_ast  # noqa: F401
from contracts.stack_ast import nz, nzq
import z3

G = "tealer/analyses/dataflow/transaction_context/generic.py::DataflowTransactionContext."
A = T.Abs("AbsVal")
VISIT = T.Abs("Visit")
SELF = T.Ref("DataflowTransactionContext")
AbsVal = abs_sort("AbsVal")
Visit = abs_sort("Visit")
GAMMA = z3.Function("GAMMA", z3.StringSort(), AbsVal, z3.IntSort(), z3.BoolSort())
CONC = z3.Function("CONC", Visit, z3.StringSort(), z3.IntSort())
IFACE = "abstract-domain interface clause: discharged per domain by the refinement contracts (DESIGN §6.6)"


def gamma(key, a, c):
    return VBool(GAMMA(_s(key), a.term, c.term if isinstance(c, V) else z3.IntVal(c)))


def conc(v, key):
    return VInt(CONC(v.term, _s(key)))


def admits(key, a, v):
    """gamma(a) contains the concrete value of key's attribute in visit v"""
    return gamma(key, a, conc(v, key))


c = contract(G + "_universal_set", params={"self": SELF, "key": T.Str}, returns=A, trusted=True, trusted_reason=IFACE,
             tags=["C01", "C06"])
ensures(c, "top", lambda key, result: forall(T.Int, lambda x: gamma(key, result, x)))
c = contract(G + "_null_set", params={"self": SELF, "key": T.Str}, returns=A, trusted=True, trusted_reason=IFACE, tags=["C01", "C06"])
ensures(c, "bottom", lambda key, result: forall(A, lambda a: forall(T.Int, lambda x:
        Implies(gamma(key, result, x), gamma(key, a, x)))))
c = contract(G + "_union", params={"self": SELF, "key": T.Str, "a": A, "b": A}, returns=A, trusted=True, trusted_reason=IFACE,
             tags=["C01", "C06"])
ensures(c, "gamma_union", lambda key, a, b, result: forall(T.Int, lambda x:
        Iff(gamma(key, result, x), Or(gamma(key, a, x), gamma(key, b, x)))))
c = contract(G + "_intersection", params={"self": SELF, "key": T.Str, "a": A, "b": A}, returns=A, trusted=True,
             trusted_reason=IFACE, tags=["C01", "C06"])
ensures(c, "gamma_inter", lambda key, a, b, result: forall(T.Int, lambda x:
        Iff(gamma(key, result, x), And(gamma(key, a, x), gamma(key, b, x)))))


def sound_pair(key, sv, result, v):
    return And(Implies(And(keydef(v, key), nz(v, sv)), admits(key, result[0], v)),
               Implies(And(keydef(v, key), Not(nz(v, sv))), admits(key, result[1], v)))


c = contract(G + "_get_asserted_single", params={"self": SELF, "key": T.Str, "ins_stack_value": T.Ref("KnownStackValue")},
             returns=T.Tuple(A, A), ghost={"v": VISIT}, trusted=True, trusted_reason=IFACE, tags=["C01", "C06"])
ensures(c, "sound", lambda key, ins_stack_value, result, v: sound_pair(key, ins_stack_value, result, v))

# ---- _get_asserted -----------------------------------------------------------------------------------------------------------
c = contract(G + "_get_asserted", params={"self": SELF, "key": T.Str, "ins_stack_value": T.Ref("KnownStackValue")},
             returns=T.Tuple(A, A), ghost={"v": VISIT}, touch=["ins_stack_value"],
             tags=["C01", "C03", "C06", "C07", "C08", "C09", "C10"])
ensures(c, "sound", lambda key, ins_stack_value, result, v: sound_pair(key, ins_stack_value, result, v))
must_fail(c, "canary", lambda key, ins_stack_value, result, v:
          Implies(And(keydef(v, key), nz(v, ins_stack_value)), admits(key, result[1], v)))
# loop 1: the And case;  loop 2: the Or case
invariant(c, 1, "equation", lambda it, i, key, final_true_values, final_false_values, v: And(
    i <= Len(it),
    Implies(And(keydef(v, key), ForallIdx(it, lambda j, x: nzq(v, x), upto=i)), admits(key, final_true_values, v)),
    Implies(And(keydef(v, key), ExistsIdx(it, lambda j, x: Not(nzq(v, x)), upto=i)), admits(key, final_false_values, v))),
    label="and_acc")
invariant(c, 2, "equation", lambda it, i, key, final_true_values, final_false_values, v: And(
    i <= Len(it),
    Implies(And(keydef(v, key), ExistsIdx(it, lambda j, x: nzq(v, x), upto=i)), admits(key, final_true_values, v)),
    Implies(And(keydef(v, key), ForallIdx(it, lambda j, x: Not(nzq(v, x)), upto=i)), admits(key, final_false_values, v))),
    label="or_acc")


# ---- exact boolean structure of _get_asserted (C02 exclusion clause, C03): the result of a conjunction / disjunction / negation
# is exactly the combination of the results of its operands ------------------------------------------------------------------
from pyvc.values import fresh_name, VRef, VList   # noqa: E402
from pyvc.dsl import REGISTRY                      # noqa: E402
NULLV = z3.Function("NULLV", z3.StringSort(), AbsVal)
GA_T = z3.Function("GA_T", z3.StringSort(), z3.IntSort(), AbsVal)      # names of _get_asserted(key, node)[0] / [1]
GA_F = z3.Function("GA_F", z3.StringSort(), z3.IntSort(), AbsVal)
CE_LEN = z3.Function("CE_LEN", z3.IntSort(), z3.IntSort(), z3.IntSort())          # compute_equations(node, cls): the list ...
CE_AT = z3.Function("CE_AT", z3.IntSort(), z3.IntSort(), z3.IntSort(), z3.IntSort())
CE_UNK = z3.Function("CE_UNK", z3.IntSort(), z3.IntSort(), z3.BoolSort())         # ... and the unknown-operand flag
PURE = ("naming clause: the function is deterministic in (key, stack-value node); the stack AST is immutable once built")
ensures(REGISTRY[G + "_null_set"], "name", lambda key, result: VBool(result.term == NULLV(_s(key))), naming=True)


def _cls_id(node_ins):
    from pyvc.values import to_term, TCls
    return to_term(node_ins, TCls(object))


def _ce_named(root, node_ins, result):
    ctx = current()
    lst, flag = result[0], result[1]
    n = ctx.ex.list_len(lst, ctx.st).term
    j = z3.Int(fresh_name("cj"))
    r, cid = root.term, _cls_id(node_ins)
    el = ctx.ex.list_get(lst, j, ctx.st).term
    body = z3.Implies(z3.And(j >= 0, j < n), el == CE_AT(r, cid, j))
    try:
        q = z3.ForAll([j], body, patterns=[CE_AT(r, cid, j)])
    except z3.Z3Exception:
        q = z3.ForAll([j], body)
    return VBool(z3.And(n == CE_LEN(r, cid), n >= 0, q, flag.term == CE_UNK(r, cid)))


ensures(REGISTRY["tealer/analyses/utils/stack_ast_builder.py::compute_equations"], "name",
        lambda root, node_ins, result: _ce_named(root, node_ins, result), naming=True)
ensures(REGISTRY[G + "_get_asserted_single"], "name", lambda key, ins_stack_value, result: VBool(z3.And(
    result[0].term == GA_T(_s(key), ins_stack_value.term), result[1].term == GA_F(_s(key), ins_stack_value.term))), naming=True)
GAC = REGISTRY[G + "_get_asserted"]
ensures(GAC, "name", lambda key, ins_stack_value, result: VBool(z3.And(
    result[0].term == GA_T(_s(key), ins_stack_value.term), result[1].term == GA_F(_s(key), ins_stack_value.term))), naming=True)


def _cls_of(name):
    from pyvc.loader import class_table
    ct = class_table()
    return ct.lo[ct.cls(name)]


def _g(key, a, x):
    return GAMMA(_s(key), a, x)


def _comb(key, sv, cls_name, which, upto=None, conj=True):
    """x in every (conj) / some (not conj) gamma of the named results of the operands of the And/Or node sv"""
    r, cid = sv.term, z3.IntVal(_cls_of(cls_name))
    x = z3.Int(fresh_name("bx"))
    j = z3.Int(fresh_name("bj"))
    n = CE_LEN(r, cid) if upto is None else upto
    gj = _g(key, which(_s(key), CE_AT(r, cid, j)), x)
    return x, (z3.ForAll([j], z3.Implies(z3.And(j >= 0, j < n), gj)) if conj else z3.Exists([j], z3.And(j >= 0, j < n, gj)))


def _and_exact(key, sv, result):
    cid = z3.IntVal(_cls_of("And"))
    unk = CE_UNK(sv.term, cid)
    x, allt = _comb(key, sv, "And", GA_T, conj=True)
    x2, somef = _comb(key, sv, "And", GA_F, conj=False)
    return z3.And(z3.ForAll([x], _g(key, result[0].term, x) == allt),
                  z3.Implies(unk, z3.ForAll([x2], _g(key, result[1].term, x2))),
                  z3.Implies(z3.Not(unk), z3.ForAll([x2], _g(key, result[1].term, x2) == z3.Or(_g(key, NULLV(_s(key)), x2), somef))))


def _or_exact(key, sv, result):
    cid = z3.IntVal(_cls_of("Or"))
    unk = CE_UNK(sv.term, cid)
    x, allf = _comb(key, sv, "Or", GA_F, conj=True)
    x2, somet = _comb(key, sv, "Or", GA_T, conj=False)
    return z3.And(z3.ForAll([x], _g(key, result[1].term, x) == allf),
                  z3.Implies(unk, z3.ForAll([x2], _g(key, result[0].term, x2))),
                  z3.Implies(z3.Not(unk), z3.ForAll([x2], _g(key, result[0].term, x2) == z3.Or(_g(key, NULLV(_s(key)), x2), somet))))


def _ins_of(sv):
    ctx = current()
    K = ctx.ex.ct.cls("KnownStackValue")
    ins, _ = ctx.ex.read_field(VRef(sv.term, K, ctx.ex), K, "_ins", ctx.st)
    return ins


ensures(GAC, "and_exact", lambda key, ins_stack_value, result: Implies(IsInstance(_ins_of(ins_stack_value), "And"),
                                                                      lambda: VBool(_and_exact(key, ins_stack_value, result))),
        note="a conjunction: the true set is exactly the intersection of the operands' true sets; the false set is the union of their "
             "false sets (with the null set), or everything if an operand is unknown", tags=["C02", "C03", "C01"])
ensures(GAC, "or_exact", lambda key, ins_stack_value, result: Implies(IsInstance(_ins_of(ins_stack_value), "Or"),
                                                                     lambda: VBool(_or_exact(key, ins_stack_value, result))),
        note="a disjunction: dually", tags=["C02", "C03", "C01"])
invariant(GAC, 1, "equation", lambda it, i, key, ins_stack_value, final_true_values, final_false_values: VBool(z3.And(
    (lambda p: z3.ForAll([p[0]], _g(key, final_true_values.term, p[0]) == p[1]))(_comb(key, ins_stack_value, "And", GA_T, upto=i.term, conj=True)),
    (lambda p: z3.ForAll([p[0]], _g(key, final_false_values.term, p[0]) == z3.Or(_g(key, NULLV(_s(key)), p[0]), p[1])))(
        _comb(key, ins_stack_value, "And", GA_F, upto=i.term, conj=False)))), label="and_exact_acc", tags=["C02", "C03", "C01"])
invariant(GAC, 2, "equation", lambda it, i, key, ins_stack_value, final_true_values, final_false_values: VBool(z3.And(
    (lambda p: z3.ForAll([p[0]], _g(key, final_false_values.term, p[0]) == p[1]))(_comb(key, ins_stack_value, "Or", GA_F, upto=i.term, conj=True)),
    (lambda p: z3.ForAll([p[0]], _g(key, final_true_values.term, p[0]) == z3.Or(_g(key, NULLV(_s(key)), p[0]), p[1])))(
        _comb(key, ins_stack_value, "Or", GA_T, upto=i.term, conj=False)))), label="or_exact_acc", tags=["C02", "C03", "C01"])
