"""Contracts for generic.py -- the dataflow engine, verified once against the abstract-domain interface
(DESIGN.md §6.5; C01, C03, C06-C10).

Abstract-domain interface D = (AbsVal, gamma):  GAMMA(key, a, c) "concrete value c is admitted by abstract value a";
CONC(v, key) "the concrete value of the attribute tracked by `key` in visit v" (the fee / address / size / (type, on-completion)
pair ... of tgt(key)).  The four domains refine this interface (contracts/{fee_field,int_fields,txn_types,addr_fields}.py
prove the same clauses with GAMMA := in_gamma_fee etc., CONC := KEYFLD ...); the refinement mapping is listed in DESIGN §6.6.
"""
from pyvc.dsl import (contract, requires, ensures, must_fail, invariant, And, Or, Not, Implies, If, Iff, Eq, forall, IsInstance,
                      ForallIdx, ExistsIdx, Len, current)
from pyvc.values import T, V, VBool, VInt, abs_sort, _s
from spec.avm_axioms import ev
from spec.ghost import keydef
import contracts.stack_ast  # noqa: F401
from contracts.stack_ast import nz, nzq
import z3

G = "tealer/analyses/dataflow/transaction_context/generic.py::DataflowTransactionContext."
A = T.Abs("AbsVal")
VISIT = T.Abs("Visit")
SELF = T.Ref("DataflowTransactionContext")
AbsVal = abs_sort("AbsVal")
Visit = abs_sort("Visit")
GAMMA = z3.Function("GAMMA", z3.StringSort(), AbsVal, z3.IntSort(), z3.BoolSort())
CONC = z3.Function("CONC", Visit, z3.StringSort(), z3.IntSort())
IFACE = "abstract-domain interface clause: discharged per domain by the refinement contracts (DESIGN §6.6)"


def gamma(key, a, c):
    return VBool(GAMMA(_s(key), a.term, c.term if isinstance(c, V) else z3.IntVal(c)))


def conc(v, key):
    return VInt(CONC(v.term, _s(key)))


def admits(key, a, v):
    """gamma(a) contains the concrete value of key's attribute in visit v"""
    return gamma(key, a, conc(v, key))


c = contract(G + "_universal_set", params={"self": SELF, "key": T.Str}, returns=A, trusted=True, trusted_reason=IFACE,
             tags=["C01", "C06"])
ensures(c, "top", lambda key, result: forall(T.Int, lambda x: gamma(key, result, x)))
c = contract(G + "_null_set", params={"self": SELF, "key": T.Str}, returns=A, trusted=True, trusted_reason=IFACE, tags=["C01", "C06"])
ensures(c, "bottom", lambda key, result: forall(A, lambda a: forall(T.Int, lambda x:
        Implies(gamma(key, result, x), gamma(key, a, x)))))
c = contract(G + "_union", params={"self": SELF, "key": T.Str, "a": A, "b": A}, returns=A, trusted=True, trusted_reason=IFACE,
             tags=["C01", "C06"])
ensures(c, "gamma_union", lambda key, a, b, result: forall(T.Int, lambda x:
        Iff(gamma(key, result, x), Or(gamma(key, a, x), gamma(key, b, x)))))
c = contract(G + "_intersection", params={"self": SELF, "key": T.Str, "a": A, "b": A}, returns=A, trusted=True,
             trusted_reason=IFACE, tags=["C01", "C06"])
ensures(c, "gamma_inter", lambda key, a, b, result: forall(T.Int, lambda x:
        Iff(gamma(key, result, x), And(gamma(key, a, x), gamma(key, b, x)))))


def sound_pair(key, sv, result, v):
    return And(Implies(And(keydef(v, key), nz(v, sv)), admits(key, result[0], v)),
               Implies(And(keydef(v, key), Not(nz(v, sv))), admits(key, result[1], v)))


c = contract(G + "_get_asserted_single", params={"self": SELF, "key": T.Str, "ins_stack_value": T.Ref("KnownStackValue")},
             returns=T.Tuple(A, A), ghost={"v": VISIT}, trusted=True, trusted_reason=IFACE, tags=["C01", "C06"])
ensures(c, "sound", lambda key, ins_stack_value, result, v: sound_pair(key, ins_stack_value, result, v))

# ---- _get_asserted -----------------------------------------------------------------------------------------------------------
c = contract(G + "_get_asserted", params={"self": SELF, "key": T.Str, "ins_stack_value": T.Ref("KnownStackValue")},
             returns=T.Tuple(A, A), ghost={"v": VISIT}, touch=["ins_stack_value"],
             tags=["C01", "C03", "C06", "C07", "C08", "C09", "C10"])
ensures(c, "sound", lambda key, ins_stack_value, result, v: sound_pair(key, ins_stack_value, result, v))
must_fail(c, "canary", lambda key, ins_stack_value, result, v:
          Implies(And(keydef(v, key), nz(v, ins_stack_value)), admits(key, result[1], v)))
# loop 1: the And case;  loop 2: the Or case
invariant(c, 1, "equation", lambda it, i, key, final_true_values, final_false_values, v: And(
    i <= Len(it),
    Implies(And(keydef(v, key), ForallIdx(it, lambda j, x: nzq(v, x), upto=i)), admits(key, final_true_values, v)),
    Implies(And(keydef(v, key), ExistsIdx(it, lambda j, x: Not(nzq(v, x)), upto=i)), admits(key, final_false_values, v))),
    label="and_acc")
invariant(c, 2, "equation", lambda it, i, key, final_true_values, final_false_values, v: And(
    i <= Len(it),
    Implies(And(keydef(v, key), ExistsIdx(it, lambda j, x: nzq(v, x), upto=i)), admits(key, final_true_values, v)),
    Implies(And(keydef(v, key), ForallIdx(it, lambda j, x: Not(nzq(v, x)), upto=i)), admits(key, final_false_values, v))),
    label="or_acc")
