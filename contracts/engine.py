"""Contracts of the dataflow engine's equations (DESIGN.md §6.5, §12.6; C01, C03, C06-C10).

Each engine function is pinned to its data-flow equation, exactly, in terms of gamma of the abstract-domain interface
(contracts/generic.py):

  _calculate_livein   gamma(result) = gamma(null) U  U_{n in succ_G(b)} gamma(liveout[n]),  intersected with
                      gamma(liveout[return point]) for a call site whose callee has retsub blocks
  _calculate_reachin  gamma(result) = (top if b is the entry else gamma(null)) U  U_{p in pred_G(b)} gamma(reachout[p]) n
                      gamma(path[b][p]) (n gamma(reachout[call site of b]) for a retsub edge into a return point)
  _merge_information_forward / _backward: every analysis key's cell of `block` is replaced by Phi(key) n block_ctx, nothing
                      else changes, and the returned flag says whether *some* key's cell changed

The global control-flow structure is used through named pure observations (succ_G = next_blocks_global etc.): the engine
never writes CFG fields (its frame obligations), so an observation has one value throughout a run.  The naming clauses
are assumptions (listed in the evidence); the structural meaning of the observations is the business of C04/C05.
"""
from pyvc.dsl import (contract, requires, assumes, ensures, must_fail, invariant, And, Or, Not, Implies, If, Iff, Eq, In, forall,
                      IsInstance, IsNone, AsInt, ForallIdx, ExistsIdx, Len, current)
from pyvc.values import T, V, VBool, VInt, VRef, VList, VDict, VUnion, abs_sort, to_term, _s, fresh_name
from pyvc.execbase import FIELD_TYPES, NAMED_PROPS
from contracts.generic import GAMMA, A, SELF, AbsVal, G
import z3

BB = T.Ref("BasicBlock")
FN = T.Ref("Function")
SUB = T.Ref("Subroutine")
U = "tealer/utils/analyses.py::"
B_ = "tealer/teal/basic_blocks.py::BasicBlock."
NAMING = ("naming clause: the observation is a deterministic function of its arguments over the CFG, which the engine does "
          "not modify (frame obligations of the engine functions)")

FIELD_TYPES[("DataflowTransactionContext", "_block_contexts")] = T.Dict(T.Str, T.Dict(BB, A), default=True)
FIELD_TYPES[("DataflowTransactionContext", "_path_contexts")] = T.Dict(T.Str, T.Dict(BB, T.Dict(BB, A)), default=True)

# ---- named observations of the CFG ------------------------------------------------------------------------------------
NAMED_PROPS[("BasicBlock", "is_callsub_block")] = T.Bool
NAMED_PROPS[("BasicBlock", "is_retsub_block")] = T.Bool
NAMED_PROPS[("BasicBlock", "is_sub_return_point")] = T.Bool
NAMED_PROPS[("BasicBlock", "callsub_block")] = BB
NAMED_PROPS[("BasicBlock", "sub_return_point")] = T.Opt(BB)
NAMED_PROPS[("BasicBlock", "called_subroutine")] = SUB
NAMED_PROPS[("Subroutine", "retsub_blocks")] = T.List(BB)

for _p, _ty, _req in (("is_callsub_block", T.Bool, None), ("is_retsub_block", T.Bool, None), ("is_sub_return_point", T.Bool, None),
                      ("callsub_block", BB, "is_sub_return_point"), ("sub_return_point", T.Opt(BB), "is_callsub_block"),
                      ("called_subroutine", SUB, "is_callsub_block")):
    c = contract(B_ + _p, params={"self": BB}, returns=_ty, trusted=True, trusted_reason=NAMING, tags=["C04", "C05"],
                 raises=[("TealerException", (lambda r: lambda self: Not(getattr(self, r)))(_req))] if _req else [])
    ensures(c, "name", (lambda p: lambda self, result: Eq(result, getattr(self, p)))(_p), naming=True)
c = contract("tealer/teal/subroutine.py::Subroutine.retsub_blocks", params={"self": SUB}, returns=T.List(BB), trusted=True,
             trusted_reason=NAMING, tags=["C05"])
ensures(c, "name", lambda self, result: Eq(Len(result), Len(self.retsub_blocks)), naming=True)   # a fresh list each time: content named

NBG_LEN = z3.Function("NBG_LEN", z3.IntSort(), z3.IntSort(), z3.IntSort())
NBG_AT = z3.Function("NBG_AT", z3.IntSort(), z3.IntSort(), z3.IntSort(), z3.IntSort())
PBG_LEN = z3.Function("PBG_LEN", z3.IntSort(), z3.IntSort(), z3.IntSort())
PBG_AT = z3.Function("PBG_AT", z3.IntSort(), z3.IntSort(), z3.IntSort(), z3.IntSort())
LEAF = z3.Function("LEAF", z3.IntSort(), z3.BoolSort())


def _seq_is(result, LEN, AT, function, block):
    """the returned list has the named content: len = LEN(f, b), result[j] = AT(f, b, j)"""
    ctx = current()
    f, b = function.term, block.term
    n = ctx.ex.list_len(result, ctx.st).term
    j = z3.Int(fresh_name("nj"))
    at = ctx.ex.list_get(result, j, ctx.st)
    return VBool(z3.And(n == LEN(f, b), n >= 0,
                        z3.ForAll([j], z3.Implies(z3.And(j >= 0, j < n), to_term(at, BB) == AT(f, b, j)),
                                  patterns=[AT(f, b, j)])))


def _blocks_typed(LEN, AT, function, block):
    """the named successors / predecessors are basic blocks existing at entry (typing of the naming functions)"""
    ctx = current()
    f, b = function.term, block.term
    j = z3.Int(fresh_name("tj"))
    r = VRef(AT(f, b, j), ctx.ex.ct.cls("BasicBlock"), ctx.ex)
    return VBool(z3.And(LEN(f, b) >= 0, z3.ForAll([j], z3.Implies(z3.And(j >= 0, j < LEN(f, b)), ctx.ex.type_constraint(r)),
                                                   patterns=[AT(f, b, j)])))


c = contract(U + "next_blocks_global", params={"function": FN, "block": BB}, returns=T.List(BB), trusted=True,
             trusted_reason=NAMING, tags=["C04", "C05"])
ensures(c, "name", lambda function, block, result: _seq_is(result, NBG_LEN, NBG_AT, function, block), naming=True)
c = contract(U + "prev_blocks_global", params={"function": FN, "block": BB}, returns=T.List(BB), trusted=True,
             trusted_reason=NAMING, tags=["C04", "C05"])
ensures(c, "name", lambda function, block, result: _seq_is(result, PBG_LEN, PBG_AT, function, block), naming=True)
c = contract(U + "leaf_block_global", params={"block": BB}, returns=T.Bool, trusted=True, trusted_reason=NAMING, tags=["C04", "C05"])
ensures(c, "name", lambda block, result: Eq(result, VBool(LEAF(block.term))), naming=True)

# `_null_set(key)` / `_universal_set(key)` are constants of the domain: name them
NULLV = z3.Function("NULLV", z3.StringSort(), AbsVal)
from pyvc.dsl import REGISTRY  # noqa: E402
ensures(REGISTRY[G + "_null_set"], "name", lambda key, result: VBool(result.term == NULLV(_s(key))), naming=True)


# ---- helpers over the heap -------------------------------------------------------------------------------------------------
def g_(key, a_term, x):
    return GAMMA(_s(key), a_term, x)


def dsel(d, k_term, st=None):
    """term of d[k] for a dict value d: key sort Int (a block), value sort per d.val"""
    ctx = current()
    return z3.Select(ctx.ex.dict_map(d, st or ctx.st), k_term)


def dhas(d, k_term, st=None):
    ctx = current()
    return z3.Select(ctx.ex.dict_dom(d, st or ctx.st), k_term)


def fn_of(self):
    return self._function


# ---- _calculate_livein ------------------------------------------------------------------------------------------------------
def _ret_cond(block):
    """the call-site condition of the backward equation: a call site with a return point whose callee has retsub blocks"""
    srp = block.sub_return_point
    return And(block.is_callsub_block, Not(IsNone(srp)), Len(block.called_subroutine.retsub_blocks) != 0)


def _srp_term(block):
    srp = block.sub_return_point
    return next(v for _, v in srp.alts if isinstance(v, VRef)).term


def livein_gamma(self, key, block, liveout, x, st=None):
    """x in gamma of the live-in equation (over the dict `liveout` in state st)"""
    f, b = fn_of(self).term, block.term
    j = z3.Int(fresh_name("lj"))
    some_succ = z3.Exists([j], z3.And(j >= 0, j < NBG_LEN(f, b), g_(key, dsel(liveout, NBG_AT(f, b, j), st), x)))
    base = z3.Or(g_(key, NULLV(_s(key)), x), some_succ)
    rc = _ret_cond(block).term
    return z3.And(base, z3.Implies(rc, g_(key, dsel(liveout, _srp_term(block), st), x)))


c = contract(G + "_calculate_livein", params={"self": SELF, "key": T.Str, "block": BB, "liveout": T.Dict(BB, A)}, returns=A,
             tags=["C01", "C03", "C06", "C07", "C08", "C09", "C10"])
requires(c, "succ_typed", lambda self, block: _blocks_typed(NBG_LEN, NBG_AT, fn_of(self), block))
requires(c, "succ_have_liveout", lambda self, block, liveout: VBool(z3.ForAll(
    [z3.Int("rj")], z3.Implies(z3.And(z3.Int("rj") >= 0, z3.Int("rj") < NBG_LEN(fn_of(self).term, block.term)),
                               dhas(liveout, NBG_AT(fn_of(self).term, block.term, z3.Int("rj")))),
    patterns=[NBG_AT(fn_of(self).term, block.term, z3.Int("rj"))])))
requires(c, "return_point_has_liveout", lambda block, liveout: Implies(_ret_cond(block), lambda: VBool(dhas(liveout, _srp_term(block)))))
ensures(c, "equation", lambda self, key, block, liveout, result: forall(T.Int, lambda x: VBool(
    g_(key, result.term, x.term) == livein_gamma(self, key, block, liveout, x.term))),
    note="live-in = null U union of the live-out of the global successors, cut by the return point's live-out at a call site")
invariant(c, 1, "next_b", lambda it, i, self, key, block, liveout, livein_information: And(
    i <= Len(it),
    forall(T.Int, lambda x: VBool(g_(key, livein_information.term, x.term) == z3.Or(
        g_(key, NULLV(_s(key)), x.term),
        z3.Exists([z3.Int("ij")], z3.And(z3.Int("ij") >= 0, z3.Int("ij") < i.term,
                                         g_(key, dsel(liveout, NBG_AT(fn_of(self).term, block.term, z3.Int("ij"))), x.term))))))),
    label="union_so_far")
must_fail(c, "only_null", lambda key, result: forall(T.Int, lambda x: VBool(g_(key, result.term, x.term) == g_(key, NULLV(_s(key)), x.term))))
must_fail(c, "ignores_return_point", lambda self, key, block, liveout, result: forall(T.Int, lambda x: VBool(
    g_(key, result.term, x.term) == z3.Or(g_(key, NULLV(_s(key)), x.term), z3.Exists([z3.Int("cj")], z3.And(
        z3.Int("cj") >= 0, z3.Int("cj") < NBG_LEN(fn_of(self).term, block.term),
        g_(key, dsel(liveout, NBG_AT(fn_of(self).term, block.term, z3.Int("cj"))), x.term)))))))


# ---- _calculate_reachin -----------------------------------------------------------------------------------------------------
def nprop(cls, prop, term):
    """the named observation `prop` of the object at `term` (a z3 term)"""
    ctx = current()
    v, st2 = ctx.ex._read_typed(f"V:{cls}.{prop}", term, NAMED_PROPS[(cls, prop)], ctx.st)
    return v


def path_ctx(self, key, block, st=None):
    """the dict self._path_contexts[key][block]  (prev block -> abstract value), read in state st"""
    ctx = current()
    st = st or ctx.st
    outer = self._path_contexts
    mid = VDict(BB, T.Dict(BB, A), z3.Select(ctx.ex.dict_map(outer, st), _s(key)))
    inner = VDict(BB, A, z3.Select(ctx.ex.dict_map(mid, st), block.term))
    return outer, mid, inner


def reachin_gamma(self, key, block, reachout, x, upto=None, st=None):
    f, b = fn_of(self).term, block.term
    _, _, pc_b = path_ctx(self, key, block, st)
    j = z3.Int(fresh_name("pj"))
    p = PBG_AT(f, b, j)
    via_ret = z3.And(block.is_sub_return_point.term, nprop("BasicBlock", "is_retsub_block", p).term)
    from_p = z3.And(g_(key, dsel(reachout, p, st), x), g_(key, dsel(pc_b, p, st), x),
                    z3.Implies(via_ret, g_(key, dsel(reachout, block.callsub_block.term, st), x)))
    bound = PBG_LEN(f, b) if upto is None else upto
    return z3.Exists([j], z3.And(j >= 0, j < bound, from_p))


def reachin_base(self, key, block, x):
    return z3.If(block.term == self._entry_block.term, z3.BoolVal(True), g_(key, NULLV(_s(key)), x))


c = contract(G + "_calculate_reachin", params={"self": SELF, "key": T.Str, "block": BB, "reachout": T.Dict(BB, A)}, returns=A,
             tags=["C01", "C03", "C06", "C07", "C08", "C09", "C10"])
requires(c, "pred_typed", lambda self, block: _blocks_typed(PBG_LEN, PBG_AT, fn_of(self), block))
requires(c, "has_path_contexts", lambda self, key, block: And(In(key, self._path_contexts),
                                                               VBool(dhas(path_ctx(self, key, block)[1], block.term))))


def _preds_in(self, block, d):
    f, b = fn_of(self).term, block.term
    j = z3.Int("qj")
    return VBool(z3.ForAll([j], z3.Implies(z3.And(j >= 0, j < PBG_LEN(f, b)), dhas(d, PBG_AT(f, b, j))), patterns=[PBG_AT(f, b, j)]))


requires(c, "preds_have_reachout", lambda self, block, reachout: _preds_in(self, block, reachout))
requires(c, "preds_have_path_context", lambda self, key, block: _preds_in(self, block, path_ctx(self, key, block)[2]))
requires(c, "call_site_has_reachout", lambda block, reachout: Implies(block.is_sub_return_point,
                                                                     lambda: VBool(dhas(reachout, block.callsub_block.term))))
ensures(c, "equation", lambda self, key, block, reachout, result: forall(T.Int, lambda x: VBool(
    g_(key, result.term, x.term) == z3.Or(reachin_base(self, key, block, x.term), reachin_gamma(self, key, block, reachout, x.term)))),
    note="reach-in = (top at the entry, else null) U union over the global predecessors p of reach-out[p] n path[b][p], a retsub "
         "edge into a return point further cut by the reach-out of the call site")
invariant(c, 1, "prev_b", lambda it, i, self, key, block, reachout, reachin_information: And(
    i <= Len(it),
    forall(T.Int, lambda x: VBool(g_(key, reachin_information.term, x.term) == z3.Or(
        reachin_base(self, key, block, x.term), reachin_gamma(self, key, block, reachout, x.term, upto=i.term))))),
    label="union_so_far")
must_fail(c, "only_base", lambda self, key, block, result: forall(T.Int, lambda x: VBool(
    g_(key, result.term, x.term) == reachin_base(self, key, block, x.term))))


# ---- _merge_information_forward / _merge_information_backward -------------------------------------------------------------
KEYS = T.List(T.Str)
TABLE = T.Dict(T.Str, T.Dict(BB, A))       # key -> block -> abstract value
CELLS = "D.map:Int->AbsVal"                # the heap component holding every block -> abstract value dict


def _cur():
    return current()


def key_at(keys, j, st=None):
    ctx = current()
    return ctx.ex.list_get(keys, j, st or ctx.st).term


def inner_of(table, kterm, st=None):
    """the dict table[k] (block -> abstract value) in state st"""
    ctx = current()
    return VDict(BB, A, z3.Select(ctx.ex.dict_map(table, st or ctx.st), kterm))


def _cells(st):
    ctx = current()
    return st.harr(CELLS, z3.IntSort(), z3.ArraySort(z3.IntSort(), AbsVal))


def _all_j(keys, fn, upto=None, pattern=True):
    """forall 0 <= j < upto (default len(keys)): fn(j, keys[j] as a term)"""
    ctx = current()
    j = z3.Int(fresh_name("kj"))
    n = ctx.ex.list_len(keys, ctx.st).term if upto is None else upto
    k = key_at(keys, j)
    return z3.ForAll([j], z3.Implies(z3.And(j >= 0, j < n), fn(j, k)))


def _some_j(keys, fn, upto=None):
    ctx = current()
    j = z3.Int(fresh_name("kj"))
    n = ctx.ex.list_len(keys, ctx.st).term if upto is None else upto
    k = key_at(keys, j)
    return z3.Exists([j], z3.And(j >= 0, j < n, fn(j, k)))


def keys_distinct(keys):
    ctx = current()
    a, b = z3.Int(fresh_name("ka")), z3.Int(fresh_name("kb"))
    n = ctx.ex.list_len(keys, ctx.st).term
    return VBool(z3.ForAll([a, b], z3.Implies(z3.And(0 <= a, a < b, b < n), key_at(keys, a) != key_at(keys, b))))


def separated(self, keys, table):
    """the per-key dicts of `table` are pairwise different objects and different from every other block -> value dict the
    equations read (the block contexts and the per-block path-context dicts)"""
    ctx = current()
    st = ctx.st
    tmap = ctx.ex.dict_map(table, st)
    bmap = ctx.ex.dict_map(self._block_contexts, st)
    pouter = ctx.ex.dict_map(self._path_contexts, st)
    midmap = st.harr("D.map:Int->Int", z3.IntSort(), z3.ArraySort(z3.IntSort(), z3.IntSort()))
    a, b = z3.Int(fresh_name("sa")), z3.Int(fresh_name("sb"))
    n = ctx.ex.list_len(keys, st).term
    k2 = z3.String(fresh_name("sk"))
    blk = z3.Int(fresh_name("sblk"))
    return VBool(z3.And(
        z3.ForAll([a, b], z3.Implies(z3.And(0 <= a, a < b, b < n), z3.Select(tmap, key_at(keys, a)) != z3.Select(tmap, key_at(keys, b)))),
        z3.ForAll([a, k2], z3.Implies(z3.And(0 <= a, a < n), z3.Select(tmap, key_at(keys, a)) != z3.Select(bmap, k2))),
        z3.ForAll([a, k2, blk], z3.Implies(z3.And(0 <= a, a < n),
                                           z3.Select(tmap, key_at(keys, a)) != z3.Select(z3.Select(midmap, z3.Select(pouter, k2)), blk)))))


def phi_forward(self, kterm, block, table, x, st):
    """x in gamma of the forward equation of key k at `block`, over the heap of state st"""
    from pyvc.values import VStr
    key = VStr(kterm)
    ro = inner_of(table, kterm, st)
    bc = inner_of(self._block_contexts, kterm, st)
    return z3.And(z3.Or(reachin_base(self, key, block, x), reachin_gamma(self, key, block, ro, x, st=st)),
                  g_(key, dsel(bc, block.term, st), x))


def merge_frame(keys, table, block, st_old, st_new, upto=None):
    """every cell other than (table[keys[j]], block), j < upto, is unchanged"""
    d, b = z3.Int(fresh_name("fd")), z3.Int(fresh_name("fb"))
    tmap = current().ex.dict_map(table, st_old)
    written = z3.And(b == block.term, _some_j(keys, lambda j, k: d == z3.Select(tmap, k), upto))
    return z3.ForAll([d, b], z3.Implies(z3.Not(written),
                                        z3.Select(z3.Select(_cells(st_new), d), b) == z3.Select(z3.Select(_cells(st_old), d), b)))


def merge_pre(self, keys, block, table, sub_requires):
    """for every analysis key: its dicts exist and hold `block`, and the equation's own requirements hold"""
    from pyvc.values import VStr
    ctx = current()
    st = ctx.st

    def one(j, k):
        key = VStr(k)
        parts = [z3.Select(ctx.ex.dict_dom(table, st), k), z3.Select(ctx.ex.dict_dom(self._block_contexts, st), k),
                 dhas(inner_of(table, k), block.term), dhas(inner_of(self._block_contexts, k), block.term)]
        parts += [r(key, inner_of(table, k)).term for r in sub_requires]
        return z3.And(parts)
    return VBool(_all_j(keys, one))


def _fw_requires(self, block):
    return [lambda key, ro: And(In(key, self._path_contexts), VBool(dhas(path_ctx(self, key, block)[1], block.term))),
            lambda key, ro: _preds_in(self, block, ro),
            lambda key, ro: _preds_in(self, block, path_ctx(self, key, block)[2]),
            lambda key, ro: Implies(block.is_sub_return_point, lambda: VBool(dhas(ro, block.callsub_block.term)))]


def merge_post(self, keys, block, table, old, phi, upto=None):
    """every processed key's cell of `block` holds (gamma-)exactly phi(key) over the entry heap"""
    ctx = current()
    x = z3.Int(fresh_name("mx"))
    from pyvc.values import VStr
    return _all_j(keys, lambda j, k: z3.ForAll([x], g_(VStr(k), dsel(inner_of(table, k, old.st), block.term), x)
                                               == phi(self, k, block, table, x, old.st)), upto)


def merge_flag(keys, block, table, old, upto=None):
    """some processed key's cell of `block` differs from its entry value"""
    return _some_j(keys, lambda j, k: dsel(inner_of(table, k, old.st), block.term) != dsel(inner_of(table, k, old.st), block.term, old.st), upto)


c = contract(G + "_merge_information_forward",
             params={"self": SELF, "analysis_keys": KEYS, "block": BB, "global_reachout": TABLE}, returns=T.Bool,
             modifies=[CELLS, "param:global_reachout"], tags=["C01", "C03", "C06", "C07", "C08", "C09", "C10"])
c.loop_havoc = {1: [CELLS]}
requires(c, "pred_typed", lambda self, block: _blocks_typed(PBG_LEN, PBG_AT, fn_of(self), block))
requires(c, "keys_distinct", lambda analysis_keys: keys_distinct(analysis_keys))
requires(c, "separated", lambda self, analysis_keys, global_reachout: separated(self, analysis_keys, global_reachout))
requires(c, "per_key", lambda self, analysis_keys, block, global_reachout:
         merge_pre(self, analysis_keys, block, global_reachout, _fw_requires(self, block)))
ensures(c, "equation", lambda self, analysis_keys, block, global_reachout, old: VBool(
    merge_post(self, analysis_keys, block, global_reachout, old, phi_forward)),
    note="after the call, for every analysis key k: gamma(reachout[k][block]) = gamma(reach-in(k, block)) n gamma(block_ctx[k][block])")
ensures(c, "frame", lambda analysis_keys, block, global_reachout, old, new: VBool(
    merge_frame(analysis_keys, global_reachout, block, old.st, new.st)),
    note="no cell other than reachout[k][block], k an analysis key, changes")
ensures(c, "flag", lambda analysis_keys, block, global_reachout, old, result: VBool(
    result.term == merge_flag(analysis_keys, block, global_reachout, old)),
    note="the returned flag is true iff the cell of at least one analysis key changed (the worklist relies on it to re-queue successors)")
invariant(c, 1, "key", lambda it, i: i <= Len(it), label="index")
invariant(c, 1, "key", lambda it, i, analysis_keys, block, global_reachout, entry, cur: VBool(
    merge_frame(analysis_keys, global_reachout, block, entry.st, cur.st, upto=i.term)), label="frame_so_far")
invariant(c, 1, "key", lambda it, i, self, analysis_keys, block, global_reachout, entry: VBool(
    merge_post(self, analysis_keys, block, global_reachout, entry, phi_forward, upto=i.term)), label="processed_keys")
invariant(c, 1, "key", lambda it, i, analysis_keys, block, global_reachout, updated, entry: VBool(
    updated.term == merge_flag(analysis_keys, block, global_reachout, entry, upto=i.term)), label="flag_so_far")
must_fail(c, "never_updated", lambda result: Not(result))
must_fail(c, "always_updated", lambda result: result)
must_fail(c, "cells_unchanged", lambda old, new: VBool(_cells(new.st) == _cells(old.st)))


# ---- _merge_information_backward --------------------------------------------------------------------------------------------
def phi_backward(self, kterm, block, table, x, st):
    from pyvc.values import VStr
    key = VStr(kterm)
    lo = inner_of(table, kterm, st)
    bc = inner_of(self._block_contexts, kterm, st)
    return z3.And(livein_gamma(self, key, block, lo, x, st), g_(key, dsel(bc, block.term, st), x))


def _bw_requires(self, block):
    f, b = fn_of(self).term, block.term
    j = z3.Int("rj")
    return [lambda key, lo: VBool(z3.ForAll([j], z3.Implies(z3.And(j >= 0, j < NBG_LEN(f, b)), dhas(lo, NBG_AT(f, b, j))),
                                            patterns=[NBG_AT(f, b, j)])),
            lambda key, lo: Implies(_ret_cond(block), lambda: VBool(dhas(lo, _srp_term(block))))]


c = contract(G + "_merge_information_backward",
             params={"self": SELF, "analysis_keys": KEYS, "block": BB, "global_liveout": TABLE}, returns=T.Bool,
             modifies=[CELLS, "param:global_liveout"], tags=["C01", "C03", "C06", "C07", "C08", "C09", "C10"])
c.loop_havoc = {1: [CELLS]}
requires(c, "succ_typed", lambda self, block: _blocks_typed(NBG_LEN, NBG_AT, fn_of(self), block))
requires(c, "keys_distinct", lambda analysis_keys: keys_distinct(analysis_keys))
requires(c, "separated", lambda self, analysis_keys, global_liveout: separated(self, analysis_keys, global_liveout))
requires(c, "per_key", lambda self, analysis_keys, block, global_liveout:
         merge_pre(self, analysis_keys, block, global_liveout, _bw_requires(self, block)))
ensures(c, "leaf_untouched", lambda block, old, new, result: Implies(VBool(LEAF(block.term)), lambda: And(
    Not(result), VBool(_cells(new.st) == _cells(old.st)))),
    note="a leaf of the global CFG keeps its live-out (its own block context)")
ensures(c, "equation", lambda self, analysis_keys, block, global_liveout, old: Implies(Not(VBool(LEAF(block.term))), lambda: VBool(
    merge_post(self, analysis_keys, block, global_liveout, old, phi_backward))),
    note="for a non-leaf block and every analysis key k: gamma(liveout[k][block]) = gamma(live-in(k, block)) n gamma(block_ctx[k][block])")
ensures(c, "frame", lambda analysis_keys, block, global_liveout, old, new: VBool(
    merge_frame(analysis_keys, global_liveout, block, old.st, new.st)))
ensures(c, "flag", lambda analysis_keys, block, global_liveout, old, result: Implies(Not(VBool(LEAF(block.term))), lambda: VBool(
    result.term == merge_flag(analysis_keys, block, global_liveout, old))),
    note="the returned flag is true iff the cell of at least one analysis key changed (the worklist relies on it to re-queue predecessors)")
invariant(c, 1, "key", lambda it, i: i <= Len(it), label="index")
invariant(c, 1, "key", lambda it, i, analysis_keys, block, global_liveout, entry, cur: VBool(
    merge_frame(analysis_keys, global_liveout, block, entry.st, cur.st, upto=i.term)), label="frame_so_far")
invariant(c, 1, "key", lambda it, i, self, analysis_keys, block, global_liveout, entry: VBool(
    merge_post(self, analysis_keys, block, global_liveout, entry, phi_backward, upto=i.term)), label="processed_keys")
invariant(c, 1, "key", lambda it, i, analysis_keys, block, global_liveout, updated, entry: VBool(
    updated.term == merge_flag(analysis_keys, block, global_liveout, entry, upto=i.term)), label="flag_so_far")
must_fail(c, "never_updated", lambda result: Not(result))
must_fail(c, "always_updated", lambda result: result)
