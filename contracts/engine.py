"""Contracts of the dataflow engine's equations (DESIGN.md §6.5, §12.6; C01, C03, C06-C10).

Each engine function is pinned to its data-flow equation, exactly, in terms of gamma of the abstract-domain interface
(contracts/generic.py):

  _calculate_livein   gamma(result) = gamma(null) U  U_{n in succ_G(b)} gamma(liveout[n]),  intersected with
                      gamma(liveout[return point]) for a call site whose callee has retsub blocks
  _calculate_reachin  gamma(result) = (top if b is the entry else gamma(null)) U  U_{p in pred_G(b)} gamma(reachout[p]) n
                      gamma(path[b][p]) (n gamma(reachout[call site of b]) for a retsub edge into a return point)
  _merge_information_forward / _backward: every analysis key's cell of `block` is replaced by Phi(key) n block_ctx, nothing
                      else changes, and the returned flag says whether *some* key's cell changed

The global control-flow structure is used through named pure observations (succ_G = next_blocks_global etc.): the engine
never writes CFG fields (its frame obligations), so an observation has one value throughout a run.  The naming clauses
are assumptions (listed in the evidence); the structural meaning of the observations is the business of C04/C05.
"""
from pyvc.dsl import (contract, requires, assumes, ensures, must_fail, invariant, And, Or, Not, Implies, If, Iff, Eq, In, forall,
                      IsInstance, IsNone, AsInt, ForallIdx, ExistsIdx, Len, current)
from pyvc.values import T, V, VBool, VInt, VRef, VList, VDict, VUnion, abs_sort, to_term, _s, fresh_name
from pyvc.execbase import FIELD_TYPES, NAMED_PROPS
from contracts.generic import GAMMA, A, SELF, AbsVal, G
import z3

BB = T.Ref("BasicBlock")
FN = T.Ref("Function")
SUB = T.Ref("Subroutine")
U = "tealer/utils/analyses.py::"
B_ = "tealer/teal/basic_blocks.py::BasicBlock."
NAMING = ("naming clause: the observation is a deterministic function of its arguments over the CFG, which the engine does "
          "not modify (frame obligations of the engine functions)")

FIELD_TYPES[("DataflowTransactionContext", "_block_contexts")] = T.Dict(T.Str, T.Dict(BB, A), default=True)
FIELD_TYPES[("DataflowTransactionContext", "_path_contexts")] = T.Dict(T.Str, T.Dict(BB, T.Dict(BB, A)), default=True)

# ---- named observations of the CFG ------------------------------------------------------------------------------------
NAMED_PROPS[("BasicBlock", "is_callsub_block")] = T.Bool
NAMED_PROPS[("BasicBlock", "is_retsub_block")] = T.Bool
NAMED_PROPS[("BasicBlock", "is_sub_return_point")] = T.Bool
NAMED_PROPS[("BasicBlock", "callsub_block")] = BB
NAMED_PROPS[("BasicBlock", "sub_return_point")] = T.Opt(BB)
NAMED_PROPS[("BasicBlock", "called_subroutine")] = SUB
NAMED_PROPS[("Subroutine", "retsub_blocks")] = T.List(BB)

for _p, _ty, _req in (("sub_return_point", T.Opt(BB), "is_callsub_block"),
                      ("called_subroutine", SUB, "is_callsub_block")):
    c = contract(B_ + _p, params={"self": BB}, returns=_ty, trusted=True, trusted_reason=NAMING, tags=["C04", "C05"],
                 raises=[("TealerException", (lambda r: lambda self: Not(getattr(self, r)))(_req))] if _req else [])
    ensures(c, "name", (lambda p: lambda self, result: Eq(result, getattr(self, p)))(_p), naming=True)


# class invariant of BasicBlock in a parsed contract (C04: the blocks partition the retained instructions, none is empty;
# decided by bounded/cfgcheck.py): assumed wherever a block is touched
def _bb_invariant(ex, st, ref):
    K = ex.ct.cls("BasicBlock")
    ins, _ = ex.read_field(ref, K, "_instructions", st)
    sub, _ = ex.read_field(ref, K, "_subroutine", st)
    teal, _ = ex.read_field(ref, K, "_teal", st)
    # ... and every block belongs to a unit (main or a subroutine) of a contract: `_subroutine` and `_teal` are set (C05)
    return [ex.list_len(ins, st).term >= 1, z3.Not(sub.is_none().term), z3.Not(teal.is_none().term)]


from pyvc.execbase import ON_TOUCH   # noqa: E402
ON_TOUCH.setdefault("BasicBlock", []).append(_bb_invariant)


def exit_ins(block):
    """the last instruction of the block (a term), read from the heap"""
    ctx = current()
    K = ctx.ex.ct.cls("BasicBlock")
    ins, _ = ctx.ex.read_field(block, K, "_instructions", ctx.st)
    n = ctx.ex.list_len(ins, ctx.st).term
    return ctx.ex.list_get(ins, n - 1, ctx.st)


# return points: verified against the predecessor list, and named
def _some_prev_is_call(self, upto=None):
    return ExistsIdx(self._prev, lambda j, p: p.is_callsub_block, upto=upto)


c = contract(B_ + "is_sub_return_point", params={"self": BB}, returns=T.Bool, tags=["C04", "C05"], touch=["self"])
ensures(c, "after_a_call", lambda self, result: Iff(result, _some_prev_is_call(self)),
        note="a return point is a block one of whose predecessors is a call site")
ensures(c, "name", lambda self, result: Eq(result, self.is_sub_return_point), naming=True)
invariant(c, 1, "bi", lambda it, i, self: And(i <= Len(it), Not(_some_prev_is_call(self, upto=i))), label="none_so_far")
c = contract(B_ + "callsub_block", params={"self": BB}, returns=BB, tags=["C04", "C05"], touch=["self"],
             raises=[("TealerException", lambda self: Not(_some_prev_is_call(self)))])
ensures(c, "is_call_site", lambda self, result: And(result.is_callsub_block, ExistsIdx(self._prev, lambda j, p: Eq(p, result))),
        note="the call site this block returns to: one of its predecessors, ending in callsub")
ensures(c, "name", lambda self, result: Eq(result, self.callsub_block), naming=True)
invariant(c, 1, "bi", lambda it, i, self: And(i <= Len(it), Not(_some_prev_is_call(self, upto=i))), label="none_so_far")


# the two exit-instruction observations: verified against the instruction list, and named
for _p, _cls in (("is_callsub_block", "Callsub"), ("is_retsub_block", "Retsub")):
    c = contract(B_ + _p, params={"self": BB}, returns=T.Bool, tags=["C04", "C05"], touch=["self"])
    ensures(c, "exit_class", (lambda cls: lambda self, result: Iff(result, IsInstance(exit_ins(self), cls)))(_cls),
            note="the block ends in this instruction")
    ensures(c, "name", (lambda p: lambda self, result: Eq(result, getattr(self, p)))(_p), naming=True)
c = contract("tealer/teal/subroutine.py::Subroutine.retsub_blocks", params={"self": SUB}, returns=T.List(BB), trusted=True,
             trusted_reason=NAMING, tags=["C05"])
ensures(c, "name", lambda self, result: Eq(Len(result), Len(self.retsub_blocks)), naming=True)   # a fresh list each time: content named

NBG_LEN = z3.Function("NBG_LEN", z3.IntSort(), z3.IntSort(), z3.IntSort())
NBG_AT = z3.Function("NBG_AT", z3.IntSort(), z3.IntSort(), z3.IntSort(), z3.IntSort())
PBG_LEN = z3.Function("PBG_LEN", z3.IntSort(), z3.IntSort(), z3.IntSort())
PBG_AT = z3.Function("PBG_AT", z3.IntSort(), z3.IntSort(), z3.IntSort(), z3.IntSort())
LEAF = z3.Function("LEAF", z3.IntSort(), z3.BoolSort())


def _seq_is(result, LEN, AT, function, block):
    """the returned list has the named content: len = LEN(f, b), result[j] = AT(f, b, j)"""
    ctx = current()
    f, b = function.term, block.term
    n = ctx.ex.list_len(result, ctx.st).term
    j = z3.Int(fresh_name("nj"))
    at = ctx.ex.list_get(result, j, ctx.st)
    return VBool(z3.And(n == LEN(f, b), n >= 0,
                        z3.ForAll([j], z3.Implies(z3.And(j >= 0, j < n), to_term(at, BB) == AT(f, b, j)),
                                  patterns=[AT(f, b, j)])))


def _blocks_typed(LEN, AT, function, block):
    """the named successors / predecessors are basic blocks existing at entry (typing of the naming functions)"""
    ctx = current()
    f, b = function.term, block.term
    j = z3.Int(fresh_name("tj"))
    r = VRef(AT(f, b, j), ctx.ex.ct.cls("BasicBlock"), ctx.ex)
    return VBool(z3.And(LEN(f, b) >= 0, z3.ForAll([j], z3.Implies(z3.And(j >= 0, j < LEN(f, b)), ctx.ex.type_constraint(r)),
                                                   patterns=[AT(f, b, j)])))


# callees of next_blocks_global that stay opaque (named)
RPB_LEN = z3.Function("RPB_LEN", z3.IntSort(), z3.IntSort(), z3.IntSort())
RPB_AT = z3.Function("RPB_AT", z3.IntSort(), z3.IntSort(), z3.IntSort(), z3.IntSort())
NAMED_PROPS[("BasicBlock", "subroutine")] = SUB
c = contract(B_ + "subroutine", params={"self": BB}, returns=SUB, trusted=True, trusted_reason=NAMING, tags=["C05"],
             raises=[("TealerException", lambda self: IsNone(self._subroutine))])
ensures(c, "name", lambda self, result: Eq(result, self.subroutine), naming=True)
c = contract("tealer/teal/functions.py::Function.return_point_blocks", params={"self": FN, "subroutine": SUB}, returns=T.List(BB),
             trusted=True, trusted_reason=NAMING, tags=["C05"])
ensures(c, "name", lambda self, subroutine, result: _seq_is(result, RPB_LEN, RPB_AT, self, subroutine), naming=True)


def _same_list(a, b):
    return VBool(a.ref == b.ref)


c = contract(U + "next_blocks_global", params={"function": FN, "block": BB}, returns=T.List(BB), tags=["C04", "C05"], touch=["block"])
ensures(c, "plain", lambda block, result: Implies(And(Not(block.is_retsub_block), Not(block.is_callsub_block)),
                                                  lambda: _same_list(result, block._next)),
        note="a block that ends neither in retsub nor in callsub: its successors in the global graph are its own successors")
ensures(c, "call", lambda block, result: Implies(And(Not(block.is_retsub_block), block.is_callsub_block),
                                                 lambda: And(Len(result) == 1, Eq(result[0], block.called_subroutine._entry))),
        note="a call site: the only successor in the global graph is the entry of the called subroutine")
ensures(c, "return", lambda function, block, result: Implies(block.is_retsub_block, lambda: _seq_is(
    result, RPB_LEN, RPB_AT, function, block.subroutine)),
    note="a retsub block: the successors are the return points of the call sites of its subroutine")
ensures(c, "name", lambda function, block, result: _seq_is(result, NBG_LEN, NBG_AT, function, block), naming=True)
CB_LEN = z3.Function("CB_LEN", z3.IntSort(), z3.IntSort(), z3.IntSort())
CB_AT = z3.Function("CB_AT", z3.IntSort(), z3.IntSort(), z3.IntSort(), z3.IntSort())
c = contract("tealer/teal/functions.py::Function.caller_blocks", params={"self": FN, "subroutine": SUB}, returns=T.List(BB),
             trusted=True, trusted_reason=NAMING, tags=["C05"])
ensures(c, "name", lambda self, subroutine, result: _seq_is(result, CB_LEN, CB_AT, self, subroutine), naming=True)

c = contract(U + "prev_blocks_global", params={"function": FN, "block": BB}, returns=T.List(BB), tags=["C04", "C05"], touch=["block"])
c.seq_filter = True
# invariant of Function (its constructor builds the caller table for every subroutine of the function; C05, bounded cfgcheck):
# assumed for the verification of this function, not demanded from its callers
assumes(c, "callers_known", lambda function, block: Implies(
    And(Eq(block, block.subroutine._entry), Not(Eq(block.subroutine, function.main))),
    lambda: In(block.subroutine, function._subroutine_caller_blocks)))
ensures(c, "plain", lambda block, result: Implies(And(Not(Eq(block, block.subroutine._entry)), Not(block.is_sub_return_point)),
                                                  lambda: _same_list(result, block._prev)),
        note="neither the entry of its unit nor a return point: the predecessors in the global graph are the block's own")
ensures(c, "main_entry", lambda function, block, result: Implies(
    And(Eq(block, block.subroutine._entry), Eq(block.subroutine, function.main)), lambda: _same_list(result, block._prev)),
    note="the entry of the main unit has no call sites: its own predecessors")
ensures(c, "sub_entry", lambda function, block, result: Implies(
    And(Eq(block, block.subroutine._entry), Not(Eq(block.subroutine, function.main))),
    lambda: Eq(Len(result), VInt(CB_LEN(function.term, block.subroutine.term)) + Len(block._prev))),
    note="the entry of a subroutine: its call sites in this function, then its own predecessors")
ensures(c, "name", lambda function, block, result: _seq_is(result, PBG_LEN, PBG_AT, function, block), naming=True)

c = contract(U + "leaf_block_global", params={"block": BB}, returns=T.Bool, tags=["C04", "C05"], touch=["block"])
ensures(c, "leaf", lambda block, result: Iff(result, And(Len(block._next) == 0, Not(block.is_retsub_block), Not(block.is_callsub_block))),
        note="a leaf of the global graph: no successor, and neither a retsub block (continues at the return points) nor a call site")
ensures(c, "name", lambda block, result: Eq(result, VBool(LEAF(block.term))), naming=True)

# `_null_set(key)` / `_universal_set(key)` are constants of the domain: name them
from contracts.generic import NULLV  # noqa: E402
from pyvc.dsl import REGISTRY  # noqa: E402


# ---- helpers over the heap -------------------------------------------------------------------------------------------------
def g_(key, a_term, x):
    return GAMMA(_s(key), a_term, x)


def dsel(d, k_term, st=None):
    """term of d[k] for a dict value d: key sort Int (a block), value sort per d.val"""
    ctx = current()
    return z3.Select(ctx.ex.dict_map(d, st or ctx.st), k_term)


def dhas(d, k_term, st=None):
    ctx = current()
    return z3.Select(ctx.ex.dict_dom(d, st or ctx.st), k_term)


def fn_of(self):
    return self._function


# ---- _calculate_livein ------------------------------------------------------------------------------------------------------
def _ret_cond(block):
    """the call-site condition of the backward equation: a call site with a return point whose callee has retsub blocks"""
    srp = block.sub_return_point
    return And(block.is_callsub_block, Not(IsNone(srp)), Len(block.called_subroutine.retsub_blocks) != 0)


def _srp_term(block):
    srp = block.sub_return_point
    return next(v for _, v in srp.alts if isinstance(v, VRef)).term


def livein_gamma(self, key, block, liveout, x, st=None):
    """x in gamma of the live-in equation (over the dict `liveout` in state st)"""
    f, b = fn_of(self).term, block.term
    j = z3.Int(fresh_name("lj"))
    some_succ = z3.Exists([j], z3.And(j >= 0, j < NBG_LEN(f, b), g_(key, dsel(liveout, NBG_AT(f, b, j), st), x)))
    base = z3.Or(g_(key, NULLV(_s(key)), x), some_succ)
    rc = _ret_cond(block).term
    return z3.And(base, z3.Implies(rc, g_(key, dsel(liveout, _srp_term(block), st), x)))


c = contract(G + "_calculate_livein", params={"self": SELF, "key": T.Str, "block": BB, "liveout": T.Dict(BB, A)}, returns=A,
             tags=["C01", "C03", "C06", "C07", "C08", "C09", "C10"])
requires(c, "succ_typed", lambda self, block: _blocks_typed(NBG_LEN, NBG_AT, fn_of(self), block))
requires(c, "succ_have_liveout", lambda self, block, liveout: VBool(z3.ForAll(
    [z3.Int("rj")], z3.Implies(z3.And(z3.Int("rj") >= 0, z3.Int("rj") < NBG_LEN(fn_of(self).term, block.term)),
                               dhas(liveout, NBG_AT(fn_of(self).term, block.term, z3.Int("rj")))),
    patterns=[NBG_AT(fn_of(self).term, block.term, z3.Int("rj"))])))
requires(c, "return_point_has_liveout", lambda block, liveout: Implies(_ret_cond(block), lambda: VBool(dhas(liveout, _srp_term(block)))))
ensures(c, "equation", lambda self, key, block, liveout, result: forall(T.Int, lambda x: VBool(
    g_(key, result.term, x.term) == livein_gamma(self, key, block, liveout, x.term))),
    note="live-in = null U union of the live-out of the global successors, cut by the return point's live-out at a call site")
invariant(c, 1, "next_b", lambda it, i, self, key, block, liveout, livein_information: And(
    i <= Len(it),
    forall(T.Int, lambda x: VBool(g_(key, livein_information.term, x.term) == z3.Or(
        g_(key, NULLV(_s(key)), x.term),
        z3.Exists([z3.Int("ij")], z3.And(z3.Int("ij") >= 0, z3.Int("ij") < i.term,
                                         g_(key, dsel(liveout, NBG_AT(fn_of(self).term, block.term, z3.Int("ij"))), x.term))))))),
    label="union_so_far")
must_fail(c, "only_null", lambda key, result: forall(T.Int, lambda x: VBool(g_(key, result.term, x.term) == g_(key, NULLV(_s(key)), x.term))))
must_fail(c, "ignores_return_point", lambda self, key, block, liveout, result: forall(T.Int, lambda x: VBool(
    g_(key, result.term, x.term) == z3.Or(g_(key, NULLV(_s(key)), x.term), z3.Exists([z3.Int("cj")], z3.And(
        z3.Int("cj") >= 0, z3.Int("cj") < NBG_LEN(fn_of(self).term, block.term),
        g_(key, dsel(liveout, NBG_AT(fn_of(self).term, block.term, z3.Int("cj"))), x.term)))))))


# ---- _calculate_reachin -----------------------------------------------------------------------------------------------------
def nprop(cls, prop, term):
    """the named observation `prop` of the object at `term` (a z3 term)"""
    ctx = current()
    v, st2 = ctx.ex._read_typed(f"V:{cls}.{prop}", term, NAMED_PROPS[(cls, prop)], ctx.st)
    return v


def path_ctx(self, key, block, st=None):
    """the dict self._path_contexts[key][block]  (prev block -> abstract value), read in state st"""
    ctx = current()
    st = st or ctx.st
    outer = self._path_contexts
    mid = VDict(BB, T.Dict(BB, A), z3.Select(ctx.ex.dict_map(outer, st), _s(key)))
    inner = VDict(BB, A, z3.Select(ctx.ex.dict_map(mid, st), block.term))
    return outer, mid, inner


def reachin_gamma(self, key, block, reachout, x, upto=None, st=None):
    f, b = fn_of(self).term, block.term
    _, _, pc_b = path_ctx(self, key, block, st)
    j = z3.Int(fresh_name("pj"))
    p = PBG_AT(f, b, j)
    via_ret = z3.And(block.is_sub_return_point.term, nprop("BasicBlock", "is_retsub_block", p).term)
    from_p = z3.And(g_(key, dsel(reachout, p, st), x), g_(key, dsel(pc_b, p, st), x),
                    z3.Implies(via_ret, g_(key, dsel(reachout, block.callsub_block.term, st), x)))
    bound = PBG_LEN(f, b) if upto is None else upto
    return z3.Exists([j], z3.And(j >= 0, j < bound, from_p))


def reachin_base(self, key, block, x):
    return z3.If(block.term == self._entry_block.term, z3.BoolVal(True), g_(key, NULLV(_s(key)), x))


c = contract(G + "_calculate_reachin", params={"self": SELF, "key": T.Str, "block": BB, "reachout": T.Dict(BB, A)}, returns=A,
             tags=["C01", "C03", "C06", "C07", "C08", "C09", "C10"])
requires(c, "pred_typed", lambda self, block: _blocks_typed(PBG_LEN, PBG_AT, fn_of(self), block))
requires(c, "has_path_contexts", lambda self, key, block: And(In(key, self._path_contexts),
                                                               VBool(dhas(path_ctx(self, key, block)[1], block.term))))


def _preds_in(self, block, d):
    f, b = fn_of(self).term, block.term
    j = z3.Int("qj")
    return VBool(z3.ForAll([j], z3.Implies(z3.And(j >= 0, j < PBG_LEN(f, b)), dhas(d, PBG_AT(f, b, j))), patterns=[PBG_AT(f, b, j)]))


requires(c, "preds_have_reachout", lambda self, block, reachout: _preds_in(self, block, reachout))
requires(c, "preds_have_path_context", lambda self, key, block: _preds_in(self, block, path_ctx(self, key, block)[2]))
requires(c, "call_site_has_reachout", lambda block, reachout: Implies(block.is_sub_return_point,
                                                                     lambda: VBool(dhas(reachout, block.callsub_block.term))))
ensures(c, "equation", lambda self, key, block, reachout, result: forall(T.Int, lambda x: VBool(
    g_(key, result.term, x.term) == z3.Or(reachin_base(self, key, block, x.term), reachin_gamma(self, key, block, reachout, x.term)))),
    note="reach-in = (top at the entry, else null) U union over the global predecessors p of reach-out[p] n path[b][p], a retsub "
         "edge into a return point further cut by the reach-out of the call site")
invariant(c, 1, "prev_b", lambda it, i, self, key, block, reachout, reachin_information: And(
    i <= Len(it),
    forall(T.Int, lambda x: VBool(g_(key, reachin_information.term, x.term) == z3.Or(
        reachin_base(self, key, block, x.term), reachin_gamma(self, key, block, reachout, x.term, upto=i.term))))),
    label="union_so_far")
must_fail(c, "only_base", lambda self, key, block, result: forall(T.Int, lambda x: VBool(
    g_(key, result.term, x.term) == reachin_base(self, key, block, x.term))))


# ---- _merge_information_forward / _merge_information_backward -------------------------------------------------------------
KEYS = T.List(T.Str)
TABLE = T.Dict(T.Str, T.Dict(BB, A))       # key -> block -> abstract value
CELLS = "D.map:Int->AbsVal"                # the heap component holding every block -> abstract value dict


def _cur():
    return current()


def key_at(keys, j, st=None):
    ctx = current()
    return ctx.ex.list_get(keys, j, st or ctx.st).term


def inner_of(table, kterm, st=None):
    """the dict table[k] (block -> abstract value) in state st"""
    ctx = current()
    return VDict(BB, A, z3.Select(ctx.ex.dict_map(table, st or ctx.st), kterm))


def _cells(st):
    ctx = current()
    return st.harr(CELLS, z3.IntSort(), z3.ArraySort(z3.IntSort(), AbsVal))


def _all_j(keys, fn, upto=None, pattern=True):
    """forall 0 <= j < upto (default len(keys)): fn(j, keys[j] as a term)"""
    ctx = current()
    j = z3.Int(fresh_name("kj"))
    n = ctx.ex.list_len(keys, ctx.st).term if upto is None else upto
    k = key_at(keys, j)
    return z3.ForAll([j], z3.Implies(z3.And(j >= 0, j < n), fn(j, k)))


def _some_j(keys, fn, upto=None):
    ctx = current()
    j = z3.Int(fresh_name("kj"))
    n = ctx.ex.list_len(keys, ctx.st).term if upto is None else upto
    k = key_at(keys, j)
    return z3.Exists([j], z3.And(j >= 0, j < n, fn(j, k)))


def keys_distinct(keys):
    ctx = current()
    a, b = z3.Int(fresh_name("ka")), z3.Int(fresh_name("kb"))
    n = ctx.ex.list_len(keys, ctx.st).term
    return VBool(z3.ForAll([a, b], z3.Implies(z3.And(0 <= a, a < b, b < n), key_at(keys, a) != key_at(keys, b))))


def separated(self, keys, table):
    """the per-key dicts of `table` are pairwise different objects and different from every other block -> value dict the
    equations read (the block contexts and the per-block path-context dicts)"""
    ctx = current()
    st = ctx.st
    tmap = ctx.ex.dict_map(table, st)
    bmap = ctx.ex.dict_map(self._block_contexts, st)
    pouter = ctx.ex.dict_map(self._path_contexts, st)
    midmap = st.harr("D.map:Int->Int", z3.IntSort(), z3.ArraySort(z3.IntSort(), z3.IntSort()))
    a, b = z3.Int(fresh_name("sa")), z3.Int(fresh_name("sb"))
    n = ctx.ex.list_len(keys, st).term
    k2 = z3.String(fresh_name("sk"))
    blk = z3.Int(fresh_name("sblk"))
    return VBool(z3.And(
        z3.ForAll([a, b], z3.Implies(z3.And(0 <= a, a < b, b < n), z3.Select(tmap, key_at(keys, a)) != z3.Select(tmap, key_at(keys, b)))),
        z3.ForAll([a, k2], z3.Implies(z3.And(0 <= a, a < n), z3.Select(tmap, key_at(keys, a)) != z3.Select(bmap, k2))),
        z3.ForAll([a, k2, blk], z3.Implies(z3.And(0 <= a, a < n),
                                           z3.Select(tmap, key_at(keys, a)) != z3.Select(z3.Select(midmap, z3.Select(pouter, k2)), blk)))))


def phi_forward(self, kterm, block, table, x, st):
    """x in gamma of the forward equation of key k at `block`, over the heap of state st"""
    from pyvc.values import VStr
    key = VStr(kterm)
    ro = inner_of(table, kterm, st)
    bc = inner_of(self._block_contexts, kterm, st)
    return z3.And(z3.Or(reachin_base(self, key, block, x), reachin_gamma(self, key, block, ro, x, st=st)),
                  g_(key, dsel(bc, block.term, st), x))


def merge_frame(keys, table, block, st_old, st_new, upto=None):
    """every cell other than (table[keys[j]], block), j < upto, is unchanged"""
    d, b = z3.Int(fresh_name("fd")), z3.Int(fresh_name("fb"))
    tmap = current().ex.dict_map(table, st_old)
    written = z3.And(b == block.term, _some_j(keys, lambda j, k: d == z3.Select(tmap, k), upto))
    return z3.ForAll([d, b], z3.Implies(z3.Not(written),
                                        z3.Select(z3.Select(_cells(st_new), d), b) == z3.Select(z3.Select(_cells(st_old), d), b)))


def merge_pre(self, keys, block, table, sub_requires):
    """for every analysis key: its dicts exist and hold `block`, and the equation's own requirements hold"""
    from pyvc.values import VStr
    ctx = current()
    st = ctx.st

    def one(j, k):
        key = VStr(k)
        parts = [z3.Select(ctx.ex.dict_dom(table, st), k), z3.Select(ctx.ex.dict_dom(self._block_contexts, st), k),
                 dhas(inner_of(table, k), block.term), dhas(inner_of(self._block_contexts, k), block.term)]
        parts += [r(key, inner_of(table, k)).term for r in sub_requires]
        return z3.And(parts)
    return VBool(_all_j(keys, one))


def _fw_requires(self, block):
    return [lambda key, ro: And(In(key, self._path_contexts), VBool(dhas(path_ctx(self, key, block)[1], block.term))),
            lambda key, ro: _preds_in(self, block, ro),
            lambda key, ro: _preds_in(self, block, path_ctx(self, key, block)[2]),
            lambda key, ro: Implies(block.is_sub_return_point, lambda: VBool(dhas(ro, block.callsub_block.term)))]


def merge_post(self, keys, block, table, old, phi, upto=None):
    """every processed key's cell of `block` holds (gamma-)exactly phi(key) over the entry heap"""
    ctx = current()
    x = z3.Int(fresh_name("mx"))
    from pyvc.values import VStr
    return _all_j(keys, lambda j, k: z3.ForAll([x], g_(VStr(k), dsel(inner_of(table, k, old.st), block.term), x)
                                               == phi(self, k, block, table, x, old.st)), upto)


def merge_flag(keys, block, table, old, upto=None):
    """some processed key's cell of `block` differs from its entry value"""
    return _some_j(keys, lambda j, k: dsel(inner_of(table, k, old.st), block.term) != dsel(inner_of(table, k, old.st), block.term, old.st), upto)


c = contract(G + "_merge_information_forward",
             params={"self": SELF, "analysis_keys": KEYS, "block": BB, "global_reachout": TABLE}, returns=T.Bool,
             modifies=[CELLS, "param:global_reachout"], tags=["C01", "C03", "C06", "C07", "C08", "C09", "C10", "C14"])
c.loop_havoc = {1: [CELLS]}
requires(c, "pred_typed", lambda self, block: _blocks_typed(PBG_LEN, PBG_AT, fn_of(self), block))
requires(c, "keys_distinct", lambda analysis_keys: keys_distinct(analysis_keys))
requires(c, "separated", lambda self, analysis_keys, global_reachout: separated(self, analysis_keys, global_reachout))
requires(c, "per_key", lambda self, analysis_keys, block, global_reachout:
         merge_pre(self, analysis_keys, block, global_reachout, _fw_requires(self, block)))
ensures(c, "equation", lambda self, analysis_keys, block, global_reachout, old: VBool(
    merge_post(self, analysis_keys, block, global_reachout, old, phi_forward)),
    note="after the call, for every analysis key k: gamma(reachout[k][block]) = gamma(reach-in(k, block)) n gamma(block_ctx[k][block])")
ensures(c, "frame", lambda analysis_keys, block, global_reachout, old, new: VBool(
    merge_frame(analysis_keys, global_reachout, block, old.st, new.st)),
    note="no cell other than reachout[k][block], k an analysis key, changes")
ensures(c, "flag", lambda analysis_keys, block, global_reachout, old, result: VBool(
    result.term == merge_flag(analysis_keys, block, global_reachout, old)),
    note="the returned flag is true iff the cell of at least one analysis key changed (the worklist relies on it to re-queue successors)")
invariant(c, 1, "key", lambda it, i: i <= Len(it), label="index")
invariant(c, 1, "key", lambda it, i, analysis_keys, block, global_reachout, entry, cur: VBool(
    merge_frame(analysis_keys, global_reachout, block, entry.st, cur.st, upto=i.term)), label="frame_so_far")
invariant(c, 1, "key", lambda it, i, self, analysis_keys, block, global_reachout, entry: VBool(
    merge_post(self, analysis_keys, block, global_reachout, entry, phi_forward, upto=i.term)), label="processed_keys")
invariant(c, 1, "key", lambda it, i, analysis_keys, block, global_reachout, updated, entry: VBool(
    updated.term == merge_flag(analysis_keys, block, global_reachout, entry, upto=i.term)), label="flag_so_far")
must_fail(c, "never_updated", lambda result: Not(result))
must_fail(c, "always_updated", lambda result: result)
must_fail(c, "cells_unchanged", lambda old, new: VBool(_cells(new.st) == _cells(old.st)))


# ---- _merge_information_backward --------------------------------------------------------------------------------------------
def phi_backward(self, kterm, block, table, x, st):
    from pyvc.values import VStr
    key = VStr(kterm)
    lo = inner_of(table, kterm, st)
    bc = inner_of(self._block_contexts, kterm, st)
    return z3.And(livein_gamma(self, key, block, lo, x, st), g_(key, dsel(bc, block.term, st), x))


def _bw_requires(self, block):
    f, b = fn_of(self).term, block.term
    j = z3.Int("rj")
    return [lambda key, lo: VBool(z3.ForAll([j], z3.Implies(z3.And(j >= 0, j < NBG_LEN(f, b)), dhas(lo, NBG_AT(f, b, j))),
                                            patterns=[NBG_AT(f, b, j)])),
            lambda key, lo: Implies(_ret_cond(block), lambda: VBool(dhas(lo, _srp_term(block))))]


c = contract(G + "_merge_information_backward",
             params={"self": SELF, "analysis_keys": KEYS, "block": BB, "global_liveout": TABLE}, returns=T.Bool,
             modifies=[CELLS, "param:global_liveout"], tags=["C01", "C03", "C06", "C07", "C08", "C09", "C10", "C14"])
c.loop_havoc = {1: [CELLS]}
requires(c, "succ_typed", lambda self, block: _blocks_typed(NBG_LEN, NBG_AT, fn_of(self), block))
requires(c, "keys_distinct", lambda analysis_keys: keys_distinct(analysis_keys))
requires(c, "separated", lambda self, analysis_keys, global_liveout: separated(self, analysis_keys, global_liveout))
requires(c, "per_key", lambda self, analysis_keys, block, global_liveout:
         merge_pre(self, analysis_keys, block, global_liveout, _bw_requires(self, block)))
ensures(c, "leaf_untouched", lambda block, old, new, result: Implies(VBool(LEAF(block.term)), lambda: And(
    Not(result), VBool(_cells(new.st) == _cells(old.st)))),
    note="a leaf of the global CFG keeps its live-out (its own block context)")
ensures(c, "equation", lambda self, analysis_keys, block, global_liveout, old: Implies(Not(VBool(LEAF(block.term))), lambda: VBool(
    merge_post(self, analysis_keys, block, global_liveout, old, phi_backward))),
    note="for a non-leaf block and every analysis key k: gamma(liveout[k][block]) = gamma(live-in(k, block)) n gamma(block_ctx[k][block])")
ensures(c, "frame", lambda analysis_keys, block, global_liveout, old, new: VBool(
    merge_frame(analysis_keys, global_liveout, block, old.st, new.st)))
ensures(c, "flag", lambda analysis_keys, block, global_liveout, old, result: Implies(Not(VBool(LEAF(block.term))), lambda: VBool(
    result.term == merge_flag(analysis_keys, block, global_liveout, old))),
    note="the returned flag is true iff the cell of at least one analysis key changed (the worklist relies on it to re-queue predecessors)")
invariant(c, 1, "key", lambda it, i: i <= Len(it), label="index")
invariant(c, 1, "key", lambda it, i, analysis_keys, block, global_liveout, entry, cur: VBool(
    merge_frame(analysis_keys, global_liveout, block, entry.st, cur.st, upto=i.term)), label="frame_so_far")
invariant(c, 1, "key", lambda it, i, self, analysis_keys, block, global_liveout, entry: VBool(
    merge_post(self, analysis_keys, block, global_liveout, entry, phi_backward, upto=i.term)), label="processed_keys")
invariant(c, 1, "key", lambda it, i, analysis_keys, block, global_liveout, updated, entry: VBool(
    updated.term == merge_flag(analysis_keys, block, global_liveout, entry, upto=i.term)), label="flag_so_far")
must_fail(c, "never_updated", lambda result: Not(result))
must_fail(c, "always_updated", lambda result: result)


# ---- _block_level_constraints -----------------------------------------------------------------------------------------------
from contracts.generic import admits, VISIT                      # noqa: E402
from contracts.stack_ast import nz, nzq                           # noqa: E402
from spec.ghost import keydef                                     # noqa: E402
from pyvc.values import VStr, VAbs, from_term                     # noqa: E402
from pyvc.execbase import TYPEOF                                  # noqa: E402

SVT = T.RefU("KnownStackValue", "UnknownStackValue")
SVOF = z3.Function("SVOF", z3.IntSort(), z3.IntSort())           # the stack-AST node of an instruction
C11 = ("the stack AST of a block is faithful (C11: decided by the stack-effect table contracts and the bounded stackcheck); "
       "naming: get_stack_value_for_ins(ins) is the node SVOF(ins)")
c = contract("tealer/analyses/utils/stack_ast_builder.py::get_stack_value_for_ins", params={"ins": T.Ref("Instruction")},
             returns=T.Ref("KnownStackValue"), trusted=True, trusted_reason=C11, tags=["C11"])
ensures(c, "name", lambda ins, result: VBool(result.term == SVOF(ins.term)), naming=True)
ensures(c, "one_operand", lambda ins, result: Implies(IsInstance(ins, ("Assert", "Return", "BZ", "BNZ")), lambda: Len(result.args) == 1))


def _isinst(term, names):
    ctx = current()
    ct = ctx.ex.ct
    return z3.Or([z3.And(TYPEOF(term) >= ct.lo[ct.cls(n)], TYPEOF(term) < ct.hi[ct.cls(n)]) for n in names])


def arg0_of(ins_term):
    """the first operand node of the instruction's stack-AST node, as a value of type known|unknown stack value"""
    ctx = current()
    K = ctx.ex.ct.cls("KnownStackValue")
    args, st2 = ctx.ex.read_field(VRef(SVOF(ins_term), K, ctx.ex), K, "_args", ctx.st)
    return ctx.ex.list_get(args, 0, ctx.st)


def passes(v, ins_term):
    """visit v gets past instruction `ins`: an assert / return whose operand is known sees a non-zero operand; no err"""
    a0 = arg0_of(ins_term)
    known = IsInstance(a0, "KnownStackValue").term
    return z3.And(z3.Implies(z3.And(_isinst(ins_term, ["Assert", "Return"]), known), nzq(v, a0).term),
                  z3.Not(_isinst(ins_term, ["Err", "TealerCustomErrInstruction"])))


def pass_prefix(v, block, upto):
    ctx = current()
    ins_list = block._instructions
    m = z3.Int(fresh_name("pm"))
    im = ctx.ex.list_get(ins_list, m, ctx.st).term
    return z3.ForAll([m], z3.Implies(z3.And(m >= 0, m < upto), passes(v, im)))


def bc_inner(self, kterm):
    return inner_of(self._block_contexts, kterm)


def cell_ok(self, kterm, block, v, upto):
    """P(k, m): the cell _block_contexts[k][block] exists and admits every visit that gets past the first m instructions"""
    ctx = current()
    key = VStr(kterm)
    cell = VAbs(A, dsel(bc_inner(self, kterm), block.term))
    return z3.And(z3.Select(ctx.ex.dict_dom(self._block_contexts, ctx.st), kterm), dhas(bc_inner(self, kterm), block.term),
                  z3.Implies(z3.And(keydef(v, key).term, pass_prefix(v, block, upto)), admits(key, cell, v).term))


def bc_injective(self):
    """different keys of _block_contexts hold different dict objects, all existing already"""
    ctx = current()
    st = ctx.st
    dom, mp = ctx.ex.dict_dom(self._block_contexts, st), ctx.ex.dict_map(self._block_contexts, st)
    k1, k2 = z3.String(fresh_name("ik")), z3.String(fresh_name("ik"))
    return z3.And(z3.ForAll([k1, k2], z3.Implies(z3.And(z3.Select(dom, k1), z3.Select(dom, k2), k1 != k2),
                                                 z3.Select(mp, k1) != z3.Select(mp, k2))),
                  z3.ForAll([k1], z3.Implies(z3.Select(dom, k1), z3.And(z3.Select(mp, k1) > 0, z3.Select(mp, k1) < st.alloc_ptr()))))


def all_cells_ok(self, keys, block, v, upto, upto_keys=None):
    return _all_j(keys, lambda j, k: cell_ok(self, k, block, v, upto), upto_keys)


OUTER = ["D.map:String->Int", "D.dom:String"]
c = contract(G + "_block_level_constraints", params={"self": SELF, "analysis_keys": KEYS, "block": BB}, returns=T.NoneT,
             ghost={"v": VISIT}, modifies=[CELLS, "D.dom:Int"] + OUTER, tags=["C01", "C06", "C07", "C08", "C09", "C10"])
for _k in (1, 2, 3, 4, 5, 6):
    c.loop_havoc[_k] = [CELLS, "D.dom:Int"] + OUTER
requires(c, "injective", lambda self: VBool(bc_injective(self)))
ensures(c, "sound", lambda self, analysis_keys, block, v: VBool(
    all_cells_ok(self, analysis_keys, block, v, current().ex.list_len(block._instructions, current().st).term)),
    note="for every analysis key: the block's cell admits the key's value in every visit of the block that gets past all of its "
         "assert / return / err instructions")
ensures(c, "injective", lambda self: VBool(bc_injective(self)))
invariant(c, 1, "key", lambda it, i, self, analysis_keys, block, v: And(
    i <= Len(it), VBool(bc_injective(self)), VBool(all_cells_ok(self, analysis_keys, block, v, z3.IntVal(0), upto_keys=i.term))),
    label="initialised")
invariant(c, 2, "ins", lambda it, i, self, analysis_keys, block, v: And(
    i <= Len(it), VBool(bc_injective(self)), VBool(all_cells_ok(self, analysis_keys, block, v, i.term))), label="prefix_sound")
for _k in (3, 4, 5, 6):
    invariant(c, _k, "key", lambda it, i, self, analysis_keys, block, v, i_ins: And(
        i <= Len(it), VBool(bc_injective(self)), VBool(all_cells_ok(self, analysis_keys, block, v, i_ins.term + 1))),
        label=f"through_ins_{_k}")
must_fail(c, "admits_every_visit", lambda self, analysis_keys, block, v: VBool(all_cells_ok(self, analysis_keys, block, v, z3.IntVal(0))))

# precision (C03): a block that ends the program unsuccessfully (err, or return of the literal 0) keeps nothing but the null set
from spec.ghost import HASINTLIT, INTLIT   # noqa: E402


def kills(ins_term):
    """the instruction makes every visit of the block unsuccessful: err, or `return` whose operand is the literal 0"""
    ctx = current()
    a0 = arg0_of(ins_term)
    known = IsInstance(a0, "KnownStackValue").term
    K = ctx.ex.ct.cls("KnownStackValue")
    kref = next(v for _, v in a0.alts if v.cls is K)
    lit_ins, _ = ctx.ex.read_field(kref, K, "_ins", ctx.st)
    ret0 = z3.And(_isinst(ins_term, ["Return"]), known, HASINTLIT(lit_ins.term), INTLIT(lit_ins.term) == 0)
    return z3.Or(_isinst(ins_term, ["Err", "TealerCustomErrInstruction"]), ret0)


def killed_prefix(block, upto):
    ctx = current()
    m = z3.Int(fresh_name("km"))
    im = ctx.ex.list_get(block._instructions, m, ctx.st).term
    return z3.Exists([m], z3.And(m >= 0, m < upto, kills(im)))


def cells_null(self, keys, block):
    x = z3.Int(fresh_name("nx"))
    return _all_j(keys, lambda j, k: z3.ForAll([x], z3.Implies(g_(VStr(k), dsel(bc_inner(self, k), block.term), x),
                                                                g_(VStr(k), NULLV(k), x))))


ensures(c, "dead_block_null", lambda self, analysis_keys, block: VBool(z3.Implies(
    killed_prefix(block, current().ex.list_len(block._instructions, current().st).term), cells_null(self, analysis_keys, block))),
    note="a block with an err, or a return of the literal 0, keeps only the null set for every key (no value is reported as "
         "possible on a path that cannot succeed)")
invariant(c, 2, "ins", lambda it, i, self, analysis_keys, block: VBool(z3.Implies(killed_prefix(block, i.term),
                                                                               cells_null(self, analysis_keys, block))), label="dead_so_far")
for _k in (3, 5):
    invariant(c, _k, "key", lambda it, i, self, analysis_keys, block, i_ins: VBool(z3.Implies(
        killed_prefix(block, i_ins.term), cells_null(self, analysis_keys, block))), label=f"dead_kept_{_k}")


def _cells_null_upto(self, keys, block, upto):
    x = z3.Int(fresh_name("nx"))
    return _all_j(keys, lambda j, k: z3.ForAll([x], z3.Implies(g_(VStr(k), dsel(bc_inner(self, k), block.term), x),
                                                                g_(VStr(k), NULLV(k), x))), upto=upto)


for _k in (4, 6):
    invariant(c, _k, "key", lambda it, i, self, analysis_keys, block, i_ins: VBool(z3.And(
        z3.Implies(killed_prefix(block, i_ins.term), cells_null(self, analysis_keys, block)),
        _cells_null_upto(self, analysis_keys, block, i.term))), label=f"nulled_{_k}")


# ---- _update_gtxn_constraints -----------------------------------------------------------------------------------------------
import contracts.detectors as _det          # noqa: E402  (Function.transaction_context, field types of the context)
from spec.keys import valid_key, key_kind   # noqa: E402
GKF = z3.Function("GKF", z3.IntSort(), z3.StringSort(), z3.StringSort())   # the key of `gtxn <i> <field>` information
KH = "tealer/analyses/dataflow/transaction_context/utils/key_helpers.py::"
ensures(REGISTRY[KH + "get_gtxn_at_index_key"], "name", lambda idx, base_key, result: VBool(result.term == GKF(idx.term, base_key.term)),
        naming=True)


def own_indices(self, block):
    """the list function.transaction_context(block).group_indices"""
    return _det.ctx_of(fn_of(self), block).group_indices


def _in_list(lst, t):
    ctx = current()
    j = z3.Int(fresh_name("gj"))
    n = ctx.ex.list_len(lst, ctx.st).term
    return z3.Exists([j], z3.And(j >= 0, j < n, ctx.ex.list_get(lst, j, ctx.st).term == t))


def bc_cell(self, kterm, block, st=None):
    return dsel(inner_of(self._block_contexts, kterm, st), block.term, st)


def gtxn_cell_post(self, kterm, ind, block, old):
    """the cell of GKF(ind, k) after the call, in terms of the entry heap"""
    x = z3.Int(fresh_name("gx"))
    gk = GKF(ind, kterm)
    new = g_(VStr(gk), bc_cell(self, gk, block), x)
    both = z3.And(g_(VStr(gk), bc_cell(self, gk, block, old.st), x), g_(VStr(gk), bc_cell(self, kterm, block, old.st), x))
    return z3.ForAll([x], new == z3.If(_in_list(own_indices(self, block), ind), both, g_(VStr(gk), NULLV(gk), x)))


def gtxn_written(self, keys, block, d, b, upto_keys, cur_key=None, upto_ind=None):
    ind = z3.Int(fresh_name("wi"))
    mp = current().ex.dict_map(self._block_contexts, current().st)
    full = _some_j(keys, lambda j, k: z3.Exists([ind], z3.And(ind >= 0, ind < 16, d == z3.Select(mp, GKF(ind, k)))), upto_keys)
    if cur_key is not None:
        full = z3.Or(full, z3.Exists([ind], z3.And(ind >= 0, ind < upto_ind, d == z3.Select(mp, GKF(ind, cur_key)))))
    return z3.And(b == block.term, full)


def gtxn_frame(self, keys, block, old, cur_st, upto_keys=None, cur_key=None, upto_ind=None):
    d, b = z3.Int(fresh_name("fd")), z3.Int(fresh_name("fb"))
    return z3.ForAll([d, b], z3.Implies(z3.Not(gtxn_written(self, keys, block, d, b, upto_keys, cur_key, upto_ind)),
                                        z3.Select(z3.Select(_cells(cur_st), d), b) == z3.Select(z3.Select(_cells(old.st), d), b)))


def gtxn_pre(self, keys, block):
    ctx = current()
    st = ctx.st
    dom = ctx.ex.dict_dom(self._block_contexts, st)
    ind = z3.Int(fresh_name("pi"))

    def one(j, k):
        gk = GKF(ind, k)
        return z3.And(valid_key(VStr(k)).term, key_kind(VStr(k)).term == 0, z3.Select(dom, k), dhas(inner_of(self._block_contexts, k), block.term),
                      z3.ForAll([ind], z3.Implies(z3.And(ind >= 0, ind < 16),
                                                  z3.And(z3.Select(dom, gk), dhas(inner_of(self._block_contexts, gk), block.term)))))
    return VBool(_all_j(keys, one))


c = contract(G + "_update_gtxn_constraints", params={"self": SELF, "keys_with_gtxn": KEYS, "block": BB}, returns=T.NoneT,
             modifies=[CELLS], tags=["C06", "C07", "C08", "C09", "C10"])
c.loop_havoc = {1: [CELLS], 2: [CELLS]}
requires(c, "has_context", lambda self, block: _det.has_ctx(fn_of(self), block))
requires(c, "injective", lambda self: VBool(bc_injective(self)))
requires(c, "cells_exist", lambda self, keys_with_gtxn, block: gtxn_pre(self, keys_with_gtxn, block))


def _gkf_view():
    """the `view` clause of get_gtxn_at_index_key's contract (exhaustively checked over the key space, bounded/keyspace.py),
    for every position and base key"""
    from spec.keys import KEYKIND, KEYIDX, KEYBASE, valid_key_term
    i, k = z3.Int("vi"), z3.String("vk")
    g = GKF(i, k)
    return VBool(z3.ForAll([i, k], z3.Implies(z3.And(i >= 0, i < 16, valid_key_term(k), KEYKIND(k) == 0),
                                              z3.And(valid_key_term(g), KEYKIND(g) == 1, KEYIDX(g) == i, KEYBASE(g) == k)),
                           patterns=[GKF(i, k)]))


assumes(c, "gtxn_key_view", lambda: _gkf_view())
ensures(c, "cells", lambda self, keys_with_gtxn, block, old: VBool(_all_j(keys_with_gtxn, lambda j, k: z3.ForAll(
    [z3.Int("ci")], z3.Implies(z3.And(z3.Int("ci") >= 0, z3.Int("ci") < 16), gtxn_cell_post(self, k, z3.Int("ci"), block, old))))),
    note="for every base key k and position i: the cell of `gtxn i k` keeps gamma(old cell) n gamma(cell of k) if i is a possible "
         "own index of the block, and the null set otherwise")
ensures(c, "frame", lambda self, keys_with_gtxn, block, old, new: VBool(gtxn_frame(self, keys_with_gtxn, block, old, new.st)))
invariant(c, 1, "key", lambda it, i: i <= Len(it), label="index")
invariant(c, 1, "key", lambda it, i, self, keys_with_gtxn, block, entry: VBool(_all_j(keys_with_gtxn, lambda j, k: z3.ForAll(
    [z3.Int("ci")], z3.Implies(z3.And(z3.Int("ci") >= 0, z3.Int("ci") < 16), gtxn_cell_post(self, k, z3.Int("ci"), block, entry))),
    upto=i.term)), label="keys_done")
invariant(c, 1, "key", lambda it, i, self, keys_with_gtxn, block, entry, cur: VBool(
    gtxn_frame(self, keys_with_gtxn, block, entry, cur.st, upto_keys=i.term)), label="frame_so_far")
invariant(c, 2, "ind", lambda it, i: i <= Len(it), label="index2")
invariant(c, 2, "ind", lambda it, i, self, keys_with_gtxn, block, entry, i_key: VBool(_all_j(keys_with_gtxn, lambda j, k: z3.ForAll(
    [z3.Int("ci")], z3.Implies(z3.And(z3.Int("ci") >= 0, z3.Int("ci") < 16), gtxn_cell_post(self, k, z3.Int("ci"), block, entry))),
    upto=i_key.term)), label="keys_done2")
invariant(c, 2, "ind", lambda it, i, self, key, block, entry: VBool(z3.ForAll(
    [z3.Int("ci")], z3.Implies(z3.And(z3.Int("ci") >= 0, z3.Int("ci") < i.term), gtxn_cell_post(self, key.term, z3.Int("ci"), block, entry)))),
    label="positions_done")
invariant(c, 2, "ind", lambda it, i, self, keys_with_gtxn, key, block, entry, cur, i_key: VBool(
    gtxn_frame(self, keys_with_gtxn, block, entry, cur.st, upto_keys=i_key.term, cur_key=key.term, upto_ind=i.term)), label="frame_so_far2")
must_fail(c, "cells_unchanged", lambda old, new: VBool(_cells(new.st) == _cells(old.st)))


# ---- _path_level_constraints ------------------------------------------------------------------------------------------------
PATHS = T.Dict(T.Str, T.Dict(BB, T.Dict(BB, A)), default=True)
MIDS = "D.map:Int->Int"                     # successor -> (predecessor -> value) dicts


def p_mid(self, kterm, st=None):
    ctx = current()
    return VDict(BB, T.Dict(BB, A), z3.Select(ctx.ex.dict_map(self._path_contexts, st or ctx.st), kterm))


def p_inner(self, kterm, succ, st=None):
    ctx = current()
    return VDict(BB, A, z3.Select(ctx.ex.dict_map(p_mid(self, kterm, st), st or ctx.st), succ))


def p_present(self, kterm, succ, block):
    ctx = current()
    return z3.And(z3.Select(ctx.ex.dict_dom(self._path_contexts, ctx.st), kterm), dhas(p_mid(self, kterm), succ),
                  dhas(p_inner(self, kterm, succ), block.term))


def p_cell(self, kterm, succ, block):
    return dsel(p_inner(self, kterm, succ), block.term)


def p_tree(self):
    """the path-context structure is a tree of distinct dict objects, all existing, none shared with the block contexts"""
    ctx = current()
    st = ctx.st
    dom, mp = ctx.ex.dict_dom(self._path_contexts, st), ctx.ex.dict_map(self._path_contexts, st)
    ddom = st.harr("D.dom:Int", z3.IntSort(), z3.ArraySort(z3.IntSort(), z3.BoolSort()))
    mid = st.harr(MIDS, z3.IntSort(), z3.ArraySort(z3.IntSort(), z3.IntSort()))
    k1, k2 = z3.String(fresh_name("tk")), z3.String(fresh_name("tk"))
    s1, s2 = z3.Int(fresh_name("ts")), z3.Int(fresh_name("ts"))
    top = st.alloc_ptr()
    m1, m2 = z3.Select(mp, k1), z3.Select(mp, k2)
    i1, i2 = z3.Select(z3.Select(mid, m1), s1), z3.Select(z3.Select(mid, m2), s2)
    p1, p2 = z3.And(z3.Select(dom, k1), z3.Select(z3.Select(ddom, m1), s1)), z3.And(z3.Select(dom, k2), z3.Select(z3.Select(ddom, m2), s2))
    return z3.And(
        self._path_contexts.ref != self._block_contexts.ref,
        z3.ForAll([k1], z3.Implies(z3.Select(dom, k1), z3.And(m1 > 0, m1 < top))),
        z3.ForAll([k1, k2], z3.Implies(z3.And(z3.Select(dom, k1), z3.Select(dom, k2), k1 != k2), m1 != m2)),
        z3.ForAll([k1, s1], z3.Implies(p1, z3.And(i1 > 0, i1 < top))),
        z3.ForAll([k1, s1, k2], z3.Implies(z3.And(p1, z3.Select(dom, k2)), i1 != m2)),
        z3.ForAll([k1, s1, k2, s2], z3.Implies(z3.And(p1, p2, z3.Or(k1 != k2, s1 != s2)), i1 != i2)))


def takes_jump(block, v):
    """visit v leaves the block through the jump edge of its bz / bnz"""
    e = exit_ins(block)
    a0 = arg0_of(e.term)
    nzv = nzq(v, a0).term
    return z3.If(_isinst(e.term, ["BZ"]), z3.Not(nzv), nzv)


def branch_known(block):
    e = exit_ins(block)
    return z3.And(_isinst(e.term, ["BZ", "BNZ"]), IsInstance(arg0_of(e.term), "KnownStackValue").term)


def p_edges_exist(self, keys, block, upto=None, inner_upto=None, cur_key=None):
    f, b = fn_of(self).term, block.term
    m = z3.Int(fresh_name("em"))

    def all_succ(k, bound):
        return z3.ForAll([m], z3.Implies(z3.And(m >= 0, m < bound), p_present(self, k, NBG_AT(f, b, m), block)))
    base = _all_j(keys, lambda j, k: all_succ(k, NBG_LEN(f, b)), upto)
    if cur_key is not None:
        base = z3.And(base, all_succ(cur_key, inner_upto))
    return base


def p_edges_top(self, keys, block, upto=None, inner_upto=None, cur_key=None):
    f, b = fn_of(self).term, block.term
    m, x = z3.Int(fresh_name("em")), z3.Int(fresh_name("ex"))

    def all_succ(k, bound):
        return z3.ForAll([m, x], z3.Implies(z3.And(m >= 0, m < bound), g_(VStr(k), p_cell(self, k, NBG_AT(f, b, m), block), x)))
    base = _all_j(keys, lambda j, k: all_succ(k, NBG_LEN(f, b)), upto)
    if cur_key is not None:
        base = z3.And(base, all_succ(cur_key, inner_upto))
    return base


def p_edge_sound(self, kterm, block, v):
    """the cells of the out-edges admit the visits that take them (known bz / bnz operand)"""
    ctx = current()
    key = VStr(kterm)
    nxt = block._next
    n = ctx.ex.list_len(nxt, ctx.st).term
    n0, n1 = ctx.ex.list_get(nxt, 0, ctx.st).term, ctx.ex.list_get(nxt, 1, ctx.st).term
    e = exit_ins(block)
    E = ctx.ex.ct.cls("Instruction")
    enext, _ = ctx.ex.read_field(VRef(e.term, E, ctx.ex), E, "_next", ctx.st)
    en = ctx.ex.list_len(enext, ctx.st).term
    jump = takes_jump(block, v)
    kd = keydef(v, key).term

    def adm(succ):
        return admits(key, VAbs(A, p_cell(self, kterm, succ, block)), v).term
    same_target = z3.And(n == 1, en == 2)
    return z3.And(
        z3.Implies(z3.And(kd, same_target), adm(n0)),
        z3.Implies(z3.And(kd, n == 1, z3.Not(same_target), jump), adm(n0)),
        z3.Implies(z3.And(kd, n >= 2, jump), adm(n1)),
        z3.Implies(z3.And(kd, n >= 2, z3.Not(jump)), adm(n0)))


c = contract(G + "_path_level_constraints", params={"self": SELF, "analysis_keys": KEYS, "block": BB}, returns=T.NoneT,
             ghost={"v": VISIT}, modifies=[CELLS, "D.dom:Int", MIDS] + OUTER, tags=["C01", "C06", "C07", "C08", "C09", "C10"],
             touch=["block"])
for _k in (1, 2, 3):
    c.loop_havoc[_k] = [CELLS, "D.dom:Int", MIDS] + OUTER
requires(c, "succ_typed", lambda self, block: _blocks_typed(NBG_LEN, NBG_AT, fn_of(self), block))
requires(c, "tree", lambda self: VBool(p_tree(self)))
def _cfg_links(self, block):
    """consequences of the (verified + naming) contracts of is_retsub_block / is_callsub_block / next_blocks_global for this
    block: the named observations are the exit-instruction classes, and a plain block's global successors are block.next"""
    ctx = current()
    f, b = fn_of(self).term, block.term
    e = exit_ins(block)
    nxt = block._next
    n = ctx.ex.list_len(nxt, ctx.st).term
    m = z3.Int(fresh_name("cm"))
    plain = z3.And(z3.Not(block.is_retsub_block.term), z3.Not(block.is_callsub_block.term))
    return VBool(z3.And(block.is_retsub_block.term == _isinst(e.term, ["Retsub"]), block.is_callsub_block.term == _isinst(e.term, ["Callsub"]),
                        z3.Implies(plain, z3.And(NBG_LEN(f, b) == n, z3.ForAll([m], z3.Implies(
                            z3.And(m >= 0, m < n), NBG_AT(f, b, m) == ctx.ex.list_get(nxt, m, ctx.st).term))))))


assumes(c, "cfg_links", lambda self, block: _cfg_links(self, block))
requires(c, "branch_has_target", lambda block: Implies(IsInstance(exit_ins(block), ("BZ", "BNZ")), lambda: Len(block._next) >= 1))   # C04
requires(c, "distinct_successors", lambda block: Implies(Len(block._next) >= 2, lambda: Not(Eq(block._next[0], block._next[1]))))   # C04
ensures(c, "edges_exist", lambda self, analysis_keys, block: VBool(p_edges_exist(self, analysis_keys, block)),
        note="every key has a cell for every out-edge of the block in the global graph")
ensures(c, "unconstrained_edges", lambda self, analysis_keys, block: Implies(Not(VBool(branch_known(block))), lambda: VBool(
    p_edges_top(self, analysis_keys, block))), note="an exit other than bz / bnz on a known operand constrains no edge")
ensures(c, "branch_sound", lambda self, analysis_keys, block, v: Implies(VBool(branch_known(block)), lambda: VBool(
    _all_j(analysis_keys, lambda j, k: p_edge_sound(self, k, block, v)))),
    note="bz / bnz on a known operand: the cell of each out-edge admits the key's value in every visit that takes the edge")
ensures(c, "tree", lambda self: VBool(p_tree(self)))
invariant(c, 1, "key", lambda it, i, self, analysis_keys, block: And(
    i <= Len(it), VBool(p_tree(self)), VBool(p_edges_exist(self, analysis_keys, block, upto=i.term)),
    VBool(p_edges_top(self, analysis_keys, block, upto=i.term))), label="keys_initialised")
invariant(c, 2, "b", lambda it, i, self, analysis_keys, block, key, path_context, i_key: And(
    i <= Len(it), VBool(p_tree(self)), In(key, self._path_contexts), VBool(path_context.ref == p_mid(self, key.term).ref),
    VBool(p_edges_exist(self, analysis_keys, block, upto=i_key.term, inner_upto=i.term, cur_key=key.term)),
    VBool(p_edges_top(self, analysis_keys, block, upto=i_key.term, inner_upto=i.term, cur_key=key.term))), label="edges_initialised")
invariant(c, 3, "key", lambda it, i, self, analysis_keys, block, v: And(
    i <= Len(it), VBool(p_tree(self)), VBool(p_edges_exist(self, analysis_keys, block)),
    VBool(_all_j(analysis_keys, lambda j, k: p_edge_sound(self, k, block, v), upto=i.term))), label="branch_keys_done")
must_fail(c, "all_edges_unconstrained", lambda self, analysis_keys, block: VBool(p_edges_top(self, analysis_keys, block)))
must_fail(c, "jump_cell_admits_fallthrough", lambda self, analysis_keys, block, v: Implies(VBool(branch_known(block)), lambda: VBool(
    _all_j(analysis_keys, lambda j, k: z3.Implies(z3.And(keydef(v, VStr(k)).term, current().ex.list_len(block._next, current().st).term >= 2),
                                                   admits(VStr(k), VAbs(A, p_cell(self, k, current().ex.list_get(block._next, 1, current().st).term, block)), v).term)))))


# quantified invariants: generous solver budgets, so that the verdict on unchanged code does not flip when the machine is busy
for _t in ("_merge_information_forward", "_merge_information_backward", "_block_level_constraints", "_path_level_constraints",
           "_update_gtxn_constraints", "_calculate_reachin", "_calculate_livein"):
    REGISTRY[G + _t].timeout_factor = 4.0
