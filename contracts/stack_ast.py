"""Contracts for tealer/analyses/utils/stack_ast_builder.py (DESIGN.md §6.2; C11 and every analysis)."""
from pyvc.dsl import (contract, requires, ensures, must_fail, invariant, And, Or, Not, Implies, If, Iff, Eq, forall, IsInstance,
                      ForallIdx, ExistsIdx, Len, current)
from pyvc.values import T, V, VBool, VInt, VClass
from spec.avm_axioms import ev
import z3

S = "tealer/analyses/utils/stack_ast_builder.py::"
SV = T.RefU("KnownStackValue", "UnknownStackValue")
VISIT = T.Abs("Visit")


def is_cls(node_ins, name):
    """the class object `node_ins` is exactly the instruction class `name`"""
    if isinstance(node_ins, V):
        from pyvc.loader import class_table
        from pyvc.values import to_term, TCls
        ct = class_table()
        return VBool(to_term(node_ins, TCls(object)) == ct.lo[ct.cls(name)])
    return node_ins.__name__ == name


def nz(v, x):
    return ev(v, x, 1) != 0


def nzq(v, x):
    """as nz, for elements under a quantifier: no axiom instantiation for the (bound) element"""
    return ev(v, x, -1) != 0


# ---- _flatten_ast ---------------------------------------------------------------------------------------------------------
c = contract(S + "_flatten_ast", params={"root": SV, "node_ins": T.Cls("Instruction")}, returns=T.List(SV),
             ghost={"v": VISIT}, tags=["C11", "C01", "C03", "C06", "C07", "C08", "C09"])
requires(c, "node_is_and_or", lambda node_ins: Or(is_cls(node_ins, "And"), is_cls(node_ins, "Or")))
ensures(c, "nonempty", lambda result: Len(result) >= 1)
ensures(c, "and_all", lambda root, node_ins, result, v:
        Implies(is_cls(node_ins, "And"), Iff(nz(v, root), ForallIdx(result, lambda j, x: nzq(v, x)))))
ensures(c, "or_any", lambda root, node_ins, result, v:
        Implies(is_cls(node_ins, "Or"), Iff(nz(v, root), ExistsIdx(result, lambda j, x: nzq(v, x)))))
must_fail(c, "canary", lambda root, node_ins, result, v:
          Implies(is_cls(node_ins, "And"), Iff(nz(v, root), ExistsIdx(result, lambda j, x: nzq(v, x)))))

# ---- compute_equations ------------------------------------------------------------------------------------------------------
c = contract(S + "compute_equations", params={"root": T.Ref("KnownStackValue"), "node_ins": T.Cls("Instruction")},
             returns=T.Tuple(T.List(T.Ref("KnownStackValue")), T.Bool), ghost={"v": VISIT},
             tags=["C11", "C01", "C03", "C06", "C07", "C08", "C09"])
requires(c, "node_is_and_or", lambda node_ins: Or(is_cls(node_ins, "And"), is_cls(node_ins, "Or")))
ensures(c, "and_true", lambda root, node_ins, result, v:
        Implies(And(is_cls(node_ins, "And"), nz(v, root)), ForallIdx(result[0], lambda j, x: nzq(v, x))))
ensures(c, "and_false", lambda root, node_ins, result, v:
        Implies(And(is_cls(node_ins, "And"), Not(nz(v, root)), Not(result[1])), ExistsIdx(result[0], lambda j, x: Not(nzq(v, x)))))
ensures(c, "or_true", lambda root, node_ins, result, v:
        Implies(And(is_cls(node_ins, "Or"), nz(v, root), Not(result[1])), ExistsIdx(result[0], lambda j, x: nzq(v, x))))
ensures(c, "or_false", lambda root, node_ins, result, v:
        Implies(And(is_cls(node_ins, "Or"), Not(nz(v, root))), ForallIdx(result[0], lambda j, x: Not(nzq(v, x)))))
must_fail(c, "canary", lambda root, node_ins, result, v:
          Implies(And(is_cls(node_ins, "And"), Not(nz(v, root))), ExistsIdx(result[0], lambda j, x: Not(nzq(v, x)))))


def _known(x):
    return IsInstance(x, "KnownStackValue")


# loop 1: for eq in equations
invariant(c, 1, "eq", lambda it, i, known_equations, has_unkown_value, v: And(
    i <= Len(it),
    # A: if every equation seen so far is non-zero, so is every collected one
    Implies(ForallIdx(it, lambda j, x: nzq(v, x), upto=i), ForallIdx(known_equations, lambda k, y: nzq(v, y))),
    # B: a known equation seen so far that is zero has been collected
    Implies(ExistsIdx(it, lambda j, x: And(_known(x), Not(nzq(v, x))), upto=i),
            ExistsIdx(known_equations, lambda k, y: Not(nzq(v, y)))),
    # A': conversely for the Or reading
    Implies(ForallIdx(it, lambda j, x: Not(nzq(v, x)), upto=i), ForallIdx(known_equations, lambda k, y: Not(nzq(v, y)))),
    Implies(ExistsIdx(it, lambda j, x: And(_known(x), nzq(v, x)), upto=i), ExistsIdx(known_equations, lambda k, y: nzq(v, y))),
    # C: the flag records exactly whether an unknown value was seen
    Iff(has_unkown_value, ExistsIdx(it, lambda j, x: Not(_known(x)), upto=i))), label="collect")


# ---- Stack.push_n_values / pop_n_values (C11: the emulated stack) -----------------------------------------------------------
from pyvc.execbase import FIELD_TYPES     # noqa: E402
from pyvc.dsl import IsNone, current      # noqa: E402,F811
STACK = T.Ref("Stack")
FIELD_TYPES[("Stack", "_values")] = T.List(SV)


def _fa(vs, body, pattern=None):
    """ForAll with a pattern where z3 accepts it (terms over stored / lambda arrays are not valid patterns)"""
    if pattern is not None:
        try:
            return z3.ForAll(vs, body, patterns=[pattern])
        except z3.Z3Exception:
            pass
    return z3.ForAll(vs, body)


def _raw_elem(lst, j, st):
    """address stored at lst[j] (list elements are references: sort Int)"""
    ctx = current()
    _, el = ctx.ex._elem_arr(st, T.Int)
    return z3.Select(z3.Select(el, lst.ref), j)


def _vals(self_, st=None):
    """(length term, element-at function) of self._values in state st"""
    ctx = current()
    st = st or ctx.st
    K = ctx.ex.ct.cls("Stack")
    from pyvc.values import VRef
    lst, st2 = ctx.ex.read_field(VRef(self_.term, K, ctx.ex), K, "_values", st)
    ctx.st.pc.extend(st2.pc[len(st.pc):])     # typing facts of the read (a stored list exists already: its address is allocated)
    return ctx.ex.list_len(lst, st).term, (lambda j: _raw_elem(lst, j, st)), lst


def _is_unknown(term):
    from pyvc.execbase import TYPEOF
    ct = current().ex.ct
    U = ct.cls("UnknownStackValue")
    return z3.And(TYPEOF(term) >= ct.lo[U], TYPEOF(term) < ct.hi[U])


c = contract(S + "Stack.pop_n_values", params={"self": STACK, "count": T.Int}, returns=T.List(SV), modifies=["F:Stack._values"],
             tags=["C11"])
requires(c, "count_nonneg", lambda count: count >= 0)


def _pop_post(self, count, result, old):
    ctx = current()
    n0, at0, _ = _vals(self, old.st)
    n1, at1, _ = _vals(self, ctx.st)
    rl = ctx.ex.list_len(result, ctx.st).term
    j = z3.Int("pj")
    rj = _raw_elem(result, j, ctx.st)
    c_ = count.term
    missing = z3.If(n0 >= c_, z3.IntVal(0), c_ - n0)
    unk = _is_unknown(rj)
    return VBool(z3.And(
        rl == c_,
        # the popped values keep their order: the last `count` entries, preceded by fresh unknown values if the stack is shorter
        _fa([j], z3.Implies(z3.And(j >= missing, j < c_), rj == at0(n0 - (c_ - j))), rj),
        _fa([j], z3.Implies(z3.And(j >= 0, j < missing), unk), rj),
        # what stays on the stack: the entries below the popped ones, unchanged
        n1 == z3.If(n0 >= c_, n0 - c_, z3.IntVal(0)),
        _fa([j], z3.Implies(z3.And(j >= 0, j < n1), at1(j) == at0(j)), at1(j))))


ensures(c, "pops_top", lambda self, count, result, old: _pop_post(self, count, result, old),
        note="the result holds the top `count` values in stack order (first popped last), padded at the bottom with unknown values; "
             "the remaining stack is the untouched lower part")

c = contract(S + "Stack.push_n_values", params={"self": STACK, "values": T.List(SV)}, returns=T.NoneT,
             modifies=["L.len", "L.elem:Int"], tags=["C11"])


def _push_post(self, values, old):
    ctx = current()
    n0, at0, _ = _vals(self, old.st)
    n1, at1, _ = _vals(self, ctx.st)
    m = old.list_len(values).term
    j = z3.Int("qj")
    return VBool(z3.And(n1 == n0 + m,
                        _fa([j], z3.Implies(z3.And(j >= 0, j < n0), at1(j) == at0(j)), at1(j)),
                        _fa([j], z3.Implies(z3.And(j >= 0, j < m), at1(n0 + j) == _raw_elem(values, j, old.st)), at1(n0 + j))))


requires(c, "separate", lambda self, values: VBool(_vals(self)[2].ref != values.ref))
ensures(c, "appends_in_order", lambda self, values, old: _push_post(self, values, old))
