"""Contracts for tealer/analyses/utils/stack_ast_builder.py (DESIGN.md §6.2; C11 and every analysis)."""
from pyvc.dsl import (contract, requires, ensures, must_fail, invariant, And, Or, Not, Implies, If, Iff, Eq, forall, IsInstance,
                      ForallIdx, ExistsIdx, Len, current)
from pyvc.values import T, V, VBool, VInt, VClass
from spec.avm_axioms import ev
import z3

S = "tealer/analyses/utils/stack_ast_builder.py::"
SV = T.RefU("KnownStackValue", "UnknownStackValue")
VISIT = T.Abs("Visit")


def is_cls(node_ins, name):
    """the class object `node_ins` is exactly the instruction class `name`"""
    if isinstance(node_ins, V):
        from pyvc.loader import class_table
        from pyvc.values import to_term, TCls
        ct = class_table()
        return VBool(to_term(node_ins, TCls(object)) == ct.lo[ct.cls(name)])
    return node_ins.__name__ == name


def nz(v, x):
    return ev(v, x, 1) != 0


def nzq(v, x):
    """as nz, for elements under a quantifier: no axiom instantiation for the (bound) element"""
    return ev(v, x, -1) != 0


# ---- _flatten_ast ---------------------------------------------------------------------------------------------------------
c = contract(S + "_flatten_ast", params={"root": SV, "node_ins": T.Cls("Instruction")}, returns=T.List(SV),
             ghost={"v": VISIT}, tags=["C11", "C01", "C03", "C06", "C07", "C08", "C09"])
requires(c, "node_is_and_or", lambda node_ins: Or(is_cls(node_ins, "And"), is_cls(node_ins, "Or")))
ensures(c, "nonempty", lambda result: Len(result) >= 1)
ensures(c, "and_all", lambda root, node_ins, result, v:
        Implies(is_cls(node_ins, "And"), Iff(nz(v, root), ForallIdx(result, lambda j, x: nzq(v, x)))))
ensures(c, "or_any", lambda root, node_ins, result, v:
        Implies(is_cls(node_ins, "Or"), Iff(nz(v, root), ExistsIdx(result, lambda j, x: nzq(v, x)))))
must_fail(c, "canary", lambda root, node_ins, result, v:
          Implies(is_cls(node_ins, "And"), Iff(nz(v, root), ExistsIdx(result, lambda j, x: nzq(v, x)))))

# ---- compute_equations ------------------------------------------------------------------------------------------------------
c = contract(S + "compute_equations", params={"root": T.Ref("KnownStackValue"), "node_ins": T.Cls("Instruction")},
             returns=T.Tuple(T.List(T.Ref("KnownStackValue")), T.Bool), ghost={"v": VISIT},
             tags=["C11", "C01", "C03", "C06", "C07", "C08", "C09"])
requires(c, "node_is_and_or", lambda node_ins: Or(is_cls(node_ins, "And"), is_cls(node_ins, "Or")))
ensures(c, "and_true", lambda root, node_ins, result, v:
        Implies(And(is_cls(node_ins, "And"), nz(v, root)), ForallIdx(result[0], lambda j, x: nzq(v, x))))
ensures(c, "and_false", lambda root, node_ins, result, v:
        Implies(And(is_cls(node_ins, "And"), Not(nz(v, root)), Not(result[1])), ExistsIdx(result[0], lambda j, x: Not(nzq(v, x)))))
ensures(c, "or_true", lambda root, node_ins, result, v:
        Implies(And(is_cls(node_ins, "Or"), nz(v, root), Not(result[1])), ExistsIdx(result[0], lambda j, x: nzq(v, x))))
ensures(c, "or_false", lambda root, node_ins, result, v:
        Implies(And(is_cls(node_ins, "Or"), Not(nz(v, root))), ForallIdx(result[0], lambda j, x: Not(nzq(v, x)))))
must_fail(c, "canary", lambda root, node_ins, result, v:
          Implies(And(is_cls(node_ins, "And"), Not(nz(v, root))), ExistsIdx(result[0], lambda j, x: Not(nzq(v, x)))))


def _known(x):
    return IsInstance(x, "KnownStackValue")


# loop 1: for eq in equations
invariant(c, 1, "eq", lambda it, i, known_equations, has_unkown_value, v: And(
    i <= Len(it),
    # A: if every equation seen so far is non-zero, so is every collected one
    Implies(ForallIdx(it, lambda j, x: nzq(v, x), upto=i), ForallIdx(known_equations, lambda k, y: nzq(v, y))),
    # B: a known equation seen so far that is zero has been collected
    Implies(ExistsIdx(it, lambda j, x: And(_known(x), Not(nzq(v, x))), upto=i),
            ExistsIdx(known_equations, lambda k, y: Not(nzq(v, y)))),
    # A': conversely for the Or reading
    Implies(ForallIdx(it, lambda j, x: Not(nzq(v, x)), upto=i), ForallIdx(known_equations, lambda k, y: Not(nzq(v, y)))),
    Implies(ExistsIdx(it, lambda j, x: And(_known(x), nzq(v, x)), upto=i), ExistsIdx(known_equations, lambda k, y: nzq(v, y))),
    # C: the flag records exactly whether an unknown value was seen
    Iff(has_unkown_value, ExistsIdx(it, lambda j, x: Not(_known(x)), upto=i))), label="collect")
