"""Contracts for addr_fields.py (DESIGN.md §6.6; C08, C01, C03)."""
from pyvc.dsl import (contract, requires, ensures, must_fail, And, Or, Not, Implies, If, Iff, Eq, forall, exists,
                      IsInstance, In)
from pyvc.values import T, V, VInt, VBool
from spec.avm_axioms import ev
from spec.ghost import keydef, keyfld, is_field_read
from spec.gamma import wf_addr, in_gamma_addr, ANY_ADDRESS, NO_ADDRESS, CREATOR_ADDRESS, REAL_ZERO_ADDRESS
import contracts.helpers  # noqa: F401
from contracts.fee_field import _known_ins, _arg

F = "tealer/analyses/dataflow/transaction_context/addr_fields.py::AddrFields."
VISIT = T.Abs("Visit")
SSET = T.Set(T.Str)
SAMPLE_ADDRS = ["ADDR_X", "ADDR_Y", "CREATORADDR", "ATTACKER"]


def nonzero(a, v):
    """a is (the code of) a non-zero address"""
    if isinstance(a, V):
        import z3
        from spec.avm_axioms import ADDRCODE
        return VBool(a.term != ADDRCODE(z3.StringVal(REAL_ZERO_ADDRESS)))
    return a != REAL_ZERO_ADDRESS


def creator_distinct(S, v):
    """assumption A-creator (the property's valuation classes: zero, each literal, creator, fresh): the creator address
    is not one of the literals the program names"""
    if isinstance(S, V):
        import z3
        from spec.avm_axioms import ADDRCODE, CREATOR
        s = z3.String("cd!s")
        return VBool(z3.ForAll([s], z3.Implies(z3.Select(S.term, s), ADDRCODE(s) != CREATOR(v.term))))
    return v.creator not in S


for op in ("_union", "_intersection"):
    c = contract(F + op, params={"self": T.Ref("AddrFields"), "key": T.Str, "a": SSET, "b": SSET}, returns=SSET,
                 ghost={"v": VISIT}, tags=["C08", "C01", "C03"])
    def _samples():
        from tealer.analyses.dataflow.transaction_context.addr_fields import AddrFields
        me = AddrFields.__new__(AddrFields)
        pool = [{"ANY_ADDRESS"}, {"NO_ADDRESS"}, {"ADDR_X"}, {"ADDR_Y"}, {"ADDR_X", "ADDR_Y"}, {"CREATOR_ADDRESS"},
                {"ADDR_X", "CREATOR_ADDRESS"}]
        for x in pool:
            for y in pool:
                yield {"self": me, "key": "RekeyTo", "a": set(x), "b": set(y)}
    c.samples = _samples
    requires(c, "wf_a", lambda a: wf_addr(a))
    requires(c, "wf_b", lambda b: wf_addr(b))
    requires(c, "creator_distinct", lambda a, b, v: And(creator_distinct(a, v), creator_distinct(b, v)))
    ensures(c, "wf", lambda result: wf_addr(result))
    ensures(c, "creator_distinct", lambda result, v: creator_distinct(result, v))
    if op == "_union":
        ensures(c, "gamma_union", lambda a, b, result, v: forall(T.Int, lambda x:
                Iff(in_gamma_addr(result, x, v), Or(in_gamma_addr(a, x, v), in_gamma_addr(b, x, v))), sample=SAMPLE_ADDRS))
        must_fail(c, "canary", lambda a, b, result, v: forall(T.Int, lambda x:
                  Iff(in_gamma_addr(result, x, v), And(in_gamma_addr(a, x, v), in_gamma_addr(b, x, v))), sample=SAMPLE_ADDRS))
    else:
        ensures(c, "gamma_inter", lambda a, b, result, v: forall(T.Int, lambda x:
                Iff(in_gamma_addr(result, x, v), And(in_gamma_addr(a, x, v), in_gamma_addr(b, x, v))), sample=SAMPLE_ADDRS))
        must_fail(c, "canary", lambda a, b, result, v: forall(T.Int, lambda x:
                  Iff(in_gamma_addr(result, x, v), Or(in_gamma_addr(a, x, v), in_gamma_addr(b, x, v))), sample=SAMPLE_ADDRS))


def _const_addr_ins(ins):
    """the comparand is one of the constants the claim covers: addr literal, global ZeroAddress, global CreatorAddress"""
    if isinstance(ins, V):
        from contracts.int_fields import _fld_is
        return Or(IsInstance(ins, "Addr"), And(IsInstance(ins, "Global"), Or(_gfld(ins, "ZeroAddress"), _gfld(ins, "CreatorAddress"))))
    k = type(ins).__name__
    return k == "Addr" or (k == "Global" and type(ins.field).__name__ in ("ZeroAddress", "CreatorAddress"))


def _gfld(ins, fcls):
    from pyvc.dsl import current
    from pyvc.loader import class_table
    from pyvc.values import VRef
    ex, st = current().ex, current().st
    C = class_table().cls("Global")
    fv, st2 = ex.read_field(VRef(ins.term, C, ex), C, "_field", st)
    st.pc[:] = st2.pc
    return IsInstance(fv, fcls)


def _val0(v, ins):
    """value pushed by a constant-address instruction"""
    if isinstance(ins, V):
        from spec.avm_axioms import VAL, const_addr_ins_axioms
        from pyvc.dsl import current
        ctx = current()
        ctx.st.pc.extend(const_addr_ins_axioms(ctx.ex, ctx.st, ins.term, v.term))
        return VInt(VAL(v.term, ins.term, 0))
    from spec.native import native_ev
    from tealer.analyses.utils.stack_ast_builder import KnownStackValue
    return native_ev(v, KnownStackValue(ins, []))


# ---- _get_asserted_address -------------------------------------------------------------------------------------------
c = contract(F + "_get_asserted_address", params={"self": T.Ref("AddrFields"), "ins": T.Ref("Instruction")}, returns=SSET,
             ghost={"v": VISIT}, tags=["C08", "C01", "C03"])
ensures(c, "wf", lambda result: wf_addr(result))
TEALER_ZERO_LITERAL = "AAAAAAAAAAAAAAAAAAAAAAAAAAAAAAAAAAAAAAAAAAAAEVAL4QAJS7JHB4"   # not the AVM zero address (key 10**10)


def _is_d19_ins(ins):
    """D19: `addr <tealer's ZERO_ADDRESS constant>`; that literal is a non-zero address but is treated as the zero address.
    Pinned by tests/detectors/rekeyto.py etc. (they use the literal as 'zero'): listed finding."""
    if isinstance(ins, V):
        from pyvc.dsl import current
        from pyvc.loader import class_table
        from pyvc.values import VRef
        ex, st = current().ex, current().st
        C = class_table().cls("Addr")
        ad, st2 = ex.read_field(VRef(ins.term, C, ex), C, "_addr", st)
        st.pc[:] = st2.pc
        return And(IsInstance(ins, "Addr"), Eq(ad, TEALER_ZERO_LITERAL))
    return type(ins).__name__ == "Addr" and ins.addr == TEALER_ZERO_LITERAL


ensures(c, "singleton_sound", lambda ins, result, v:
        Implies(And(_const_addr_ins(ins), nonzero(_val0(v, ins), v)), in_gamma_addr(result, _val0(v, ins), v)),
        note="the set returned for a constant comparand admits that constant", known={"D19": lambda ins: _is_d19_ins(ins)})
ensures(c, "singleton_exact", lambda ins, result, v:
        Implies(_const_addr_ins(ins), forall(T.Int, lambda x: Implies(And(nonzero(x, v), in_gamma_addr(result, x, v)),
                                                                      Eq(x, _val0(v, ins))), sample=SAMPLE_ADDRS)))
ensures(c, "not_any", lambda result: Not(In(ANY_ADDRESS, result)))


def _sv_axioms_for_ins(ins):
    return True


# ---- _get_asserted_txn_gtxn -------------------------------------------------------------------------------------------
c = contract(F + "_get_asserted_txn_gtxn", params={"self": T.Ref("AddrFields"), "key": T.Str,
                                                   "ins_stack_value": T.Ref("KnownStackValue")},
             returns=T.Tuple(SSET, SSET), ghost={"v": VISIT}, touch=["ins_stack_value"], tags=["C08", "C01", "C03"])


def _claim_scope(key, sv):
    """comparisons of the key's field with a constant (either operand order), or anything that is not such a comparison"""
    a0, a1 = _arg(sv, 0), _arg(sv, 1)
    def const_cmp(fa, ca):
        return And(IsInstance(fa, "KnownStackValue"), IsInstance(ca, "KnownStackValue"), is_field_read(key, fa),
                   _const_addr_ins(_known_ins(ca)))
    def field_any(fa):
        return And(IsInstance(fa, "KnownStackValue"), is_field_read(key, fa))
    return Or(Not(IsInstance(sv.instruction, ("Eq", "Neq"))), const_cmp(a0, a1), const_cmp(a1, a0),
              And(Not(field_any(a0)), Not(field_any(a1))))


from spec.keys import valid_key, key_base
import contracts.key_helpers  # noqa: F401
requires(c, "valid_key", lambda key: And(valid_key(key), Or(*[Eq(key_base(key), b) for b in
                                                              ("RekeyTo", "CloseRemainderTo", "AssetCloseTo", "Sender")])))
c.axiom_sets = {"addr"}
ensures(c, "wf", lambda result: And(wf_addr(result[0]), wf_addr(result[1])))
def _d19_sv(ins_stack_value):
    a0, a1 = _arg(ins_stack_value, 0), _arg(ins_stack_value, 1)
    def lit(x):
        i = _known_ins(x)
        return And(IsInstance(x, "KnownStackValue"), _is_d19_ins(i)) if i is not None else False
    return Or(lit(a0), lit(a1))


ensures(c, "true_sound", lambda key, ins_stack_value, result, v:
        Implies(And(keydef(v, key), _claim_scope(key, ins_stack_value), nonzero(keyfld(v, key), v),
                    ev(v, ins_stack_value) != 0), in_gamma_addr(result[0], keyfld(v, key), v)), tags=["C08", "C01"],
        known={"D19": _d19_sv})
ensures(c, "false_sound", lambda key, ins_stack_value, result, v:
        Implies(And(keydef(v, key), _claim_scope(key, ins_stack_value), nonzero(keyfld(v, key), v),
                    ev(v, ins_stack_value) == 0), in_gamma_addr(result[1], keyfld(v, key), v)), tags=["C08", "C01"],
        known={"D19": _d19_sv})


def _direct_eq(key, sv, pos):
    a0, a1 = _arg(sv, 0), _arg(sv, 1)
    fa, ca = (a0, a1) if pos == 0 else (a1, a0)
    return And(IsInstance(sv.instruction, ("Eq", "Neq")), IsInstance(a0, "KnownStackValue"), IsInstance(a1, "KnownStackValue"),
               is_field_read(key, fa), Not(is_field_read(key, ca)), _const_addr_ins(_known_ins(ca)))


ensures(c, "compared_not_any", lambda key, ins_stack_value, result:
        Implies(Or(_direct_eq(key, ins_stack_value, 0), _direct_eq(key, ins_stack_value, 1)),
                And(Implies(IsInstance(ins_stack_value.instruction, "Eq"), Not(In(ANY_ADDRESS, result[0]))),
                    Implies(IsInstance(ins_stack_value.instruction, "Neq"), Not(In(ANY_ADDRESS, result[1]))))),
        tags=["C08", "C03"], note="converse clause of C08: a field compared with a constant is not 'any address' on that branch")
must_fail(c, "canary", lambda key, ins_stack_value, result, v:
          Implies(And(keydef(v, key), nonzero(keyfld(v, key), v), ev(v, ins_stack_value) != 0),
                  in_gamma_addr(result[1], keyfld(v, key), v) == in_gamma_addr(result[0], keyfld(v, key), v)))
