"""AddrFields._set_addr_values (C08): how a computed address set is shown in a context's AddrFieldValue.  (The loops of
AddrFields._store_results that call it are not under contract: DESIGN.md §12.2 "not built".)"""
from pyvc.dsl import contract, requires, ensures, must_fail, And, Or, Not, Iff, Eq, In, current
from pyvc.values import T, VBool, VStr, sort_of, fresh_name
import z3

AF = "tealer/analyses/dataflow/transaction_context/addr_fields.py::AddrFields."
AV = T.Ref("AddrFieldValue")
SSET = T.Set(T.Str)


def _bag(lst, st):
    es = sort_of(T.Str)
    bag = st.harr(f"L.bag:{es}", z3.IntSort(), z3.ArraySort(es, z3.IntSort()))
    return z3.Select(bag, lst)


def _shown(ctx_addr_value, addr_values):
    """the three attributes after the call, in terms of the set"""
    from pyvc.values import V
    if not isinstance(ctx_addr_value, V):      # native evaluation on the real objects (replay)
        rest = set(addr_values) - {"ANY_ADDRESS", "NO_ADDRESS"}
        return (ctx_addr_value.any_addr == ("ANY_ADDRESS" in addr_values) and ctx_addr_value.no_addr == ("NO_ADDRESS" in addr_values)
                and sorted(ctx_addr_value.possible_addr) == sorted(rest))
    ctx = current()
    st = ctx.st
    K = ctx.ex.ct.cls("AddrFieldValue")
    anyf, _ = ctx.ex.read_field(ctx_addr_value, K, "any_addr", st)
    nof, _ = ctx.ex.read_field(ctx_addr_value, K, "no_addr", st)
    lst, _ = ctx.ex.read_field(ctx_addr_value, K, "possible_addr", st)
    s_ = addr_values.term
    x = z3.String(fresh_name("ax"))
    ANY, NO = z3.StringVal("ANY_ADDRESS"), z3.StringVal("NO_ADDRESS")
    return VBool(z3.And(anyf.term == z3.Select(s_, ANY), nof.term == z3.Select(s_, NO),
                        z3.ForAll([x], z3.Select(_bag(lst.ref, st), x) == z3.If(z3.And(z3.Select(s_, x), x != ANY, x != NO), 1, 0))))


c = contract(AF + "_set_addr_values", params={"ctx_addr_value": AV, "addr_values": SSET}, returns=T.NoneT,
             modifies=["F:AddrFieldValue.any_addr", "F:AddrFieldValue.no_addr", "F:AddrFieldValue.possible_addr", "L.bag:String"],
             tags=["C08", "C13"])
c.allocates = True
c.field_types = {("AddrFieldValue", "any_addr"): T.Bool, ("AddrFieldValue", "no_addr"): T.Bool,
                 ("AddrFieldValue", "possible_addr"): T.List(T.Str, "bag")}
c.axiom_bags = True
ensures(c, "shown", lambda ctx_addr_value, addr_values: _shown(ctx_addr_value, addr_values),
        note="any_addr / no_addr are raised exactly when the markers are in the set; possible_addr lists every other member exactly once")


def _others_untouched(ctx_addr_value, old, new):
    r = z3.Int(fresh_name("or"))
    parts = []
    for f, srt in (("any_addr", z3.BoolSort()), ("no_addr", z3.BoolSort()), ("possible_addr", z3.IntSort())):
        a0 = old.st.harr(f"F:AddrFieldValue.{f}", z3.IntSort(), srt)
        a1 = new.st.harr(f"F:AddrFieldValue.{f}", z3.IntSort(), srt)
        parts.append(z3.ForAll([r], z3.Implies(r != ctx_addr_value.term, z3.Select(a1, r) == z3.Select(a0, r))))
    return VBool(z3.And(parts))


ensures(c, "frame", lambda ctx_addr_value, old, new: _others_untouched(ctx_addr_value, old, new),
        note="no other address record is written")


def _fresh_list(ctx_addr_value, old, new):
    """possible_addr is a new list; the lists that existed before keep their contents"""
    ctx = current()
    K = ctx.ex.ct.cls("AddrFieldValue")
    lst = z3.Select(new.st.harr("F:AddrFieldValue.possible_addr", z3.IntSort(), z3.IntSort()), ctx_addr_value.term)
    es = sort_of(T.Str)
    b0 = old.st.harr(f"L.bag:{es}", z3.IntSort(), z3.ArraySort(es, z3.IntSort()))
    b1 = new.st.harr(f"L.bag:{es}", z3.IntSort(), z3.ArraySort(es, z3.IntSort()))
    r = z3.Int(fresh_name("fr"))
    return VBool(z3.And(lst >= old.st.alloc_ptr(), lst < new.st.alloc_ptr(),
                        z3.ForAll([r], z3.Implies(r < old.st.alloc_ptr(), z3.Select(b1, r) == z3.Select(b0, r)))))


ensures(c, "fresh_list", lambda ctx_addr_value, old, new: _fresh_list(ctx_addr_value, old, new),
        note="the list of possible addresses is a new object; existing lists are not written")


def _samples():
    from tealer.teal.context.block_transaction_context import AddrFieldValue
    addrs = ["A" * 58, "B" * 58]
    for members in ([], ["ANY_ADDRESS"], ["NO_ADDRESS"], ["ANY_ADDRESS", "NO_ADDRESS"], [addrs[0]], [addrs[0], "NO_ADDRESS"],
                    [addrs[0], addrs[1], "ANY_ADDRESS"], addrs + ["ANY_ADDRESS", "NO_ADDRESS"]):
        yield {"ctx_addr_value": AddrFieldValue(), "addr_values": set(members)}
        yield {"ctx_addr_value": AddrFieldValue(any_addr=False, no_addr=True, possible_addr=["x"]), "addr_values": set(members)}


c.samples = _samples
