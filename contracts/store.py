"""Contract of FeeField._store_results (DESIGN.md §12.5; C09): what the detectors read (`max_fee`, `max_fee_unknown` of the own,
per-index, absolute and relative contexts of every block) is what the analysis computed.

Separation is stated through an *owner* view: OWN_B / OWN_K / OWN_I name, for every context object, the block it belongs to, its
kind (0 own, 1 gtxn-at-index, 2 absolute, 3 relative) and its index / offset.  A context structure in which these functions exist
is a forest without sharing (different (block, kind, index) => different objects), which is what BlockTransactionContext.__init__
and Function.__init__ build (one fresh context per block, fresh tail contexts per context).
"""
from pyvc.dsl import (contract, requires, assumes, ensures, must_fail, invariant, And, Or, Not, Implies, If, Iff, Eq, In, IsNone, Len,
                      ForallIdx, current)
from pyvc.values import T, V, VBool, VInt, VRef, VStr, VDict, fresh_name
import contracts.detectors as det
import contracts.engine as eng
from contracts.engine import fn_of, inner_of, dsel, dhas, GKF
from pyvc.dsl import REGISTRY
import z3

def FA(vs, body, pat=None):
    if pat is not None:
        try:
            return z3.ForAll(vs, body, patterns=[pat])
        except z3.Z3Exception:
            pass
    return z3.ForAll(vs, body)


INBLK = z3.Function("INBLK", z3.IntSort(), z3.IntSort(), z3.BoolSort())      # block is one of function.blocks
FEE = "tealer/analyses/dataflow/transaction_context/fee_field.py::FeeField."
BB = T.Ref("BasicBlock")
FV = T.Rec("FeeValue")
CTXT = T.Ref("BlockTransactionContext")
OWN_B = z3.Function("OWN_B", z3.IntSort(), z3.IntSort())
OWN_K = z3.Function("OWN_K", z3.IntSort(), z3.IntSort())
OWN_I = z3.Function("OWN_I", z3.IntSort(), z3.IntSort())
AKF = z3.Function("AKF", z3.IntSort(), z3.StringSort(), z3.StringSort())     # key of the absolute-index information
RKF = z3.Function("RKF", z3.IntSort(), z3.StringSort(), z3.StringSort())     # key of the relative-index information
KH = "tealer/analyses/dataflow/transaction_context/utils/key_helpers.py::"
ensures(REGISTRY[KH + "get_absolute_index_key"], "name", lambda idx, base_key, result: VBool(result.term == AKF(idx.term, base_key.term)), naming=True)
ensures(REGISTRY[KH + "get_relative_index_key"], "name", lambda offset, base_key, result: VBool(result.term == RKF(offset.term, base_key.term)), naming=True)

TABLE_FEE = T.Dict(T.Str, T.Dict(BB, FV), default=True)


def det_valid_key(name):
    from spec.keys import valid_key, key_kind
    return And(valid_key(VStr(name)), key_kind(VStr(name)) == 0)


def _F(attr, st):
    """the heap array of a context field in state st"""
    srt = z3.BoolSort() if attr == "max_fee_unknown" else z3.IntSort()
    return st.harr(f"F:BlockTransactionContext.{attr}", z3.IntSort(), srt)


def _fee_cell(self, kterm, bterm, st):
    """the FeeValue stored for (key, block): (is_unknown term, value term)"""
    ctx = current()
    inner = VDict(BB, FV, z3.Select(ctx.ex.dict_map(self._block_contexts, st), kterm))
    rec = z3.Select(ctx.ex.dict_map(inner, st), bterm)
    from pyvc.values import from_term
    v = from_term(rec, FV, ctx.ex)
    return v.fields["is_unknown"].term, v.fields["value"].term


def _ctx_term(self, bterm, st):
    ctx = current()
    d = fn_of(self)._transaction_contexts
    return z3.Select(ctx.ex.dict_map(d, st), bterm)


def _tail(cterm, family, idx, st):
    """the per-index (1), absolute (2) or relative (3) context of the context at cterm"""
    ctx = current()
    K = ctx.ex.ct.cls("BlockTransactionContext")
    r = VRef(cterm, K, ctx.ex)
    if family == 1:
        lst = det.gtxn_list(r)
        return ctx.ex.list_get(lst, idx, st).term
    if family == 2:
        lst = det.abs_list(r)
        return ctx.ex.list_get(lst, idx, st).term
    d = det.rel_dict(r)
    return z3.Select(ctx.ex.dict_map(d, st), idx)


def stored(self, cterm, kterm, bterm, old, new):
    """the context at cterm shows the fee information of (key, block): the unknown flag is raised iff it was raised before or the
    bound is unknown; a known bound is copied; otherwise the bound is left as it was"""
    unk, val = _fee_cell(self, kterm, bterm, old.st)
    f1, f0 = z3.Select(_F("max_fee_unknown", new.st), cterm), z3.Select(_F("max_fee_unknown", old.st), cterm)
    m1, m0 = z3.Select(_F("max_fee", new.st), cterm), z3.Select(_F("max_fee", old.st), cterm)
    return z3.And(f1 == z3.Or(f0, unk), m1 == z3.If(unk, m0, val))


class Dom:
    """one analysis: its base key, the value type of its tables, the `stored` relation and the context fields it writes"""
    def __init__(self, key, val_ty, stored_fn, fields):
        self.key, self.val_ty, self.stored, self.fields = key, val_ty, stored_fn, fields


def block_done(self, bterm, old, new, upto_idx=16, upto_off=16, own=True, dom=None):
    """every context of the block shows its information (positions < upto_idx, offsets < upto_off)"""
    stored = dom.stored if dom else globals()["stored"]
    fee = z3.StringVal(dom.key if dom else "Fee")
    c0 = _ctx_term(self, bterm, old.st)
    i, o = z3.Int(fresh_name("di")), z3.Int(fresh_name("do"))
    parts = []
    if own:
        parts.append(stored(self, c0, fee, bterm, old, new))
    parts.append(z3.ForAll([i], z3.Implies(z3.And(i >= 0, i < upto_idx), z3.And(
        stored(self, _tail(c0, 1, i, old.st), GKF(i, fee), bterm, old, new),
        stored(self, _tail(c0, 2, i, old.st), AKF(i, fee), bterm, old, new)))))
    parts.append(z3.ForAll([o], z3.Implies(z3.And(o >= -15, o < upto_off, o != 0),
                                           stored(self, _tail(c0, 3, o, old.st), RKF(o, fee), bterm, old, new))))
    return z3.And(parts)


def owners(self, st=None):
    """the owner view of the context forest of the function (see the module docstring) and the shape each context needs"""
    ctx = current()
    st = st or ctx.st
    f = fn_of(self).term
    b, i, o = z3.Int(fresh_name("ob")), z3.Int(fresh_name("oi")), z3.Int(fresh_name("oo"))
    K = ctx.ex.ct.cls("BlockTransactionContext")
    d = fn_of(self)._transaction_contexts
    has = z3.Select(ctx.ex.dict_dom(d, st), b)
    c0 = _ctx_term(self, b, st)
    r0 = VRef(c0, K, ctx.ex)
    g, a, rl = _tail(c0, 1, i, st), _tail(c0, 2, i, st), _tail(c0, 3, o, st)
    shape = z3.And(z3.Not(det.gtxn_none(r0).term), det.Len(det.gtxn_list(r0)).term == 16,
                   z3.Not(det.abs_none(r0).term), det.Len(det.abs_list(r0)).term == 16, z3.Not(det.rel_none(r0).term),
                   z3.ForAll([o], z3.Implies(z3.And(o >= -15, o <= 15, o != 0),
                                             z3.Select(ctx.ex.dict_dom(det.rel_dict(r0), st), o))))
    return VBool(FA([b], z3.Implies(has, z3.And(
        ctx.ex.type_constraint(r0), shape, OWN_B(c0) == b, OWN_K(c0) == 0,
        FA([i], z3.Implies(z3.And(i >= 0, i < 16), z3.And(
            OWN_B(g) == b, OWN_K(g) == 1, OWN_I(g) == i, OWN_B(a) == b, OWN_K(a) == 2, OWN_I(a) == i,
            ctx.ex.type_constraint(VRef(g, K, ctx.ex)), ctx.ex.type_constraint(VRef(a, K, ctx.ex)))), g),
        FA([o], z3.Implies(z3.And(o >= -15, o <= 15, o != 0), z3.And(
            OWN_B(rl) == b, OWN_K(rl) == 3, OWN_I(rl) == o, ctx.ex.type_constraint(VRef(rl, K, ctx.ex)))), rl))), c0))


def untouched(self, old, new, done_pred, dom=None):
    """contexts owned by blocks not yet processed keep the fields this analysis writes"""
    c = z3.Int(fresh_name("uc"))
    fields = dom.fields if dom else [("max_fee_unknown", z3.BoolSort()), ("max_fee", z3.IntSort())]
    same = [z3.Select(new.st.harr(f"F:BlockTransactionContext.{f}", z3.IntSort(), srt), c)
            == z3.Select(old.st.harr(f"F:BlockTransactionContext.{f}", z3.IntSort(), srt), c) for f, srt in fields]
    return z3.ForAll([c], z3.Implies(z3.Not(done_pred(c)), z3.And(same)))


def tables_ready(self, dom=None):
    """every key of the analysis has a cell for every block of the function"""
    ctx = current()
    st = ctx.st
    fee = z3.StringVal(dom.key if dom else "Fee")
    FVT = dom.val_ty if dom else FV
    f = fn_of(self).term
    dom_ = ctx.ex.dict_dom(self._block_contexts, st)
    b, i, o = z3.Int(fresh_name("tb")), z3.Int(fresh_name("ti")), z3.Int(fresh_name("to"))

    def has(k):
        inner = VDict(BB, FVT, z3.Select(ctx.ex.dict_map(self._block_contexts, st), k))
        return z3.And(z3.Select(dom_, k), z3.Select(ctx.ex.dict_dom(inner, st), b))
    tc = z3.Select(ctx.ex.dict_dom(fn_of(self)._transaction_contexts, st), b)
    return VBool(z3.And(z3.Select(dom_, fee), z3.ForAll([b], z3.Implies(INBLK(f, b), z3.And(
        tc, has(fee),
        z3.ForAll([i], z3.Implies(z3.And(i >= 0, i < 16), z3.And(has(GKF(i, fee)), has(AKF(i, fee))))),
        z3.ForAll([o], z3.Implies(z3.And(o >= -15, o <= 15, o != 0), has(RKF(o, fee)))))))))


c = contract(FEE + "_store_results", params={"self": T.Ref("FeeField")}, returns=T.NoneT,
             modifies=["F:BlockTransactionContext.max_fee", "F:BlockTransactionContext.max_fee_unknown"], tags=["C09", "C13"])
c.field_types = {("DataflowTransactionContext", "_block_contexts"): TABLE_FEE}
c.timeout_factor = 4.0
c.loop_havoc = {1: [], 2: [], 3: []}
assumes(c, "inblk_def", lambda self: _inblk(self))
assumes(c, "fee_is_a_base_key", lambda: And(det_valid_key("Fee")))   # key view of "Fee" (exhaustive key-space run, bounded/keyspace.py)
requires(c, "owners", lambda self: owners(self))
requires(c, "tables_ready", lambda self: tables_ready(self))


def _inblk(self):
    ctx = current()
    f = fn_of(self).term
    bl = fn_of(self)._blocks
    n = ctx.ex.list_len(bl, ctx.st).term
    m = z3.Int(fresh_name("bm"))
    at = ctx.ex.list_get(bl, m, ctx.st).term
    return VBool(FA([m], z3.Implies(z3.And(m >= 0, m < n), INBLK(f, at)), at))


def _blocks_done(self, old, new, upto, dom=None):
    ctx = current()
    bl = fn_of(self)._blocks
    m = z3.Int(fresh_name("dm"))
    n = ctx.ex.list_len(bl, ctx.st).term if upto is None else upto
    return z3.ForAll([m], z3.Implies(z3.And(m >= 0, m < n), block_done(self, ctx.ex.list_get(bl, m, ctx.st).term, old, new, dom=dom)))


def _owned_by_first(self, c_, upto):
    """c_ is a context of one of the first `upto` blocks of the function"""
    ctx = current()
    bl = fn_of(self)._blocks
    m = z3.Int(fresh_name("om"))
    n = ctx.ex.list_len(bl, ctx.st).term if upto is None else upto
    return z3.Exists([m], z3.And(m >= 0, m < n, OWN_B(c_) == ctx.ex.list_get(bl, m, ctx.st).term))


ensures(c, "stored", lambda self, old, new: VBool(_blocks_done(self, old, new, None)),
        note="for every block, the own / per-index / absolute / relative contexts show exactly the fee information computed for the "
             "block: unknown flag raised iff it was raised or the bound is unknown; a known bound copied")
ensures(c, "frame", lambda self, old, new: VBool(untouched(self, old, new, lambda c_: _owned_by_first(self, c_, None))),
        note="contexts of other functions' blocks keep their fee fields")


def _touched_now(c_, block, upto_idx, upto_off):
    """c_ is a context of the current block that the iteration has already written"""
    k, ix = OWN_K(c_), OWN_I(c_)
    return z3.And(OWN_B(c_) == block.term, z3.Or(k == 0, z3.And(z3.Or(k == 1, k == 2), ix >= 0, ix < upto_idx),
                                                 z3.And(k == 3, ix >= -15, ix < upto_off, ix != 0)))


invariant(c, 1, "block", lambda it, i, self, entry, cur: And(
    i <= Len(it), VBool(_blocks_done(self, entry, cur, i.term)),
    VBool(untouched(self, entry, cur, lambda c_: _owned_by_first(self, c_, i.term)))), label="blocks_done")
invariant(c, 2, "idx", lambda it, i, self, block, entry, cur, i_block: And(
    i <= Len(it), VBool(_blocks_done(self, entry, cur, i_block.term)),
    VBool(block_done(self, block.term, entry, cur, upto_idx=i.term, upto_off=z3.IntVal(-15))),
    VBool(untouched(self, entry, cur, lambda c_: z3.Or(_owned_by_first(self, c_, i_block.term),
                                                       _touched_now(c_, block, i.term, z3.IntVal(-15)))))), label="positions_done")
invariant(c, 3, "offset", lambda it, i, self, block, entry, cur, i_block: And(
    i <= Len(it), VBool(_blocks_done(self, entry, cur, i_block.term)),
    VBool(block_done(self, block.term, entry, cur, upto_idx=z3.IntVal(16), upto_off=i.term - 15)),
    VBool(untouched(self, entry, cur, lambda c_: z3.Or(_owned_by_first(self, c_, i_block.term),
                                                       _touched_now(c_, block, z3.IntVal(16), i.term - 15))))), label="offsets_done")
must_fail(c, "nothing_written", lambda old, new: VBool(z3.And(_F("max_fee", new.st) == _F("max_fee", old.st),
                                                                  _F("max_fee_unknown", new.st) == _F("max_fee_unknown", old.st))))


# ---- the same contract for the transaction-kind analysis (C07): `transaction_types` of every context lists exactly the kinds ----
from pyvc.values import sort_of      # noqa: E402
TT = T.Enum("TealerTransactionType")
TXN = "tealer/analyses/dataflow/transaction_context/txn_types.py::TxnType."


def _set_cell(self, kterm, bterm, st, val_ty):
    ctx = current()
    inner = VDict(BB, val_ty, z3.Select(ctx.ex.dict_map(self._block_contexts, st), kterm))
    return z3.Select(ctx.ex.dict_map(inner, st), bterm)          # the z3 set (array elem -> Bool)


def stored_types(self, cterm, kterm, bterm, old, new):
    """the context's `transaction_types` (a new list) holds every kind of the computed set exactly once, and nothing else"""
    ctx = current()
    s_ = _set_cell(self, kterm, bterm, old.st, T.Set(TT))
    fld = new.st.harr("F:BlockTransactionContext.transaction_types", z3.IntSort(), z3.IntSort())
    lst = z3.Select(fld, cterm)
    es = sort_of(TT)
    bag = new.st.harr(f"L.bag:{es}", z3.IntSort(), z3.ArraySort(es, z3.IntSort()))
    x = z3.Const(fresh_name("sx"), es)
    # (the list is an allocated object: later allocations cannot collide with it)
    return z3.And(lst < new.st.alloc_ptr(), lst > 0,
                  z3.ForAll([x], z3.Select(z3.Select(bag, lst), x) == z3.If(z3.Select(s_, x), z3.IntVal(1), z3.IntVal(0))))


DOM_TT = Dom("TransactionType", T.Set(TT), stored_types, [("transaction_types", z3.IntSort())])


def _mk_store(target, self_cls, dom, tags, base_key_assume):
    c_ = contract(target, params={"self": T.Ref(self_cls)}, returns=T.NoneT,
                  modifies=[f"F:BlockTransactionContext.{f}" for f, _ in dom.fields], tags=tags)
    c_.field_types = {("DataflowTransactionContext", "_block_contexts"): T.Dict(T.Str, T.Dict(BB, dom.val_ty), default=True),
                      ("BlockTransactionContext", "transaction_types"): T.List(TT, "bag")}
    c_.timeout_factor = 4.0
    c_.axiom_bags = True
    c_.loop_havoc = {1: [], 2: [], 3: []}
    assumes(c_, "inblk_def", lambda self: _inblk(self))
    assumes(c_, "base_key", lambda: det_valid_key(base_key_assume))
    requires(c_, "owners", lambda self: owners(self))
    requires(c_, "tables_ready", lambda self: tables_ready(self, dom))
    ensures(c_, "stored", lambda self, old, new: VBool(_blocks_done(self, old, new, None, dom)),
            note="for every block, the own / per-index / absolute / relative contexts show exactly what the analysis computed for the block")
    ensures(c_, "frame", lambda self, old, new: VBool(untouched(self, old, new, lambda c2: _owned_by_first(self, c2, None), dom)))
    invariant(c_, 1, "block", lambda it, i, self, entry, cur: And(
        i <= Len(it), VBool(_blocks_done(self, entry, cur, i.term, dom)),
        VBool(untouched(self, entry, cur, lambda c2: _owned_by_first(self, c2, i.term), dom))), label="blocks_done")
    invariant(c_, 2, "idx", lambda it, i: i <= Len(it), label="positions_index")
    invariant(c_, 2, "idx", lambda it, i, self, entry, cur, i_block: VBool(_blocks_done(self, entry, cur, i_block.term, dom)), label="positions_earlier_blocks")
    invariant(c_, 2, "idx", lambda it, i, self, block, entry, cur: VBool(
        block_done(self, block.term, entry, cur, upto_idx=i.term, upto_off=z3.IntVal(-15), dom=dom)), label="positions_done")
    invariant(c_, 2, "idx", lambda it, i, self, block, entry, cur, i_block: VBool(
        untouched(self, entry, cur, lambda c2: z3.Or(_owned_by_first(self, c2, i_block.term),
                                                     _touched_now(c2, block, i.term, z3.IntVal(-15))), dom)), label="positions_untouched")
    invariant(c_, 3, "offset", lambda it, i, self, block, entry, cur, i_block: And(
        i <= Len(it), VBool(_blocks_done(self, entry, cur, i_block.term, dom)),
        VBool(block_done(self, block.term, entry, cur, upto_idx=z3.IntVal(16), upto_off=i.term - 15, dom=dom)),
        VBool(untouched(self, entry, cur, lambda c2: z3.Or(_owned_by_first(self, c2, i_block.term),
                                                           _touched_now(c2, block, z3.IntVal(16), i.term - 15)), dom))), label="offsets_done")
    return c_


_mk_store(TXN + "_store_results", "TxnType", DOM_TT, ["C07", "C13"], "TransactionType")


# ---- GroupIndices._store_results (C06): sizes copied; indices clamped below the largest possible size, then copied ------------
GI = "tealer/analyses/dataflow/transaction_context/int_fields.py::GroupIndices."
INTSET = T.Set(T.Int)


def _int_cell(self, key, bterm, st):
    return _set_cell(self, z3.StringVal(key), bterm, st, INTSET)


def _bag_of(field, cterm, st):
    fld = st.harr(f"F:BlockTransactionContext.{field}", z3.IntSort(), z3.IntSort())
    bag = st.harr("L.bag:Int", z3.IntSort(), z3.ArraySort(z3.IntSort(), z3.IntSort()))
    lst = z3.Select(fld, cterm)
    return lst, z3.Select(bag, lst)


def _clamped(self, bterm, old):
    """x is a possible index after the clamp: a computed index below the largest computed size (no size: no index)"""
    sizes, idxs = _int_cell(self, "GroupSize", bterm, old.st), _int_cell(self, "GroupIndex", bterm, old.st)
    x, s_ = z3.Int(fresh_name("cx")), z3.Int(fresh_name("cs"))
    return x, z3.And(z3.Select(idxs, x), x >= 0, z3.Exists([s_], z3.And(z3.Select(sizes, s_), x < s_)))


def sizes_stored(self, bterm, old, new):
    c0 = _ctx_term(self, bterm, old.st)
    lst, bag = _bag_of("group_sizes", c0, new.st)
    x = z3.Int(fresh_name("zx"))
    return z3.And(lst > 0, lst < new.st.alloc_ptr(),
                  z3.ForAll([x], z3.Select(bag, x) == z3.If(z3.Select(_int_cell(self, "GroupSize", bterm, old.st), x), 1, 0)))


def indices_stored(self, bterm, old, new):
    c0 = _ctx_term(self, bterm, old.st)
    lst, bag = _bag_of("group_indices", c0, new.st)
    x, inside = _clamped(self, bterm, old)
    return z3.And(lst > 0, lst < new.st.alloc_ptr(), z3.ForAll([x], z3.Select(bag, x) == z3.If(inside, 1, 0)))


def table_clamped(self, bterm, old, new):
    x, inside = _clamped(self, bterm, old)
    return z3.ForAll([x], z3.Select(_int_cell(self, "GroupIndex", bterm, new.st), x) == inside)


def _all_blocks(self, fn, upto=None):
    ctx = current()
    bl = fn_of(self)._blocks
    m = z3.Int(fresh_name("gm"))
    n = ctx.ex.list_len(bl, ctx.st).term if upto is None else upto
    return z3.ForAll([m], z3.Implies(z3.And(m >= 0, m < n), fn(ctx.ex.list_get(bl, m, ctx.st).term)))


def int_ready(self):
    """both tables have a cell for every block; computed sizes lie in 1..16 (what the lattice of the analysis contains)"""
    ctx = current()
    st = ctx.st
    f = fn_of(self).term
    dom_ = ctx.ex.dict_dom(self._block_contexts, st)
    b, x = z3.Int(fresh_name("ib")), z3.Int(fresh_name("ix"))

    def has(key):
        k = z3.StringVal(key)
        inner = VDict(BB, INTSET, z3.Select(ctx.ex.dict_map(self._block_contexts, st), k))
        return z3.And(z3.Select(dom_, k), z3.Select(ctx.ex.dict_dom(inner, st), b))
    tc = z3.Select(ctx.ex.dict_dom(fn_of(self)._transaction_contexts, st), b)
    gs = z3.StringVal("GroupSize")
    inner_gs = z3.Select(ctx.ex.dict_map(self._block_contexts, st), gs)
    inner_gi = z3.Select(ctx.ex.dict_map(self._block_contexts, st), z3.StringVal("GroupIndex"))
    return VBool(z3.And(z3.Select(dom_, gs), z3.Select(dom_, z3.StringVal("GroupIndex")), inner_gs != inner_gi,
                        z3.ForAll([b], z3.Implies(INBLK(f, b), z3.And(
                            tc, has("GroupSize"), has("GroupIndex"),
                            z3.ForAll([x], z3.Implies(z3.Select(_int_cell(self, "GroupSize", b, st), x), z3.And(x >= 1, x <= 16))))))))


c = contract(GI + "_store_results", params={"self": T.Ref("GroupIndices")}, returns=T.NoneT,
             modifies=["F:BlockTransactionContext.group_sizes", "F:BlockTransactionContext.group_indices", "D.map:Int->Array(Int, Bool)"],
             tags=["C06", "C13"])
c.field_types = {("DataflowTransactionContext", "_block_contexts"): T.Dict(T.Str, T.Dict(BB, INTSET), default=True),
                 ("BlockTransactionContext", "group_sizes"): T.List(T.Int, "bag"),
                 ("BlockTransactionContext", "group_indices"): T.List(T.Int, "bag")}
c.timeout_factor = 4.0
c.axiom_bags = True
c.loop_havoc = {1: ["D.map:Int->Array(Int, Bool)"], 2: [], 3: []}
assumes(c, "inblk_def", lambda self: _inblk(self))
requires(c, "owners", lambda self: owners(self))
requires(c, "tables_ready", lambda self: int_ready(self))


def _gi_between(self, entry, cur):
    """every block's index set is its entry value or the clamped entry value; the size table is untouched"""
    b = z3.Int(fresh_name("qb"))
    x, inside = _clamped(self, b, entry)
    y = z3.Int(fresh_name("qy"))
    cur_gi, old_gi = _int_cell(self, "GroupIndex", b, cur.st), _int_cell(self, "GroupIndex", b, entry.st)
    return z3.And(
        z3.ForAll([b], z3.Or(cur_gi == old_gi, z3.ForAll([x], z3.Select(cur_gi, x) == inside))),
        z3.ForAll([b], _int_cell(self, "GroupSize", b, cur.st) == _int_cell(self, "GroupSize", b, entry.st)),
        # the dict structure itself (which dict holds which key) is not written
        z3.Select(cur.st.harr("D.map:String->Int", z3.IntSort(), z3.ArraySort(z3.StringSort(), z3.IntSort())), self._block_contexts.ref)
        == z3.Select(entry.st.harr("D.map:String->Int", z3.IntSort(), z3.ArraySort(z3.StringSort(), z3.IntSort())), self._block_contexts.ref))


ensures(c, "clamped", lambda self, old, new: VBool(_all_blocks(self, lambda b: table_clamped(self, b, old, new))),
        note="the index table keeps, for every block, the computed indices below the largest computed size (no size: no index)")
ensures(c, "sizes", lambda self, old, new: VBool(_all_blocks(self, lambda b: sizes_stored(self, b, old, new))),
        note="group_sizes of every block's context lists exactly the computed sizes")
ensures(c, "indices", lambda self, old, new: VBool(_all_blocks(self, lambda b: indices_stored(self, b, old, new))),
        note="group_indices of every block's context lists exactly the clamped indices")
invariant(c, 1, "bi", lambda it, i, self, entry, cur: And(
    i <= Len(it), VBool(_gi_between(self, entry, cur)),
    VBool(_all_blocks(self, lambda b: table_clamped(self, b, entry, cur), upto=i.term))), label="clamped_so_far")
invariant(c, 2, "block", lambda it, i, self, entry, cur: And(
    i <= Len(it), VBool(_all_blocks(self, lambda b: sizes_stored(self, b, entry, cur), upto=i.term))), label="sizes_so_far")
invariant(c, 3, "block", lambda it, i, self, entry, cur: And(
    i <= Len(it), VBool(_all_blocks(self, lambda b: sizes_stored(self, b, entry, cur))),
    VBool(_all_blocks(self, lambda b: indices_stored(self, b, entry, cur), upto=i.term))), label="indices_so_far")
must_fail(c, "indices_not_clamped", lambda self, old, new: VBool(_all_blocks(self, lambda b: (lambda lst_bag: z3.ForAll(
    [z3.Int("ux")], z3.Select(lst_bag[1], z3.Int("ux")) == z3.If(z3.Select(_int_cell(self, "GroupIndex", b, old.st), z3.Int("ux")), 1, 0)))(
        _bag_of("group_indices", _ctx_term(self, b, old.st), new.st)))))
