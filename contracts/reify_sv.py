"""Reifier shared by the comparison kernels `f(self, key, ins_stack_value)` (fee, int fields, txn types, addresses).

Turns a solver model into (a) a real KnownStackValue tree, (b) a real analysis key, (c) a NativeVisit.
Nodes the model marks as reads of the key's field (ghost ISFIELDREAD) become real `txn f` / `gtxn i f` /
`gtxns f` reads for the chosen real key; literal pushes (ghost HASINTLIT) become `int c`; every other node is
rebuilt from the model by its class.  Truth is then decided natively (spec/native.py), never by the model.
"""
from __future__ import annotations

from typing import Any, Dict, Iterator, List, Optional

import z3

from pyvc.replay import ModelView, reify_object
from pyvc.loader import class_table
from spec.avm_axioms import GSIZE, GIDX, TXNFLD, CREATOR, VAL, EV, ADDRDECODE
from spec.ghost import ISFIELDREAD, HASINTLIT, INTLIT, KEYFLD
from spec.native import NativeVisit, ZERO_ADDRESS


def _mk_field_read(key_kind: Any, fieldname: str) -> Any:
    from tealer.teal.instructions import instructions as I
    from tealer.teal.instructions import transaction_field as TF
    from tealer.analyses.utils.stack_ast_builder import KnownStackValue
    fcls = getattr(TF, fieldname)
    if key_kind[0] == "self":
        return KnownStackValue(I.Txn(fcls()), [])
    if key_kind[0] == "abs":
        return KnownStackValue(I.Gtxn(key_kind[1], fcls()), [])
    # relative: txn GroupIndex; int k; +|-; gtxns f
    k = key_kind[1]
    gi = KnownStackValue(I.Txn(TF.GroupIndex()), [])
    lit = KnownStackValue(I.Int(abs(k)), [])
    idx = KnownStackValue(I.Add() if k >= 0 else I.Sub(), [gi, lit])
    return KnownStackValue(I.Gtxns(fcls()), [idx])


class SvReifier:
    def __init__(self, mv: ModelView, model_key_term: Any, vterm: Any, real_key: str, key_kind: Any, fieldname: str,
                 field_value: Any):
        self.mv = mv
        self.kterm = model_key_term
        self.vterm = vterm
        self.real_key = real_key
        self.key_kind = key_kind
        self.fieldname = fieldname
        self.field_value = field_value
        self.opaque: Dict[Any, int] = {}
        self.extra_fields: List[str] = []
        self.ct = class_table()
        self.lines: List[str] = []

    def sv(self, ref: int, depth: int = 0) -> Any:
        from tealer.analyses.utils.stack_ast_builder import KnownStackValue, UnknownStackValue
        from tealer.teal.instructions import instructions as I
        mv = self.mv
        cls = mv.typeof(ref)
        if cls is None or cls.__name__ != "KnownStackValue" or depth > 5:
            u = UnknownStackValue()
            if self.vterm is not None:
                self.opaque[id(u)] = mv.int(EV(self.vterm, z3.IntVal(ref)))
            return u
        if self.kterm is not None and self.fieldname and mv.bool(ISFIELDREAD(self.kterm, z3.IntVal(ref))):
            return _mk_field_read(self.key_kind, self.fieldname)
        if self.kterm is not None:
            from spec.ghost import ISFIELDREAD_F
            from spec.avm_axioms import cls_id
            for fname in self.extra_fields:
                if mv.bool(ISFIELDREAD_F(self.kterm, z3.IntVal(ref), z3.IntVal(cls_id(fname)))):
                    return _mk_field_read(self.key_kind, fname)
        iref = mv.fint(ref, "KnownStackValue", "_ins")
        icls = mv.typeof(iref)
        is_pushcls = icls is not None and any(k.__name__ in ("Int", "PushInt", "IntcInstruction") for k in icls.__mro__)
        if is_pushcls and mv.bool(HASINTLIT(z3.IntVal(iref))):
            return KnownStackValue(I.Int(mv.int(INTLIT(z3.IntVal(iref)))), [])
        ins = reify_object(mv, iref)
        if ins is None:
            ins = I.Instruction()
        nargs = ins.stack_pop_size
        arefs = mv.list_ints(mv.fint(ref, "KnownStackValue", "_args"), nargs)
        args = [self.sv(a, depth + 1) for a in arefs]
        oidx = mv.fint(ref, "KnownStackValue", "_ins_out_values_index")
        oidx = max(0, min(oidx, max(ins.stack_push_size - 1, 0)))
        node = KnownStackValue(ins, args, oidx)
        if self.vterm is not None:
            self.opaque[(id(ins), oidx)] = mv.int(VAL(self.vterm, z3.IntVal(iref), z3.IntVal(oidx)))
        return node


def describe(sv: Any, depth: int = 0) -> str:
    if type(sv).__name__ == "UnknownStackValue":
        return "Unknown"
    a = ", ".join(describe(x, depth + 1) for x in sv.args)
    return f"{type(sv.instruction).__name__}<{sv.instruction}>" + (f"({a})" if a else "")


def _literals(sv: Any) -> List[int]:
    from spec.native import native_int_lit
    out: List[int] = []
    if type(sv).__name__ != "KnownStackValue":
        return out
    v = native_int_lit(sv.instruction)
    if v is not None:
        out.append(v)
    for a in sv.args:
        out += _literals(a)
    return out


def to_teal(sv: Any) -> Optional[List[str]]:
    """Postfix TEAL for a tree without unknown leaves (None otherwise)."""
    if type(sv).__name__ == "UnknownStackValue":
        return None
    out: List[str] = []
    for a in sv.args:
        t = to_teal(a)
        if t is None:
            return None
        out += t
    out.append(str(sv.instruction))
    return out


def make_reifier(base_keys: List[str], self_cls_name: str, value_of_model: Any = None, extra_fields: Any = ()):
    """Reifier for `f(self, key, ins_stack_value)` kernels; tries the base key and the gtxn-type keys."""

    def reify(mv: ModelView, ob: Any) -> Iterator[Dict[str, Any]]:
        from tealer.analyses.dataflow.transaction_context.utils import key_helpers as kh
        ct = class_table()
        inputs = ob.inputs
        svt = inputs["ins_stack_value"].term
        kt = inputs["key"].term if "key" in inputs else None
        vt = inputs["v"].term if "v" in inputs else None
        self_cls = ct.cls(self_cls_name)
        gsize = max(1, min(16, mv.int(GSIZE(vt)))) if vt is not None else 2
        gidx = max(0, min(gsize - 1, mv.int(GIDX(vt)))) if vt is not None else 0
        modelval = mv.int(KEYFLD(vt, kt)) if (vt is not None and kt is not None) else 0
        if not base_keys:
            r = SvReifier(mv, kt if extra_fields else None, vt, "", ("self",), "", 0)
            r.extra_fields = list(extra_fields)
            tree = r.sv(mv.int(svt))
            visit = NativeVisit(gsize, gidx, [dict() for _ in range(gsize)], opaque=r.opaque)
            I_ = z3.IntSort()
            from pyvc.state import initial_heap_array as H_
            from pyvc.execbase import TYPEOF as TY_
            root_ins = z3.Select(H_("F:KnownStackValue._ins", I_, I_), svt)
            args = {"self": self_cls.__new__(self_cls), "ins_stack_value": tree}
            if kt is not None:
                args["key"] = mv.str(kt)
            yield {"block": [TY_(root_ins)] + ([GSIZE(vt), GIDX(vt)] if vt is not None else []),
                   "args": args, "ghost": {"v": visit},
                   "repr": {"ins_stack_value": describe(tree), "visit": repr(visit)}, "teal": to_teal(tree)}
            return
        for base in base_keys:
            cands = [(base, ("self",), gidx)]
            cands.append((kh.get_gtxn_at_index_key(gidx, base), ("abs", gidx), gidx))
            other = (gidx + 1) % max(gsize, 2)
            gs2 = max(gsize, 2)
            cands.append((kh.get_absolute_index_key(other, base), ("abs", other), other))
            cands.append((kh.get_relative_index_key(1, base), ("rel", 1), gidx + 1))
            for real_key, kind, tgt in cands:
                gsz = gsize if tgt < gsize else tgt + 1
                if gsz > 16:
                    continue
                r = SvReifier(mv, kt, vt, real_key, kind, base, modelval)
                tree = r.sv(mv.int(svt))
                fv = value_of_model(mv, vt, kt, modelval) if value_of_model else modelval
                selfobj = self_cls.__new__(self_cls)
                teal = to_teal(tree)
                # region representatives around the literals of the tree (the truth is decided natively anyway)
                variants = [fv]
                if isinstance(fv, int):
                    for lit in _literals(tree):
                        for x in (lit - 1, lit, lit + 1):
                            if 0 <= x <= 2 ** 64 - 1 and x not in variants:
                                variants.append(x)
                    for x in (0, 272000, 272001, 2 ** 64 - 1):
                        if x not in variants:
                            variants.append(x)
                for fvv in variants[1:8]:
                    mem2: List[Dict[str, Any]] = [dict() for _ in range(gsz)]
                    mem2[tgt][base] = fvv
                    vis2 = NativeVisit(gsz, gidx, mem2, opaque=r.opaque)
                    yield {"args": {"self": selfobj, "key": real_key, "ins_stack_value": tree}, "ghost": {"v": vis2},
                           "repr": {"key": real_key, "ins_stack_value": describe(tree), "visit": repr(vis2)}, "teal": teal}
                members: List[Dict[str, Any]] = [dict() for _ in range(gsz)]
                members[tgt][base] = fv
                visit = NativeVisit(gsz, gidx, members, opaque=r.opaque)
                I_ = z3.IntSort()
                from pyvc.state import initial_heap_array as H_
                from pyvc.execbase import TYPEOF as TY_
                root_ins = z3.Select(H_("F:KnownStackValue._ins", I_, I_), svt)
                block = [TY_(root_ins)]
                if vt is not None and kt is not None:
                    block.append(KEYFLD(vt, kt))
                yield {"block": block,"args": {"self": selfobj, "key": real_key, "ins_stack_value": tree},
                       "ghost": {"v": visit},
                       "repr": {"key": real_key, "ins_stack_value": describe(tree), "visit": repr(visit)},
                       "teal": teal}
    return reify
