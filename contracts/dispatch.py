"""C16 -- "no opcode is taken for another that shares a prefix": the ordered prefix rules of `parse_line`.

The verified text is a *mechanical slice* of `parse_line` (`...::parse_line::@dispatch`), rebuilt from the function's AST on every
run: the `for key, f in parser_rules:` statement with its own target, iterable and test expression; the body of the `if` is
replaced by `return (key, <the argument expression of the call f(...)>)` and `return None` follows the loop.  Dropped: the call of
the rule's constructor `f`, the two attribute stores on the new instruction, and everything of `parse_line` before the loop
(tokenising, comments, labels, byte-string opcodes) -- the slice's parameter `line` is the normalised line (`" ".join(fields)`).
The slicer refuses any other shape of the loop (LoaderError => the function counts as not executable, nothing is proved).

One contract per opcode (`...::@dispatch::@op=<mnemonic>`: the same slice, the opcode fixed -- with a symbolic opcode the string
queries were out of reach: 20 minutes and mostly `unknown`).  Contract: for every opcode of the AVM table (spec/avm_ops.py, plus the pseudo-ops `#pragma version` and `replace`) and every
argument text, the rule that fires is a rule *of that opcode* (its key is the opcode, possibly followed by one blank) and it is
handed exactly the argument text.  The table `parser_rules` is the real module's list (174 rules), unrolled; strings are z3 strings.
"""
import ast

from pyvc.dsl import contract, requires, ensures, must_fail, And, Or, Not, Implies, Iff, Eq, IsNone, _sym
from pyvc.values import T, V, VBool, VStr, VTuple, VNone, VUnion
from pyvc.loader import SLICERS, FuncInfo, LoaderError
import z3

PL = "tealer/teal/instructions/parse_instruction.py::parse_line::@dispatch"


def _slice_dispatch(fi: FuncInfo) -> FuncInfo:
    loops = [n for n in ast.walk(fi.node) if isinstance(n, ast.For) and isinstance(n.iter, ast.Name) and n.iter.id == "parser_rules"]
    if len(loops) != 1:
        raise LoaderError(f"parse_line has {len(loops)} loops over parser_rules (expected 1)")
    loop = loops[0]
    tgt = loop.target
    if not (isinstance(tgt, ast.Tuple) and len(tgt.elts) == 2 and all(isinstance(e, ast.Name) for e in tgt.elts)) or loop.orelse:
        raise LoaderError("dispatch loop: target is not `key, f`")
    key, fname = tgt.elts[0].id, tgt.elts[1].id
    if len(loop.body) != 1 or not isinstance(loop.body[0], ast.If) or loop.body[0].orelse:
        raise LoaderError("dispatch loop: body is not a single `if`")
    iff = loop.body[0]
    calls = [n for s in iff.body for n in ast.walk(s) if isinstance(n, ast.Call) and isinstance(n.func, ast.Name) and n.func.id == fname]
    if len(calls) != 1 or len(calls[0].args) != 1 or calls[0].keywords or not isinstance(iff.body[-1], ast.Return):
        raise LoaderError("dispatch loop: the `if` does not apply the rule once and return")
    first = iff.body[0]
    if not (isinstance(first, ast.Assign) and first.value is calls[0] and isinstance(iff.body[-1].value, ast.Name)
            and isinstance(first.targets[0], ast.Name) and first.targets[0].id == iff.body[-1].value.id):
        raise LoaderError("dispatch loop: the instruction returned is not the one the rule built")
    free = {n.id for n in ast.walk(iff.test) if isinstance(n, ast.Name)} | {n.id for n in ast.walk(calls[0].args[0]) if isinstance(n, ast.Name)}
    free -= {key, fname, "len", "parser_rules"}
    if free != {"line"}:
        raise LoaderError(f"dispatch loop reads {sorted(free)} (expected only `line`)")
    ret = ast.Return(value=ast.Tuple(elts=[ast.Name(id=key, ctx=ast.Load()), calls[0].args[0]], ctx=ast.Load()))
    new_if = ast.If(test=iff.test, body=[ret], orelse=[])
    new_for = ast.For(target=loop.target, iter=loop.iter, body=[new_if], orelse=[])
    fdef = ast.FunctionDef(name="parse_line__dispatch", args=ast.arguments(posonlyargs=[], args=[ast.arg(arg="line")], kwonlyargs=[], kw_defaults=[], defaults=[]),
                           body=[new_for, ast.Return(value=ast.Constant(value=None))], decorator_list=[], type_params=[])
    for n in (ret, new_if, new_for):
        ast.copy_location(n, iff)
    ast.copy_location(fdef, loop)
    ast.fix_missing_locations(fdef)
    return FuncInfo(fi.qualname + "::@dispatch", None, fdef, fi.module, None, fi.file, loop.lineno, outer=fi)


SLICERS["@dispatch"] = _slice_dispatch


def _ops():
    from spec.avm_ops import OPS
    return sorted((set(OPS) | {"#pragma version", "replace"}) - {"byte", "bytecblock", "pushbytes", "pushbytess"})


def _rule_keys():
    from tealer.teal.instructions.parse_instruction import parser_rules
    return [k for k, _ in parser_rules]


WS = (" ", "\t", "\n", "\r", "\x0b", "\x0c")


def _same_slice(fi: FuncInfo, op: str) -> FuncInfo:
    """the dispatch slice again under a per-opcode name (nothing dropped, nothing specialised: the line is fixed by the contract)"""
    return FuncInfo(fi.qualname + "::@op=" + op, None, fi.node, fi.module, None, fi.file, fi.lineno, outer=fi.outer)


SLICERS["@op"] = _same_slice
SLICERS["@bare"] = lambda fi, op: FuncInfo(fi.qualname + "::@bare=" + op, None, fi.node, fi.module, None, fi.file, fi.lineno, outer=fi.outer)


def _arg_text(rest):
    """an argument text: not empty, no blank at either end"""
    if _sym(rest):
        r = rest.term
        ws = z3.Union(*[z3.Re(c) for c in WS])
        return VBool(z3.And(z3.Length(r) > 0, z3.Not(z3.InRe(z3.SubString(r, 0, 1), ws)), z3.Not(z3.InRe(z3.SubString(r, z3.Length(r) - 1, 1), ws))))
    return rest != "" and rest == rest.strip()


def _none(result):
    return isinstance(result, VNone) or result is None


def _key_is_op(result, op):
    k = result.items[0] if isinstance(result, VTuple) else result[0]
    if isinstance(k, V):
        kc = z3.simplify(k.term)
        return z3.is_string_value(kc) and kc.as_string().strip() == op
    return k.strip() == op


def _arg_of(result):
    return result.items[1] if isinstance(result, VTuple) else result[1]


def _bare_rule(op):
    """some rule of the opcode has a key without a trailing blank (it fits the opcode standing alone)"""
    return any(k.strip() == op and not k.endswith(" ") for k in _rule_keys())


def _has_rule(op):
    return any(k.strip() == op for k in _rule_keys())


def _mk(op: str):
    # (a) the opcode followed by an argument text: line = op + " " + rest   (`line` is that term: a definitional precondition)
    c = contract(PL + "::@op=" + op, params={"line": T.Str}, ghost={"rest": T.Str}, tags=["C16"])
    c.max_paths = 100000
    c.z3_first_s = 0.5
    c.timeout_factor = 3.0
    c.param_terms = {"line": lambda rest: VStr(z3.Concat(z3.StringVal(op + " "), rest.term))}
    requires(c, "argument_text", lambda rest: _arg_text(rest),
             note=f"the normalised line is `{op}`, one blank, and an argument text without blanks at its ends")
    ensures(c, "no_capture", lambda result: Implies(Not(_none(result)), lambda: _key_is_op(result, op)),
            note="the rule that fires is a rule of the line's own opcode: no opcode is taken for another one that shares a prefix with it")
    ensures(c, "argument", lambda rest, result: Implies(Not(_none(result)), lambda: Eq(_arg_of(result), rest)),
            note="the rule is handed exactly the text after the opcode")
    if _has_rule(op):
        ensures(c, "fires", lambda result: Not(_none(result)),
                note="an opcode that has a rule is not left to the unsupported-instruction fallback")
    else:
        ensures(c, "kept_as_unsupported", lambda result: _none(result), note="an opcode without a rule is captured by no other rule")
    must_fail(c, "empty_argument", lambda result: Implies(Not(_none(result)), lambda: Eq(_arg_of(result), "")))
    c.samples = lambda: ({"line": op + " " + r, "rest": r} for r in ("1", "0x10 2", "l1 l2", "Fee", "x_y", "=", "3 x", "2"))
    # (b) the opcode standing alone: line = op.  Only for opcodes whose rule key has no trailing blank (opcodes without a mandatory
    # immediate): `dupn` / `popn` / `replace2` alone are not assembler-valid lines and lie outside the property's input space
    # (tealer reads them as `dup` / `pop` / `replace` with an argument -- first seen as refuted obligations of this contract).
    if not _bare_rule(op) and _has_rule(op):
        return c
    b = contract(PL + "::@bare=" + op, params={"line": T.Str}, tags=["C16"])
    b.param_terms = {"line": lambda: VStr(op)}
    ensures(b, "no_capture", lambda result: Implies(Not(_none(result)), lambda: And(_key_is_op(result, op), Eq(_arg_of(result), ""))))
    if _bare_rule(op):
        ensures(b, "fires", lambda result: Not(_none(result)))
    b.samples = lambda: iter([{"line": op}])
    return c


for _o in _ops():
    _mk(_o)
