"""Contracts for tealer/analyses/dataflow/transaction_context/fee_field.py (DESIGN.md §6.6, C09/C01/C03)."""
from pyvc.dsl import contract, requires, ensures, must_fail, And, Or, Not, Implies, If, Iff, forall, IsInstance
from pyvc.values import T
from spec.gamma import wf_fee, in_gamma_fee, MAX_GROUP_COST_BOUND, MAX_UINT64

F = "tealer/analyses/dataflow/transaction_context/fee_field.py::FeeField."

for op, label in (("_union", "gamma_union"), ("_intersection", "gamma_inter")):
    c = contract(F + op, params={"self": T.Ref("FeeField"), "key": T.Str, "a": T.Rec("FeeValue"), "b": T.Rec("FeeValue")},
                 returns=T.Rec("FeeValue"), tags=["C09", "C01", "C03"])
    requires(c, "wf_a", lambda a: wf_fee(a))
    requires(c, "wf_b", lambda b: wf_fee(b))
    ensures(c, "wf", lambda result: wf_fee(result))

    def _fee_samples():
        from tealer.analyses.dataflow.transaction_context.fee_field import FeeField, FeeValue
        me = FeeField.__new__(FeeField)
        vals = [FeeValue(is_unknown=True), FeeValue(value=0)] + [FeeValue(value=x) for x in (1000, 271999, 272000, 272001, 2 ** 64 - 1)]
        for x in vals:
            for y in vals:
                yield {"self": me, "key": "Fee", "a": x, "b": y}
    c.samples = _fee_samples

    def mk_comm(op):
        from pyvc.dsl import SymCall, EqAlts
        def same_bound(x, y):
            """equal as exported by _store_results: both unknown, or both known with the same value"""
            return Or(And(x.is_unknown, y.is_unknown), And(Not(x.is_unknown), Not(y.is_unknown), x.value == y.value))
        return lambda self, key, a, b, result: EqAlts(result, SymCall(F + op, self, key, b, a), same_bound)
    ensures(c, "commutes", mk_comm(op), tags=["C14", "C09"],
            note="the merge order (set iteration order of callers / subroutines) must not show in the result: a op b == b op a "
                 "as values, not only in gamma")
    if op == "_union":
        ensures(c, label, lambda a, b, result: forall(T.Int, lambda x:
                Iff(in_gamma_fee(result, x), Or(in_gamma_fee(a, x), in_gamma_fee(b, x)))))
        must_fail(c, "canary", lambda a, b, result: forall(T.Int, lambda x:
                  Iff(in_gamma_fee(result, x), And(in_gamma_fee(a, x), in_gamma_fee(b, x)))))
    else:
        ensures(c, label, lambda a, b, result: forall(T.Int, lambda x:
                Iff(in_gamma_fee(result, x), And(in_gamma_fee(a, x), in_gamma_fee(b, x)))))
        must_fail(c, "canary", lambda a, b, result: forall(T.Int, lambda x:
                  Iff(in_gamma_fee(result, x), Or(in_gamma_fee(a, x), in_gamma_fee(b, x)))))

# ------------------------------------------------------------------------------------------------------------
# comparison kernels
# ------------------------------------------------------------------------------------------------------------
from pyvc.dsl import Eq, exists, IsNone, IsInt, AsInt
from spec.avm_axioms import ev
from spec.ghost import is_field_read, keydef, keyfld, has_int_lit, int_lit
import contracts.helpers  # noqa: F401  (callee contracts)

M = MAX_UINT64
SIXOPS = ("Eq", "Neq", "Less", "LessE", "Greater", "GreaterE")


def cmp_sem(ins, a, b):
    """Truth of `a OP b` for the comparison instruction `ins` (a pushed first); True for other instructions."""
    return Or(And(IsInstance(ins, "Eq"), a == b), And(IsInstance(ins, "Neq"), a != b),
              And(IsInstance(ins, "Less"), a < b), And(IsInstance(ins, "LessE"), a <= b),
              And(IsInstance(ins, "Greater"), a > b), And(IsInstance(ins, "GreaterE"), a >= b),
              Not(IsInstance(ins, SIXOPS)))


def u64(x):
    return And(x >= 0, x <= M)


def _sample(bound, extra=()):
    """finite sample for native evaluation of the quantifiers: the region representatives the property prescribes"""
    from pyvc.values import V
    if isinstance(bound.value, V):
        return None
    pts = {0, 1, M - 1, M, MAX_GROUP_COST_BOUND, MAX_GROUP_COST_BOUND + 1}
    for c in list(extra) + [bound.value]:
        if isinstance(c, int):
            pts.update({c - 1, c, c + 1})
    return sorted(p for p in pts if 0 <= p <= M)


def tight_bound(bound, pred, extra=()):
    """`bound` (a FeeValue) is the exact implied upper bound of {x in uint64 | pred(x)}, when that set is not empty."""
    smp = _sample(bound, extra)
    return And(Not(bound.is_unknown),
               forall(T.Int, lambda x: Implies(And(u64(x), pred(x)), x <= bound.value), sample=smp),
               Implies(exists(T.Int, lambda x: And(u64(x), pred(x)), sample=smp), And(u64(bound.value), pred(bound.value))))


c = contract(F + "_get_asserted_max_value",
             params={"comparison_ins": T.Ref("Instruction"), "compared_value": T.Rec("FeeValue")},
             returns=T.Tuple(T.Rec("FeeValue"), T.Rec("FeeValue")), tags=["C09", "C01", "C03"])
requires(c, "wf", lambda compared_value: wf_fee(compared_value))
ensures(c, "wf", lambda result: And(wf_fee(result[0]), wf_fee(result[1])))
# field on the LEFT of the operator:  x OP c
# D18: for c = 2^64-1 the set {x | x != c} has maximum c-1, the code answers c (top) -- listed finding, see DESIGN §9
_D18 = {"D18": lambda compared_value: compared_value.value == M}


def sound_bound(bound, pred, extra=()):
    smp = _sample(bound, extra)
    return Or(bound.is_unknown, forall(T.Int, lambda x: Implies(And(u64(x), pred(x)), x <= bound.value), sample=smp))


def _pred_true(ins, c):
    return lambda x: cmp_sem(ins, x, c)


def _pred_false(ins, c):
    return lambda x: Or(Not(cmp_sem(ins, x, c)), Not(IsInstance(ins, SIXOPS)))


ensures(c, "true_sound_left", lambda comparison_ins, compared_value, result:
        Implies(And(Not(compared_value.is_unknown), u64(compared_value.value)),
                sound_bound(result[0], _pred_true(comparison_ins, compared_value.value), [compared_value.value])))
ensures(c, "false_sound_left", lambda comparison_ins, compared_value, result:
        Implies(And(Not(compared_value.is_unknown), u64(compared_value.value)),
                sound_bound(result[1], _pred_false(comparison_ins, compared_value.value), [compared_value.value])))
ensures(c, "true_exact_left", lambda comparison_ins, compared_value, result:
        Implies(And(Not(compared_value.is_unknown), u64(compared_value.value)),
                tight_bound(result[0], _pred_true(comparison_ins, compared_value.value), [compared_value.value])), known=_D18)
ensures(c, "false_exact_left", lambda comparison_ins, compared_value, result:
        Implies(And(Not(compared_value.is_unknown), u64(compared_value.value)),
                tight_bound(result[1], _pred_false(comparison_ins, compared_value.value), [compared_value.value])), known=_D18)


def _reify_max_value(mv, ob):
    from pyvc.replay import reify_object
    from tealer.analyses.dataflow.transaction_context.fee_field import FeeValue
    from tealer.teal.instructions.instructions import Instruction
    ins = reify_object(mv, mv.int(ob.inputs["comparison_ins"].term)) or Instruction()
    cv = ob.inputs["compared_value"]
    fv = FeeValue(is_unknown=mv.bool(cv.fields["is_unknown"].term), value=mv.int(cv.fields["value"].term))
    from pyvc.execbase import TYPEOF
    yield {"args": {"comparison_ins": ins, "compared_value": fv},
           "repr": {"comparison_ins": type(ins).__name__, "compared_value": repr(fv)},
           "block": [TYPEOF(ob.inputs["comparison_ins"].term), cv.fields["value"].term]}


c.reify = _reify_max_value
ensures(c, "unknown_is_top_or_unknown", lambda compared_value, result:
        Implies(compared_value.is_unknown, And(Or(result[0].is_unknown, result[0].value == M),
                                               Or(result[1].is_unknown, result[1].value == M))))
must_fail(c, "canary", lambda comparison_ins, compared_value, result:
          Implies(And(Not(compared_value.is_unknown), u64(compared_value.value)),
                  tight_bound(result[0], lambda x: cmp_sem(comparison_ins, compared_value.value, x))))

SVREF = T.Ref("KnownStackValue")
c = contract(F + "_get_asserted_fee", params={"self": T.Ref("FeeField"), "key": T.Str, "ins_stack_value": SVREF},
             returns=T.Tuple(T.Rec("FeeValue"), T.Rec("FeeValue")), ghost={"v": T.Abs("Visit")},
             touch=["ins_stack_value"], tags=["C09", "C01", "C03"])
from spec.keys import valid_key, key_base
import contracts.key_helpers  # noqa: F401
requires(c, "valid_key", lambda key: And(valid_key(key), Eq(key_base(key), "Fee")))
ensures(c, "wf", lambda result: And(wf_fee(result[0]), wf_fee(result[1])))
ensures(c, "true_sound", lambda key, ins_stack_value, result, v:
        Implies(And(keydef(v, key), u64(keyfld(v, key)), ev(v, ins_stack_value) != 0),
                Or(result[0].is_unknown, keyfld(v, key) <= result[0].value)), tags=["C09", "C01"])
ensures(c, "false_sound", lambda key, ins_stack_value, result, v:
        Implies(And(keydef(v, key), u64(keyfld(v, key)), ev(v, ins_stack_value) == 0),
                Or(result[1].is_unknown, keyfld(v, key) <= result[1].value)), tags=["C09", "C01"])


def _arg(sv, i):
    from pyvc.values import V as _V
    if isinstance(sv, _V):
        return sv.args[i]
    return sv.args[i] if len(sv.args) > i else None


def _direct(key, sv, field_pos):
    """sv = `a0 OP a1` with a_{field_pos} a read of the key's field and the other operand a readable int literal."""
    a0, a1 = _arg(sv, 0), _arg(sv, 1)
    fa, ca = (a0, a1) if field_pos == 0 else (a1, a0)
    return And(IsInstance(sv.instruction, SIXOPS), IsInstance(a0, "KnownStackValue"), IsInstance(a1, "KnownStackValue"),
               is_field_read(key, fa), Not(is_field_read(key, ca)))


def _d18_sv(ins_stack_value):
    """D18 seen from the caller: one operand is the literal 2^64-1"""
    def lit_m(x):
        i = _known_ins(x)
        return And(IsInstance(x, "KnownStackValue"), has_int_lit(i), int_lit(i) == M) if i is not None else False
    return Or(lit_m(_arg(ins_stack_value, 0)), lit_m(_arg(ins_stack_value, 1)))


ensures(c, "exact_field_left", lambda key, ins_stack_value, result: _exact(key, ins_stack_value, result, 0),
        tags=["C09", "C03"], known={"D18": _d18_sv})
ensures(c, "exact_field_right", lambda key, ins_stack_value, result: _exact(key, ins_stack_value, result, 1),
        tags=["C09", "C03"], known={"D18": _d18_sv})


def _exact(key, sv, result, pos):
    a0, a1 = _arg(sv, 0), _arg(sv, 1)
    ca = a1 if pos == 0 else a0
    cins = _known_ins(ca)
    cval = int_lit(cins)
    sem_t = (lambda x: cmp_sem(sv.instruction, x, cval)) if pos == 0 else (lambda x: cmp_sem(sv.instruction, cval, x))
    return Implies(And(_direct(key, sv, pos), has_int_lit(cins), u64(cval)),
                   And(tight_bound(result[0], sem_t, [cval]), tight_bound(result[1], lambda x: Not(sem_t(x)), [cval])))


def _known_ins(sv):
    """instruction of a stack value known (by the clause's own hypothesis) to be a KnownStackValue"""
    from pyvc.values import VUnion, VRef
    from pyvc.loader import class_table
    K = class_table().cls("KnownStackValue")
    if isinstance(sv, VUnion):
        for g, alt in sv.alts:
            if isinstance(alt, VRef) and alt.cls is K:
                return alt.instruction
    return getattr(sv, "instruction", None)


must_fail(c, "canary", lambda key, ins_stack_value, result, v:
          Implies(And(keydef(v, key), u64(keyfld(v, key)), ev(v, ins_stack_value) != 0),
                  Or(result[1].is_unknown, keyfld(v, key) <= result[1].value)))
from contracts.reify_sv import make_reifier
c.reify = make_reifier(["Fee"], "FeeField")
