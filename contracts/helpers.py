"""Contracts of the helper functions the analysis kernels call (DESIGN.md §6.1, §6.4)."""
from pyvc.dsl import (contract, requires, ensures, must_fail, And, Or, Not, Implies, If, Iff, Eq, forall, IsInstance,
                      IsNone, IsInt, IsStr, AsInt, AsStr)
from pyvc.values import T
from spec.avm_axioms import ev, VAL, NAMED, NAMED_CONSTANTS
from spec.ghost import is_field_read, keydef, keyfld, has_int_lit, int_lit, is_field_read_f, keyfld_f
from pyvc.values import VInt, VBool
import z3

SV = T.RefU("KnownStackValue", "UnknownStackValue")
VISIT = T.Abs("Visit")

# ---- tealer/utils/analyses.py::is_int_push_ins -------------------------------------------------------------
c = contract("tealer/utils/analyses.py::is_int_push_ins", params={"ins": T.Ref("Instruction")},
             returns=T.Tuple(T.Bool, T.Union(T.NoneT, T.Int, T.Str)), ghost={"v": VISIT}, tags=["C01", "C15"],
             trusted=True, trusted_reason="body verification pending (C15 stage)")
ensures(c, "lit_value", lambda ins, result, v: Implies(And(result[0], IsInt(result[1])),
        And(has_int_lit(ins), Eq(int_lit(ins), AsInt(result[1])),
            VBool(VAL(v.term, ins.term, 0) == AsInt(result[1]).term),
            AsInt(result[1]) >= 0, AsInt(result[1]) <= 2 ** 64 - 1)))
ensures(c, "lit_named", lambda ins, result, v: Implies(And(result[0], IsStr(result[1])),
        And(VBool(VAL(v.term, ins.term, 0) == NAMED(AsStr(result[1]).term)),
            Or(*[Eq(AsStr(result[1]), n) for n in NAMED_CONSTANTS]))),
        note="a named constant denotes its assembler value; only the assembler's names occur in valid programs")
ensures(c, "push_class", lambda ins, result: Implies(result[0], IsInstance(ins, ("Int", "PushInt", "IntcInstruction"))))
ensures(c, "lit_exact", lambda ins, result: Iff(has_int_lit(ins), And(result[0], IsInt(result[1]))))
ensures(c, "none_iff", lambda result: Implies(Not(result[0]), IsNone(result[1])))

# ---- key_helpers.is_value_matches_key -------------------------------------------------------------------------
c = contract("tealer/analyses/dataflow/transaction_context/utils/key_helpers.py::is_value_matches_key",
             params={"analysis_key": T.Str, "stack_value": T.Ref("KnownStackValue"),
                     "key_field": T.Union(T.NoneT, T.Cls("TransactionField"))},
             returns=T.Bool, ghost={"v": VISIT}, tags=["C10", "C01", "C03"],
             trusted=True, trusted_reason="body verification pending (C10 stage)")
ensures(c, "exact", lambda analysis_key, stack_value, key_field, result:
        Implies(IsNone(key_field), Iff(result, is_field_read(analysis_key, stack_value))))
ensures(c, "sound", lambda analysis_key, stack_value, key_field, result, v:
        Implies(And(IsNone(key_field), result, keydef(v, analysis_key)),
                Eq(ev(v, stack_value, 0), keyfld(v, analysis_key))))
ensures(c, "exact_f", lambda analysis_key, stack_value, key_field, result:
        Implies(Not(IsNone(key_field)), lambda: Iff(result, is_field_read_f(analysis_key, stack_value, key_field))))
ensures(c, "sound_f", lambda analysis_key, stack_value, key_field, result, v:
        Implies(And(Not(IsNone(key_field)), result, keydef(v, analysis_key)),
                lambda: Eq(ev(v, stack_value, 0), keyfld_f(v, analysis_key, key_field))))
