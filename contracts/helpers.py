"""Contracts of the helper functions the analysis kernels call (DESIGN.md §6.1, §6.4)."""
from pyvc.dsl import (contract, requires, assumes, ensures, must_fail, And, Or, Not, Implies, If, Iff, Eq, forall, IsInstance,
                      IsNone, IsInt, IsStr, AsInt, AsStr)
from pyvc.values import T
from spec.avm_axioms import ev, VAL, NAMED, NAMED_CONSTANTS
from spec.ghost import is_field_read, keydef, keyfld, has_int_lit, int_lit, is_field_read_f, keyfld_f
from pyvc.values import VInt, VBool
import z3

SV = T.RefU("KnownStackValue", "UnknownStackValue")
VISIT = T.Abs("Visit")

# ---- tealer/utils/analyses.py::is_int_push_ins -------------------------------------------------------------
c = contract("tealer/utils/analyses.py::is_int_push_ins", params={"ins": T.Ref("Instruction")},
             returns=T.Tuple(T.Bool, T.Union(T.NoneT, T.Int, T.Str)), ghost={"v": VISIT}, tags=["C01", "C15", "C06", "C07", "C09", "C10"],
             raises=[("TealerException", None)])


def _ins_sem(ins, v):
    """instantiate the instruction-level semantics / ghost definitions for `ins` (symbolic mode only)"""
    from pyvc.values import V as _V
    if isinstance(ins, _V):
        from pyvc.dsl import current
        from spec.avm_axioms import int_push_ins_axioms
        ctx = current()
        ctx.st.pc.extend(int_push_ins_axioms(ctx.ex, ctx.st, ins.term, v.term))
    return True


assumes(c, "sem", lambda ins, v: _ins_sem(ins, v))
ensures(c, "lit_value", lambda ins, result, v: Implies(And(result[0], IsInt(result[1])),
        lambda: And(has_int_lit(ins), Eq(int_lit(ins), AsInt(result[1])),
            VBool(VAL(v.term, ins.term, 0) == AsInt(result[1]).term),
            AsInt(result[1]) >= 0, AsInt(result[1]) <= 2 ** 64 - 1)))
ensures(c, "lit_named", lambda ins, result, v: Implies(And(result[0], IsStr(result[1])),
        lambda: And(VBool(VAL(v.term, ins.term, 0) == NAMED(AsStr(result[1]).term)),
            Or(*[Eq(AsStr(result[1]), n) for n in NAMED_CONSTANTS]))),
        note="a named constant denotes its assembler value; only the assembler's names occur in valid programs")
def _imm_value(ins, cname):
    from pyvc.values import V as _V, VRef
    if isinstance(ins, _V):
        from pyvc.dsl import current
        from pyvc.loader import class_table
        ex, st = current().ex, current().st
        C = class_table().cls(cname)
        val, st2 = ex.read_field(VRef(ins.term, C, ex), C, "_value", st)
        st.pc[:] = st2.pc
        return val
    return ins.value


ensures(c, "lit_is_immediate", lambda ins, result: And(
        Implies(IsInstance(ins, "Int"), lambda: And(result[0], Eq(result[1], _imm_value(ins, "Int")))),
        Implies(IsInstance(ins, "PushInt"), lambda: And(result[0], Eq(result[1], _imm_value(ins, "PushInt"))))),
        note="for int / pushint the reported value is the immediate as written (number or name)")
ensures(c, "push_class", lambda ins, result: Iff(result[0], IsInstance(ins, ("Int", "PushInt", "IntcInstruction"))),
        note="exactly the literal-pushing opcodes (int, pushint, intc*) are reported as pushing an integer, whether or not the value is known")
ensures(c, "lit_exact", lambda ins, result: Iff(has_int_lit(ins), And(result[0], IsInt(result[1]))))
ensures(c, "none_iff", lambda result: Implies(Not(result[0]), IsNone(result[1])))

