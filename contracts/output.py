"""Contracts for tealer/utils/output.py (C18): `--filter-paths` removes exactly the paths whose short notation matches the pattern.

`ExecutionPaths.filter_paths`: after the call `self.paths` holds exactly the paths of the old list whose short notation the
pattern does *not* match (`re.search` is an uninterpreted relation RE_SEARCH(pattern, text), the short notation an uninterpreted
function SHORT(path) -- `_short_notation` is named, its text is decided by the bounded stand-in); the empty pattern is "no filter";
no path list is written, only the attribute is re-bound.  Order and multiplicity of the kept paths are not part of this clause
(the stand-in compares the lists).
"""
from pyvc.dsl import (contract, requires, ensures, must_fail, invariant, And, Or, Not, Implies, Iff, Eq, ForallIdx, ExistsIdx, Len, current, _sym)
from pyvc.values import T, V, VBool, VStr
from pyvc.builtins_ import RE_SEARCH
import z3

O = "tealer/utils/output.py::"
PATH = T.List(T.Ref("BasicBlock"))
EP = T.Ref("ExecutionPaths")
SHORT = z3.Function("SHORT_NOTATION", z3.IntSort(), z3.StringSort())

c = contract(O + "ExecutionPaths._short_notation", params={"path_bbs": PATH}, returns=T.Str, trusted=True,
             trusted_reason="naming: the short notation is a function of the path (its text is checked by the stand-in)", tags=["C18"])
ensures(c, "name", lambda path_bbs, result: VBool(result.term == SHORT(path_bbs.ref)) if _sym(path_bbs, result) else True, naming=True)


def _matches(filter_regex, p):
    """the pattern is found in the short notation of path p"""
    if _sym(filter_regex, p):
        return VBool(RE_SEARCH(filter_regex.term, SHORT(p.ref)))
    import re
    from tealer.utils.output import ExecutionPaths
    return re.search(filter_regex, ExecutionPaths._short_notation(p)) is not None      # pylint: disable=protected-access


def _same(p, q):
    return VBool(p.ref == q.ref) if _sym(p, q) else p is q


def _kept_exactly(new_paths, old_paths, filter_regex, upto=None):
    """new = the old paths (< upto) that the pattern does not match"""
    return And(ForallIdx(new_paths, lambda k, p: And(Not(_matches(filter_regex, p)), ExistsIdx(old_paths, lambda j, q: _same(p, q), upto=upto))),
               ForallIdx(old_paths, lambda j, q: Implies(Not(_matches(filter_regex, q)), lambda: ExistsIdx(new_paths, lambda k, p: _same(p, q))), upto=upto))


def _paths(self, view=None):
    if isinstance(self, V):
        ctx = current()
        from pyvc.loader import class_table
        K = class_table().cls("ExecutionPaths")
        v, _ = ctx.ex.read_field(self, K, "paths", view.st if view is not None else ctx.st)
        return v
    return self.paths


c = contract(O + "ExecutionPaths.filter_paths", params={"self": EP, "filter_regex": T.Str}, tags=["C18"], modifies=["F:ExecutionPaths.paths"])
c.allocates = True
c.local_types = {"filtered_paths": T.List(PATH)}
ensures(c, "empty_pattern_is_no_filter", lambda self, filter_regex, old, new: Implies(Eq(filter_regex, ""), lambda: VBool(_paths(self, new).ref == _paths(self, old).ref)
                                                                              if _sym(self) else True),
        note="the option's default, the empty pattern, leaves the list as it is")
ensures(c, "removes_exactly_matching", lambda self, filter_regex, old, new: Implies(Not(Eq(filter_regex, "")), lambda:
        _kept_exactly(_paths(self, new), _paths(self, old), filter_regex)) if _sym(self) else True,
        note="the paths left are exactly the old paths whose short notation the pattern does not match")
def _only_self(self, old, new):
    if not _sym(self):
        return True
    a0, a1 = old.heap("F:ExecutionPaths.paths"), new.heap("F:ExecutionPaths.paths")
    if a0 is None or a1 is None or a0.eq(a1):
        return True
    r = z3.Int("ep_r")
    return VBool(z3.ForAll([r], z3.Implies(r != self.term, z3.Select(a1, r) == z3.Select(a0, r))))


ensures(c, "other_results_untouched", lambda self, old, new: _only_self(self, old, new),
        note="the path list of no other detector result is re-bound")
must_fail(c, "keeps_all", lambda self, old, new: VBool(Len(_paths(self, new)).term == Len(_paths(self, old)).term))
must_fail(c, "drops_all", lambda self, new: Len(_paths(self, new)) == 0)
invariant(c, 1, "path", lambda it, i, filter_regex, filtered_paths: And(i <= Len(it), _kept_exactly(filtered_paths, it, filter_regex, upto=i)), label="kept_so_far")
