"""Table obligations (DESIGN.md §6.9; C11 stack effect, C19 cost/version/mode): every instruction class against the
AVM opcode table spec/avm_ops.py, for ALL immediates (loop-free property bodies: the symbolic proof is complete).

The mnemonic -> class map is obtained by parsing one sample line per mnemonic with the real parser (the parser itself is
checked under C16).  stack_pop_size / stack_push_size / cost are proved symbolically; version and mode do not depend on
immediates in the AVM and are compared natively on the sample instance (exhaustive over classes; see bounded/tablecheck.py).
"""
from pyvc.dsl import contract, requires, ensures, And, Or, Not, Implies, If, Eq, IsNone, Len
from pyvc.values import T, V, VInt, VUnion, VRef
from spec.avm_ops import OPS

SAMPLES = {
    "int": "int 1", "pushint": "pushint 1", "pushints": "pushints 1 2 3", "txn": "txn Fee", "txna": "txna ApplicationArgs 0",
    "gtxn": "gtxn 0 Fee", "gtxna": "gtxna 0 ApplicationArgs 0", "gtxns": "gtxns Fee", "gtxnsa": "gtxnsa ApplicationArgs 0",
    "load": "load 1", "store": "store 1", "gload": "gload 0 1", "gloads": "gloads 1", "gaid": "gaid 0", "dig": "dig 2",
    "extract": "extract 1 2", "ecdsa_verify": "ecdsa_verify Secp256k1", "ecdsa_pk_decompress": "ecdsa_pk_decompress Secp256k1",
    "ecdsa_pk_recover": "ecdsa_pk_recover Secp256k1", "global": "global GroupSize", "dupn": "dupn 2", "cover": "cover 2",
    "uncover": "uncover 2", "b": "b l", "bz": "bz l", "bnz": "bnz l", "callsub": "callsub l",
    "asset_holding_get": "asset_holding_get AssetBalance", "asset_params_get": "asset_params_get AssetTotal",
    "app_params_get": "app_params_get AppCreator", "acct_params_get": "acct_params_get AcctBalance",
    "itxn_field": "itxn_field Fee", "itxn": "itxn Fee", "itxna": "itxna ApplicationArgs 0", "gitxn": "gitxn 0 Fee",
    "gitxna": "gitxna 0 ApplicationArgs 0", "gitxnas": "gitxnas 0 ApplicationArgs", "txnas": "txnas ApplicationArgs",
    "itxnas": "itxnas ApplicationArgs", "gtxnas": "gtxnas 0 ApplicationArgs", "gtxnsas": "gtxnsas ApplicationArgs",
    "popn": "popn 2", "addr": "addr AAAAAAAAAAAAAAAAAAAAAAAAAAAAAAAAAAAAAAAAAAAAAAAAAAAAY5HFKQ", "intcblock": "intcblock 1 2",
    "intc": "intc 1", "bytec": "bytec 1", "arg": "arg 1", "substring": "substring 1 2", "replace2": "replace2 1",
    "base64_decode": "base64_decode URLEncoding", "json_ref": "json_ref JSONString", "vrf_verify": "vrf_verify VrfAlgorand",
    "block": "block BlkSeed", "bury": "bury 2", "proto": "proto 1 1", "frame_dig": "frame_dig 1", "frame_bury": "frame_bury 1",
    "switch": "switch l1 l2", "match": "match l1 l2", "byte": "byte 0x00", "pushbytes": "pushbytes 0x00",
    "pushbytess": "pushbytess 0x00 0x01", "bytecblock": "bytecblock 0x00 0x01",
}


def class_of(mn):
    from tealer.teal.instructions.parse_instruction import parse_line
    ins = parse_line(SAMPLES.get(mn, mn))
    return type(ins), ins


def _imm_fields(cls):
    """(first int immediate field, first list immediate field) of the class, from its __init__ (mechanical)"""
    from pyvc.replay import init_param_fields, _DummyTyper
    n_field = l_field = None
    for pname, attr, definer, ann in init_param_fields(cls):
        if attr is None:
            continue
        try:
            ty = _DummyTyper().field_type(definer, attr)
        except Exception:
            continue
        if ty.kind == "int" and n_field is None:
            n_field = (definer, attr)
        if ty.kind == "list" and l_field is None:
            l_field = (definer, attr)
    return n_field, l_field


def _spec_expr(x, self_):
    """value of a pops/pushes entry for the symbolic / native instance self_"""
    if isinstance(x, int):
        return x
    cls = self_.cls if isinstance(self_, VRef) else type(self_)
    n_field, l_field = _imm_fields(cls)
    env = {}
    if "n" in x.replace("len", ""):
        if n_field is None:
            raise AssertionError(f"{cls.__name__}: no integer immediate field for spec expression {x}")
        env["n"] = _read(self_, *n_field)
    if "len" in x:
        if l_field is None:
            raise AssertionError(f"{cls.__name__}: no list immediate field for spec expression {x}")
        env["len"] = Len(_read(self_, *l_field))
    return eval(x, {}, env)


def _read(self_, definer, attr):
    if isinstance(self_, VRef):
        from pyvc.dsl import current
        ctx = current()
        v, st2 = ctx.ex.read_field(self_, definer, attr, ctx.st)
        ctx.st.pc[:] = st2.pc
        return v
    return getattr(self_, attr)


def _nonneg_imms(self_):
    cls = self_.cls
    n_field, l_field = _imm_fields(cls)
    conds = []
    if n_field is not None:
        conds.append(_read(self_, *n_field) >= 0)
    return And(*conds) if conds else True


I = "tealer/teal/instructions/instructions.py::"
GENERATED = []


def _gen():
    import inspect
    from tealer.teal.instructions.instructions import Instruction
    for mn, (pops, pushes, ver, mode, cost) in OPS.items():
        try:
            cls, _ = class_of(mn)
        except Exception:
            continue
        if cls.__name__ == "UnsupportedInstruction":
            continue
        for prop, spec in (("stack_pop_size", pops), ("stack_push_size", pushes)):
            definer = next((k for k in cls.__mro__ if prop in vars(k)), None)
            if definer is None or definer is Instruction:
                continue   # inherits the default 0: compared natively by bounded/tablecheck.py
            target = f"{I}{cls.__name__}.{prop}"
            c = contract(target, params={"self": T.Ref(cls)}, returns=T.Int, tags=["C11"], touch=[])
            requires(c, "imm_nonneg", lambda self: _nonneg_imms(self))

            def mk(spec, mn):
                return lambda self, result: Eq(result, _spec_expr(spec, self))
            known = {"D14": (lambda self: True)} if (mn == "frame_bury" and prop == "stack_push_size") else None
            ensures(c, f"{mn}:{prop}", mk(spec, mn), tags=["C11"], known=known)
            c.definer = definer
            GENERATED.append(target)


_gen()


# ---- cost (C19) -------------------------------------------------------------------------------------------------------------
def _teal_version(self_):
    """version of the contract the instruction belongs to (self.bb.teal.version), with the typing assumptions of a parsed
    instruction: bb and teal are set"""
    if isinstance(self_, VRef):
        from pyvc.dsl import current
        from pyvc.loader import class_table
        ctx = current()
        ex = ctx.ex
        ct = class_table()
        I_, BB, TL = ct.cls("Instruction"), ct.cls("BasicBlock"), ct.cls("Teal")
        bb, st2 = ex.read_field(VRef(self_.term, I_, ex), I_, "_bb", ctx.st)
        ctx.st.pc[:] = st2.pc
        bbref = [a for g, a in bb.alts if isinstance(a, VRef)][0]
        bb_set = Not(IsNone(bb))
        teal, st2 = ex.read_field(bbref, BB, "_teal", ctx.st)
        ctx.st.pc[:] = st2.pc
        tref = [a for g, a in teal.alts if isinstance(a, VRef)][0]
        ver, st2 = ex.read_field(tref, TL, "_version", ctx.st)
        ctx.st.pc[:] = st2.pc
        return And(bb_set, Not(IsNone(teal))), ver
    return True, self_.bb.teal.version


def _curve(self_):
    return _read(self_, type(self_) if not isinstance(self_, VRef) else self_.cls, "_idx")


def _gen_cost():
    from tealer.teal.instructions.instructions import Instruction
    from spec.avm_ops import static_cost
    for mn, (pops, pushes, ver, mode, cost) in OPS.items():
        try:
            cls, _ = class_of(mn)
        except Exception:
            continue
        if cls.__name__ == "UnsupportedInstruction":
            continue
        definer = next((k for k in cls.__mro__ if "cost" in vars(k)), None)
        if definer is None or definer is Instruction:
            continue
        target = f"{I}{cls.__name__}.cost"
        c = contract(target, params={"self": T.Ref(cls)}, returns=T.Int, tags=["C19"], raises=[("ValueError", None)])
        requires(c, "parsed", lambda self: And(_teal_version(self)[0], _teal_version(self)[1] >= 1, _teal_version(self)[1] <= 8))

        def mkv(cls):
            from tealer.teal.instructions.instructions import Instruction as _I
            sample_version = class_of(mn)[1].version
            # class constant set by __init__ (its agreement with the AVM table is checked by bounded/tablecheck.py)
            return lambda self: Eq(_read(self, _I, "_version"), sample_version)
        requires(c, "class_version", mkv(cls))

        def mk(mn, ver, cost):
            def f(self, result):
                v = _teal_version(self)[1]
                if isinstance(cost, dict) and "curve" in cost:
                    cur = _curve(self)
                    return Implies(v >= ver, And(*[Implies(Eq(cur, name), Eq(result, cval)) for name, cval in cost["curve"].items()]))
                if isinstance(cost, dict):
                    return Implies(v >= ver, Eq(result, If(v == 1, cost["v1"], cost["v2+"])))
                return Implies(v >= ver, Eq(result, cost))
            return f
        ensures(c, f"{mn}:cost", mk(mn, ver, cost), tags=["C19"])
        GENERATED.append(target)


_gen_cost()


# ---- the `replace` pseudo-op (no row of its own in the AVM table: `replace S` assembles to replace2 S, bare `replace` to
# replace3; DESIGN §5.2) ------------------------------------------------------------------------------------------------------
def _gen_replace():
    from tealer.teal.instructions.instructions import Replace
    for prop, with_imm, without in (("stack_pop_size", OPS["replace2"][0], OPS["replace3"][0]),
                                    ("stack_push_size", OPS["replace2"][1], OPS["replace3"][1])):
        if prop not in vars(Replace):
            continue
        target = f"{I}Replace.{prop}"
        c = contract(target, params={"self": T.Ref(Replace)}, returns=T.Int, tags=["C11"], touch=[])

        def mk(with_imm, without):
            return lambda self, result: Eq(result, If(IsNone(_read(self, Replace, "_idx")), without, with_imm))
        ensures(c, f"replace:{prop}", mk(with_imm, without), tags=["C11"],
                note="`replace S` (any S, 0 included) is replace2 S: pops 2; bare `replace` is replace3: pops 3")

        def _samples():
            for idx in (None, 0, 1, 2, 255):
                yield {"self": Replace(idx)}
        c.samples = _samples
        GENERATED.append(target)


_gen_replace()
