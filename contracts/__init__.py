"""Sidecar contracts (DESIGN.md §2.3, §6).  /repo is never edited for them."""
import importlib

MODULES = ["helpers", "key_helpers", "stack_ast", "fee_field", "int_fields", "txn_types", "addr_fields", "generic", "tables", "parse_teal", "detectors", "engine", "store", "addr_store", "regex", "dispatch", "output"]


def load_all():
    for m in MODULES:
        importlib.import_module(f"contracts.{m}")
