"""DRAFT, not loaded: structure / safety contract of forward_analyis (DESIGN.md §12.5, "not built").  The invariants are
right as far as they were debugged, but 8 of 32 obligations stay undecided (quantified requires clauses swamp the solver), so the
contract is not registered: an undecided or spuriously refuted obligation on the unchanged tree would be an alarm.  The fixpoint
and the call chain are decided on bounded inputs by bounded/enginecheck.py."""
# appended to contracts/engine.py when worked on:

# ---- forward_analyis / backward_analysis: structure and safety (the fixpoint itself: run-time contract, bounded/enginecheck.py) --
INBLK = z3.Function("INBLK", z3.IntSort(), z3.IntSort(), z3.BoolSort())      # block is one of function.blocks
IDXOF = z3.Function("IDXOF", z3.IntSort(), z3.IntSort(), z3.IntSort())
DCOMPS = [("D.map:String->Int", z3.IntSort(), z3.ArraySort(z3.StringSort(), z3.IntSort())),
          ("D.dom:String", z3.IntSort(), z3.ArraySort(z3.StringSort(), z3.BoolSort())),
          (MIDS, z3.IntSort(), z3.ArraySort(z3.IntSort(), z3.IntSort())),
          (CELLS, z3.IntSort(), z3.ArraySort(z3.IntSort(), AbsVal)),
          ("D.dom:Int", z3.IntSort(), z3.ArraySort(z3.IntSort(), z3.BoolSort()))]


def FA(vs, body, pat=None):
    """ForAll with a pattern where z3 accepts it (reads of stored / lambda arrays are not valid patterns)"""
    if pat is not None:
        try:
            return z3.ForAll(vs, body, patterns=[pat])
        except z3.Z3Exception:
            pass
    return z3.ForAll(vs, body)


def blocks_of(self):
    return fn_of(self)._blocks


def inblk_def(self):
    """INBLK(f, b) <=> b occurs in f.blocks (with IDXOF as the witness position)"""
    ctx = current()
    f = fn_of(self).term
    bl = blocks_of(self)
    n = ctx.ex.list_len(bl, ctx.st).term
    m, b = z3.Int(fresh_name("bm")), z3.Int(fresh_name("bb"))
    at = lambda j: ctx.ex.list_get(bl, j, ctx.st).term     # noqa: E731
    return VBool(z3.And(
        FA([m], z3.Implies(z3.And(m >= 0, m < n), INBLK(f, at(m))), at(m)),
        z3.ForAll([b], z3.Implies(INBLK(f, b), z3.And(IDXOF(f, b) >= 0, IDXOF(f, b) < n, at(IDXOF(f, b)) == b)), patterns=[INBLK(f, b)])))


def cfg_closed(self):
    """function.blocks is closed under the global successor / predecessor observations, and its members are blocks"""
    ctx = current()
    f = fn_of(self).term
    b, m = z3.Int(fresh_name("cb")), z3.Int(fresh_name("cm"))
    r = VRef(b, ctx.ex.ct.cls("BasicBlock"), ctx.ex)
    srp = nprop("BasicBlock", "sub_return_point", b)
    srp_ref = next(v for _, v in srp.alts if isinstance(v, VRef)).term
    return VBool(z3.ForAll([b], z3.Implies(INBLK(f, b), z3.And(
        ctx.ex.type_constraint(r),
        NBG_LEN(f, b) >= 0, PBG_LEN(f, b) >= 0,
        z3.ForAll([m], z3.Implies(z3.And(m >= 0, m < NBG_LEN(f, b)), INBLK(f, NBG_AT(f, b, m))), patterns=[NBG_AT(f, b, m)]),
        z3.ForAll([m], z3.Implies(z3.And(m >= 0, m < PBG_LEN(f, b)), INBLK(f, PBG_AT(f, b, m))), patterns=[PBG_AT(f, b, m)]),
        z3.Implies(z3.And(nprop("BasicBlock", "is_callsub_block", b).term, z3.Not(srp.is_none().term)), INBLK(f, srp_ref)),
        z3.Implies(nprop("BasicBlock", "is_sub_return_point", b).term, INBLK(f, nprop("BasicBlock", "callsub_block", b).term)))),
        patterns=[INBLK(f, b)]))


def contexts_ready(self, keys, st=None):
    """for every analysis key: block and path contexts exist for every block of the function (and every global edge)"""
    ctx = current()
    st = st or ctx.st
    f = fn_of(self).term
    b, m = z3.Int(fresh_name("rb")), z3.Int(fresh_name("rm"))
    bdom, pdom = ctx.ex.dict_dom(self._block_contexts, st), ctx.ex.dict_dom(self._path_contexts, st)

    def one(j, k):
        pin = p_inner(self, k, b, st)
        return z3.And(z3.Select(bdom, k), z3.Select(pdom, k),
                      z3.ForAll([b], z3.Implies(INBLK(f, b), z3.And(
                          dhas(inner_of(self._block_contexts, k, st), b, st), dhas(p_mid(self, k, st), b, st),
                          z3.ForAll([m], z3.Implies(z3.And(m >= 0, m < PBG_LEN(f, b)), dhas(pin, PBG_AT(f, b, m), st)),
                                    patterns=[PBG_AT(f, b, m)]))), patterns=[INBLK(f, b)]))
    return _all_j(keys, one)


def entry_heap_closed(self, st=None):
    """every dict stored in a dict that exists at entry exists at entry too (addresses below alloc0)"""
    from pyvc.state import ALLOC0
    ctx = current()
    st = st or ctx.st
    d, k, s_ = z3.Int(fresh_name("hd")), z3.Int(fresh_name("hk")), z3.String(fresh_name("hs"))
    outer = st.harr("D.map:String->Int", z3.IntSort(), z3.ArraySort(z3.StringSort(), z3.IntSort()))
    mid = st.harr(MIDS, z3.IntSort(), z3.ArraySort(z3.IntSort(), z3.IntSort()))
    return VBool(z3.And(
        z3.ForAll([d, s_], z3.Implies(z3.And(d > 0, d < ALLOC0), z3.And(z3.Select(z3.Select(outer, d), s_) < ALLOC0)), patterns=[z3.Select(z3.Select(outer, d), s_)]),
        z3.ForAll([d, k], z3.Implies(z3.And(d > 0, d < ALLOC0), z3.And(z3.Select(z3.Select(mid, d), k) < ALLOC0)), patterns=[z3.Select(z3.Select(mid, d), k)]),
        self._block_contexts.ref < ALLOC0, self._path_contexts.ref < ALLOC0, self._block_contexts.ref > 0, self._path_contexts.ref > 0))


def entry_dicts_unchanged(entry, cur, except_outer_of=None):
    """no dict object that existed at entry has been written (optionally except the outer dict `except_outer_of`)"""
    from pyvc.state import ALLOC0
    r = z3.Int(fresh_name("ur"))
    parts = []
    for key, dom, rng in DCOMPS:
        a0, a1 = entry.st.harr(key, dom, rng), cur.st.harr(key, dom, rng)
        guard = z3.And(r > 0, r < ALLOC0)
        if except_outer_of is not None and key.endswith(("String->Int", "dom:String")):
            guard = z3.And(guard, r != except_outer_of)
        parts.append(z3.ForAll([r], z3.Implies(guard, z3.Select(a1, r) == z3.Select(a0, r))))
    return z3.And(parts)


def table_ready(self, keys, table, upto=None, cur_key=None, blocks_upto=None):
    """the per-key tables of `table` are fresh, pairwise different dicts holding a cell for every block"""
    from pyvc.state import ALLOC0
    ctx = current()
    st = ctx.st
    f = fn_of(self).term
    tdom, tmap = ctx.ex.dict_dom(table, st), ctx.ex.dict_map(table, st)
    a, b2 = z3.Int(fresh_name("ta")), z3.Int(fresh_name("tb"))
    b, m = z3.Int(fresh_name("tk")), z3.Int(fresh_name("tm"))
    n = ctx.ex.list_len(keys, st).term if upto is None else upto
    bl = blocks_of(self)
    full = _all_j(keys, lambda j, k: z3.And(z3.Select(tdom, k), z3.Select(tmap, k) >= ALLOC0, z3.Select(tmap, k) < st.alloc_ptr(),
                                            z3.ForAll([b], z3.Implies(INBLK(f, b), dhas(inner_of(table, k), b)), patterns=[INBLK(f, b)])), upto)
    inj = z3.ForAll([a, b2], z3.Implies(z3.And(0 <= a, a < b2, b2 < n), z3.Select(tmap, key_at(keys, a)) != z3.Select(tmap, key_at(keys, b2))))
    out = z3.And(full, inj, table.ref >= ALLOC0, table.ref < st.alloc_ptr())
    if cur_key is not None:
        cur = z3.Select(tmap, cur_key)
        out = z3.And(out, z3.Select(tdom, cur_key), cur >= ALLOC0, cur < st.alloc_ptr(),
                     z3.ForAll([a], z3.Implies(z3.And(0 <= a, a < n), z3.Select(tmap, key_at(keys, a)) != cur)),
                     z3.ForAll([m], z3.Implies(z3.And(m >= 0, m < blocks_upto), dhas(inner_of(table, cur_key), ctx.ex.list_get(bl, m, st).term))))
    return out


def all_in_blocks(self, lst):
    ctx = current()
    f = fn_of(self).term
    m = z3.Int(fresh_name("wm"))
    n = ctx.ex.list_len(lst, ctx.st).term
    e = ctx.ex.list_get(lst, m, ctx.st).term
    return FA([m], z3.Implies(z3.And(m >= 0, m < n), INBLK(f, e)), e)


FW = contract(G + "forward_analyis", params={"self": SELF, "analysis_keys": KEYS, "worklist": T.List(BB)}, returns=T.NoneT,
              modifies=["D.map:String->Int", "D.dom:String"],
              tags=["C01", "C03", "C06", "C07", "C08", "C09", "C10", "C14"], local_types={"global_reachout": TABLE})
c = FW
c.timeout_factor = 4.0
for _k in (1, 2, 3, 4, 5):
    c.loop_havoc[_k] = [k for k, _, _ in DCOMPS] + ["L.len", "L.elem:Int"]
assumes(c, "inblk_def", lambda self: inblk_def(self))
requires(c, "keys_distinct", lambda analysis_keys: keys_distinct(analysis_keys))
requires(c, "cfg_closed", lambda self: cfg_closed(self))
requires(c, "contexts_ready", lambda self, analysis_keys: VBool(contexts_ready(self, analysis_keys)))
requires(c, "entry_heap_closed", lambda self: entry_heap_closed(self))
requires(c, "worklist_of_blocks", lambda self, worklist: VBool(all_in_blocks(self, worklist)))
ensures(c, "tables_installed", lambda self, analysis_keys: VBool(_all_j(analysis_keys, lambda j, k: z3.And(
    z3.Select(current().ex.dict_dom(self._block_contexts, current().st), k),
    z3.ForAll([z3.Int("eb")], z3.Implies(INBLK(fn_of(self).term, z3.Int("eb")), dhas(inner_of(self._block_contexts, k), z3.Int("eb"))))))),
    note="after the pass every analysis key has a (new) table with a cell for every block of the function")
invariant(c, 1, "key", lambda it, i, self, analysis_keys, global_reachout, entry, cur: And(
    i <= Len(it), VBool(table_ready(self, analysis_keys, global_reachout, upto=i.term)),
    VBool(entry_dicts_unchanged(entry, cur))), label="tables_so_far")
invariant(c, 2, "b", lambda it, i, self, analysis_keys, global_reachout, key, entry, cur, i_key: And(
    i <= Len(it), VBool(table_ready(self, analysis_keys, global_reachout, upto=i_key.term, cur_key=key.term, blocks_upto=i.term)),
    VBool(entry_dicts_unchanged(entry, cur))), label="cells_so_far")
invariant(c, 3, "while", lambda self, analysis_keys, global_reachout, worklist, entry, cur: And(
    VBool(table_ready(self, analysis_keys, global_reachout)), VBool(entry_dicts_unchanged(entry, cur)),
    VBool(all_in_blocks(self, worklist))), label="structure")
invariant(c, 4, "bi", lambda it, i, self, analysis_keys, global_reachout, worklist, entry, cur: And(
    i <= Len(it), VBool(table_ready(self, analysis_keys, global_reachout)), VBool(entry_dicts_unchanged(entry, cur)),
    VBool(all_in_blocks(self, worklist)), VBool(all_in_blocks(self, it))), label="requeue")
invariant(c, 5, "key", lambda it, i, self, analysis_keys, global_reachout, entry, cur: And(
    i <= Len(it), VBool(table_ready(self, analysis_keys, global_reachout)),
    VBool(entry_dicts_unchanged(entry, cur, except_outer_of=self._block_contexts.ref)),
    VBool(_all_j(analysis_keys, lambda j, k: z3.And(
        z3.Select(current().ex.dict_dom(self._block_contexts, current().st), k),
        z3.Select(current().ex.dict_map(self._block_contexts, current().st), k) == z3.Select(current().ex.dict_map(global_reachout, current().st), k)),
        upto=i.term))), label="installed_so_far")
