"""DRAFT, not loaded by contracts.load_all: AddrFields._store_results (four unrolled keys x three nested loops under invariants, owner
view of the address records).  194 of 201 obligations are discharged; 7 (instantiation of the owner-view requirements at the current
block) stay undecided, so the contract is not registered.  The callee `_set_addr_values` is under contract (contracts/addr_store.py)."""
from pyvc.dsl import contract, requires, assumes, ensures, invariant, And, Len, current, REGISTRY
from pyvc.values import T, VBool, VRef, VDict, fresh_name, sort_of
import contracts.store as S
import contracts.addr_store as AS
from contracts.engine import fn_of, GKF
import z3

AF = "tealer/analyses/dataflow/transaction_context/addr_fields.py::AddrFields."
BB = T.Ref("BasicBlock")
AV = T.Ref("AddrFieldValue")
SSET = T.Set(T.Str)
KEYS = [("RekeyTo", "rekeyto"), ("CloseRemainderTo", "closeto"), ("AssetCloseTo", "assetcloseto"), ("Sender", "sender")]
AOWN_C = z3.Function("AOWN_C", z3.IntSort(), z3.IntSort())     # the context an address record belongs to
AOWN_F = z3.Function("AOWN_F", z3.IntSort(), z3.IntSort())     # ... and which of its four fields it is


def aobj(cterm, attr, st):
    return z3.Select(st.harr(f"F:BlockTransactionContext.{attr}", z3.IntSort(), z3.IntSort()), cterm)


def a_shown(cterm, attr, set_term, st):
    """the address record `attr` of the context shows the set (state st)"""
    a = aobj(cterm, attr, st)
    anyf = z3.Select(st.harr("F:AddrFieldValue.any_addr", z3.IntSort(), z3.BoolSort()), a)
    nof = z3.Select(st.harr("F:AddrFieldValue.no_addr", z3.IntSort(), z3.BoolSort()), a)
    lst = z3.Select(st.harr("F:AddrFieldValue.possible_addr", z3.IntSort(), z3.IntSort()), a)
    es = sort_of(T.Str)
    bag = z3.Select(st.harr(f"L.bag:{es}", z3.IntSort(), z3.ArraySort(es, z3.IntSort())), lst)
    x = z3.String(fresh_name("ax"))
    ANY, NO = z3.StringVal("ANY_ADDRESS"), z3.StringVal("NO_ADDRESS")
    return z3.And(anyf == z3.Select(set_term, ANY), nof == z3.Select(set_term, NO), lst > 0, lst < st.alloc_ptr(),
                  z3.ForAll([x], z3.Select(bag, x) == z3.If(z3.And(z3.Select(set_term, x), x != ANY, x != NO), 1, 0)))


def mk_dom(key, attr):
    def stored(self, cterm, kterm, bterm, old, new):
        return a_shown(cterm, attr, S._set_cell(self, kterm, bterm, old.st, SSET), new.st)
    return S.Dom(key, SSET, stored, [])


c = contract(AF + "_store_results", params={"self": T.Ref("AddrFields")}, returns=T.NoneT,
             modifies=["F:AddrFieldValue.any_addr", "F:AddrFieldValue.no_addr", "F:AddrFieldValue.possible_addr"], tags=["C08", "C13"])
c.field_types = {("DataflowTransactionContext", "_block_contexts"): T.Dict(T.Str, T.Dict(BB, SSET), default=True),
                 ("AddrFieldValue", "any_addr"): T.Bool, ("AddrFieldValue", "no_addr"): T.Bool,
                 ("AddrFieldValue", "possible_addr"): T.List(T.Str, "bag")}
for _k, _a in KEYS:
    c.field_types[("BlockTransactionContext", _a)] = AV
c.timeout_factor = 4.0
c.axiom_bags = True

HAV = ["F:AddrFieldValue.any_addr", "F:AddrFieldValue.no_addr", "F:AddrFieldValue.possible_addr", "L.bag:String"]
c.loop_havoc = {2: HAV, 3: HAV, 4: HAV}
DOMS = {k: mk_dom(k, a) for k, a in KEYS}
FIDX = {k: n for n, (k, a) in enumerate(KEYS)}


def arecs(self):
    """owner view of the address records: the record `attr` of a context of the function knows its context and its field"""
    from pyvc.state import ALLOC0
    ctx = current()
    st = ctx.st
    d = fn_of(self)._transaction_contexts
    b, i, o = z3.Int(fresh_name("rb")), z3.Int(fresh_name("ri")), z3.Int(fresh_name("ro"))
    has = z3.Select(ctx.ex.dict_dom(d, st), b)
    c0 = S._ctx_term(self, b, st)
    K = ctx.ex.ct.cls("AddrFieldValue")

    def rec_ok(cterm):
        parts = []
        for n, (k, attr) in enumerate(KEYS):
            a = aobj(cterm, attr, st)
            parts += [AOWN_C(a) == cterm, AOWN_F(a) == n, ctx.ex.type_constraint(VRef(a, K, ctx.ex))]
        return z3.And(parts)
    return VBool(S.FA([b], z3.Implies(has, z3.And(
        rec_ok(c0),
        S.FA([i], z3.Implies(z3.And(i >= 0, i < 16), z3.And(rec_ok(S._tail(c0, 1, i, st)), rec_ok(S._tail(c0, 2, i, st)))), S._tail(c0, 1, i, st)),
        S.FA([o], z3.Implies(z3.And(o >= -15, o <= 15, o != 0), rec_ok(S._tail(c0, 3, o, st))), S._tail(c0, 3, o, st)))), c0))


def genuine(a, st):
    return z3.Or([z3.And(AOWN_F(a) == n, a == aobj(AOWN_C(a), attr, st)) for n, (k, attr) in enumerate(KEYS)])


def untouched_a(self, entry, cur, done_fields, cur_field, progress):
    """address records that have not been written yet keep their three attributes"""
    f = fn_of(self).term
    a = z3.Int(fresh_name("ua"))
    ca, fa = AOWN_C(a), AOWN_F(a)
    w = z3.And(genuine(a, entry.st), z3.Or(z3.Or([fa == n for n in done_fields]) if done_fields else z3.BoolVal(False),
                                           z3.And(fa == cur_field, progress(ca))))
    same = []
    for fld, srt in (("any_addr", z3.BoolSort()), ("no_addr", z3.BoolSort()), ("possible_addr", z3.IntSort())):
        same.append(z3.Select(cur.st.harr(f"F:AddrFieldValue.{fld}", z3.IntSort(), srt), a)
                    == z3.Select(entry.st.harr(f"F:AddrFieldValue.{fld}", z3.IntSort(), srt), a))
    return z3.ForAll([a], z3.Implies(z3.Not(w), z3.And(same)))


def _keyname(key):
    return current().ex.concrete(key)


def prev_done(self, key, entry, cur):
    n = FIDX[_keyname(key)]
    return z3.And([S._blocks_done(self, entry, cur, None, DOMS[k]) for k, a in KEYS[:n]] or [z3.BoolVal(True)])


def tables_ready_all(self):
    return VBool(z3.And([S.tables_ready(self, DOMS[k]).term for k, a in KEYS]))


assumes(c, "inblk_def", lambda self: S._inblk(self))
assumes(c, "base_keys", lambda: And(*[S.det_valid_key(k) for k, a in KEYS]))
requires(c, "owners", lambda self: S.owners(self))
requires(c, "address_records", lambda self: arecs(self))
requires(c, "tables_ready", lambda self: tables_ready_all(self))
ensures(c, "stored", lambda self, old, new: VBool(z3.And([S._blocks_done(self, old, new, None, DOMS[k]) for k, a in KEYS])),
        note="for each of the four address fields and every block: the own / per-index / absolute / relative contexts show the "
             "computed address set (markers as flags, the other members listed once)")
invariant(c, 2, "block", lambda it, i, self, key, entry, cur: And(
    i <= Len(it), VBool(prev_done(self, key, entry, cur)),
    VBool(S._blocks_done(self, entry, cur, i.term, DOMS[_keyname(key)])),
    VBool(untouched_a(self, entry, cur, list(range(FIDX[_keyname(key)])), FIDX[_keyname(key)],
                      lambda ca: S._owned_by_first(self, ca, i.term)))), label="blocks_done")
def _split(ordinal, var, mk_block_done, mk_progress, label):
    invariant(c, ordinal, var, lambda it, i: i <= Len(it), label=label + "_index")
    invariant(c, ordinal, var, lambda it, i, self, key, entry, cur: VBool(prev_done(self, key, entry, cur)), label=label + "_prev_keys")
    invariant(c, ordinal, var, lambda it, i, self, key, entry, cur, i_block: VBool(
        S._blocks_done(self, entry, cur, i_block.term, DOMS[_keyname(key)])), label=label + "_earlier_blocks")
    invariant(c, ordinal, var, lambda it, i, self, key, block, entry, cur: VBool(mk_block_done(self, key, block, entry, cur, i)), label=label)
    invariant(c, ordinal, var, lambda it, i, self, key, block, entry, cur, i_block: VBool(
        untouched_a(self, entry, cur, list(range(FIDX[_keyname(key)])), FIDX[_keyname(key)],
                    lambda ca: z3.Or(S._owned_by_first(self, ca, i_block.term), mk_progress(ca, block, i)))), label=label + "_untouched")


_split(3, "idx",
       lambda self, key, block, entry, cur, i: S.block_done(self, block.term, entry, cur, upto_idx=i.term, upto_off=z3.IntVal(-15), dom=DOMS[_keyname(key)]),
       lambda ca, block, i: S._touched_now(ca, block, i.term, z3.IntVal(-15)), "positions_done")
_split(4, "offset",
       lambda self, key, block, entry, cur, i: S.block_done(self, block.term, entry, cur, upto_idx=z3.IntVal(16), upto_off=i.term - 15, dom=DOMS[_keyname(key)]),
       lambda ca, block, i: S._touched_now(ca, block, z3.IntVal(16), i.term - 15), "offsets_done")
