"""Contracts for tealer/utils/regex/regex.py (C20): the straight-line matcher and the label lookup.

`_is_equal`   exact: same dynamic class and same printed text (printing is an uninterpreted function of the object, `fmt<None>`).
`_is_match`   exact against the *chain* of the start instruction: CHAIN(c, 0) = c, CHAIN(c, k+1) = the unique successor of
              CHAIN(c, k) if it has exactly one, else nothing.  The result is true iff for every position k of the pattern the
              chain element exists and equals the pattern instruction -- "the pattern's instructions occur there consecutively in
              straight-line code with identical text" of the property statement (loop over `enumerate(regex)` under an invariant).
`_find_label` `*` -> the first instruction; otherwise the label instruction carrying that name, None if there is none.
The DFS `_find_instructions` / `match_regex` (reachability, the covered set) stay with the bounded stand-in.
"""
from pyvc.dsl import (contract, requires, assumes, ensures, must_fail, invariant, And, Or, Not, Implies, If, Iff, Eq, IsInstance,
                      IsNone, ForallIdx, ExistsIdx, Len, current, _sym)
from pyvc.values import T, V, VBool, VInt, VRef, VNone, VUnion, fresh_name
from pyvc.execbase import TYPEOF
from pyvc.loader import class_table
import z3

R = "tealer/utils/regex/regex.py::"
INS = T.Ref("Instruction")
I_ = z3.IntSort()
CHAIN = z3.Function("RX_CHAIN", I_, I_, I_)
FMT = z3.Function("fmt<None>", I_, z3.StringSort())     # what pyvc gives for str(<object>)


def oref(x):
    """integer term of an Optional[reference]: 0 for None (references are positive)"""
    if isinstance(x, VUnion):
        t = z3.IntVal(0)
        for g, v in x.alts:
            if isinstance(v, VRef):
                t = z3.If(g, v.term, t)
        return t
    if isinstance(x, VNone) or x is None:
        return z3.IntVal(0)
    return x.term if isinstance(x, V) else x


def same_ins(a, b):
    """same dynamic class and same printed text; a, b: integer terms (symbolic) or instructions (native)"""
    if _sym(a, b):
        return z3.And(TYPEOF(a) == TYPEOF(b), FMT(a) == FMT(b))
    return type(a) is type(b) and str(a) == str(b)


def _step(x, st):
    """the unique successor of instruction x, 0 if it has none or several (entry heap)"""
    ctx = current()
    I = class_table().cls("Instruction")
    nxt, _ = ctx.ex.read_field(VRef(x, I, ctx.ex), I, "_next", st)
    n = ctx.ex.list_len(nxt, st).term
    return z3.If(z3.And(x != 0, n == 1), ctx.ex.list_get(nxt, 0, st).term, z3.IntVal(0))


def _chain_def(current_instruction):
    if not _sym(current_instruction):
        return True
    ctx = current()
    c, k = z3.Int("rx_c"), z3.Int("rx_k")
    ctx.st.pc.append(z3.ForAll([c], CHAIN(c, 0) == c, patterns=[CHAIN(c, 0)]))
    ctx.st.pc.append(z3.ForAll([c, k], z3.Implies(k >= 1, CHAIN(c, k) == _step(CHAIN(c, k - 1), ctx.st)), patterns=[CHAIN(c, k)]))
    return True


def chain_native(cur, k):
    for _ in range(k):
        cur = cur.next[0] if cur is not None and len(cur.next) == 1 else None
    return cur


def match_spec(cur, regex, upto=None):
    """for every pattern position k (< upto): the chain element exists and equals the pattern instruction"""
    if _sym(cur, regex):
        c0 = oref(cur)
        return ForallIdx(regex, lambda j, x: VBool(z3.And(CHAIN(c0, j.term) != 0, same_ins(CHAIN(c0, j.term), x.term))), upto=upto)
    items = list(regex) if upto is None else list(regex)[:upto]
    return all(chain_native(cur, k) is not None and same_ins(chain_native(cur, k), x) for k, x in enumerate(items))


# ---- _is_equal ---------------------------------------------------------------------------------------------------------------
c = contract(R + "_is_equal", params={"a": INS, "b": INS}, returns=T.Bool, tags=["C20"])
ensures(c, "exact", lambda a, b, result: Iff(result, VBool(same_ins(a.term, b.term)) if _sym(a, b) else same_ins(a, b)),
        note="two instructions are equal iff they have the same class and print the same text")
must_fail(c, "text_only", lambda a, b, result: Iff(result, VBool(FMT(a.term) == FMT(b.term))))
must_fail(c, "class_only", lambda a, b, result: Iff(result, VBool(TYPEOF(a.term) == TYPEOF(b.term))))


# ---- _is_match ---------------------------------------------------------------------------------------------------------------
c = contract(R + "_is_match", params={"current_instruction": T.Opt(INS), "regex": T.List(INS)}, returns=T.Bool, tags=["C20"])
assumes(c, "chain", lambda current_instruction: _chain_def(current_instruction))
ensures(c, "exact", lambda current_instruction, regex, result: Iff(result, match_spec(current_instruction, regex)),
        note="true iff the pattern's instructions occur from the start instruction consecutively in straight-line code "
             "(each element the unique successor of the previous one) with the same class and printed text")
ensures(c, "empty_pattern", lambda current_instruction, regex, result: Implies(Len(regex) == 0, lambda: result))
must_fail(c, "always", lambda result: result)
must_fail(c, "never", lambda result: Not(result))
must_fail(c, "first_only", lambda current_instruction, regex, result: Iff(result, match_spec(current_instruction, regex, upto=1)))


def _at_chain(current_instruction, i):
    """the loop's cursor is the i-th chain element of the entry instruction"""
    ex = current().ex
    c0 = oref(ex.inputs["current_instruction"])
    return VBool(oref(current_instruction) == CHAIN(c0, i.term))


invariant(c, 1, "regex_ins", lambda it, i, current_instruction: And(
    i <= Len(it), _at_chain(current_instruction, i),
    match_spec(current().ex.inputs["current_instruction"], it, upto=i)), label="walk")


# ---- _find_label -------------------------------------------------------------------------------------------------------------
def _label_text(x):
    """the `_label` of a Label instruction (symbolic: heap read, native: attribute)"""
    if isinstance(x, V):
        ctx = current()
        L = class_table().cls("InstructionWithLabel")
        v, _ = ctx.ex.read_field(VRef(x.term, L, ctx.ex), L, "_label", ctx.st)
        return v
    return x.label


def _is_label_named(x, label):
    return And(IsInstance(x, "Label"), lambda: Eq(_label_text(x), label))


c = contract(R + "_find_label", params={"instructions": T.List(INS), "label": T.Str}, returns=T.Opt(INS), tags=["C20"],
             raises=[("AssertionError", None)])
c.seq_filter = True
requires(c, "program_not_empty", lambda instructions: Len(instructions) >= 1,
         note="a parsed contract holds at least one instruction (C04); the empty program is outside the claim")
ensures(c, "star_is_entry", lambda instructions, label, result: Implies(Eq(label, "*"), lambda: And(Not(IsNone(result)), VBool(oref(result) == oref(instructions[0])) if _sym(result, instructions) else result is instructions[0])),
        note="`*` names the first instruction of the contract")
ensures(c, "none_iff_absent", lambda instructions, label, result: Implies(Not(Eq(label, "*")), lambda: Iff(
    IsNone(result), Not(ExistsIdx(instructions, lambda j, x: _is_label_named(x, label))))),
        note="a label is found iff some label instruction of the contract carries that name")
ensures(c, "found_is_named", lambda instructions, label, result: Implies(And(Not(Eq(label, "*")), Not(IsNone(result))), lambda:
        ExistsIdx(instructions, lambda j, x: And(_is_label_named(x, label), VBool(x.term == oref(result)) if _sym(x, result) else x is result))),
        note="the instruction returned is a label instruction of the contract with that name")
must_fail(c, "never_found", lambda result: IsNone(result))


# ---- native samples (replay of refuted obligations on real objects) ---------------------------------------------------------------
_PROGRAMS = [
    "#pragma version 6\nint 1\nint 2\n+\nint 1\nint 2\nbnz l1\nint 1\nint 2\nl1:\nint 1\nint 2\n+\nreturn\n",
    "#pragma version 6\nb main\nsub:\nint 0\npop\nretsub\nmain:\ncallsub sub\nint 0\npop\nint 0\npop\nmainx:\nint 1\nreturn\n",
    "#pragma version 6\nloop:\nint 1\npushint 1\nbz loop\nint 1\nreturn\nsub:\nint 1\nerr\n",
]
_PATTERNS = [["int 1"], ["int 1", "int 2"], ["int 1", "int 2", "+"], ["int 0", "pop", "int 0"], ["pushint 1"], ["int 2", "l1:"],
             ["int 1", "int 2", "bnz l1", "int 1"], ["int 1", "int 2", "+", "return"], []]


def _parsed():
    from tealer.teal.parse_teal import parse_teal
    from tealer.teal.instructions.parse_instruction import parse_line
    progs = [parse_teal(p) for p in _PROGRAMS]
    pats = [[parse_line(l) for l in p] for p in _PATTERNS]
    return progs, pats


def _samples_is_match():
    progs, pats = _parsed()
    for t in progs:
        for ins in list(t.instructions) + [None]:
            for p in pats:
                yield {"current_instruction": ins, "regex": p}


def _samples_is_equal():
    progs, pats = _parsed()
    pool = [i for t in progs for i in t.instructions][:40] + [i for p in pats for i in p]
    from tealer.teal.instructions.instructions import Int, PushInt
    pool += [Int(1), PushInt(1)]
    for a in pool:
        for b in pool:
            yield {"a": a, "b": b}


def _samples_find_label():
    progs, _ = _parsed()
    for t in progs:
        for lab in ["*", "l1", "l", "l11", "main", "mainx", "mai", "sub", "loop", "int", ""]:
            yield {"instructions": t.instructions, "label": lab}


from pyvc.dsl import REGISTRY as _REG   # noqa: E402
_REG[R + "_is_match"].samples = _samples_is_match
_REG[R + "_is_equal"].samples = _samples_is_equal
_REG[R + "_find_label"].samples = _samples_find_label
