"""Contracts for txn_types.py and the two enum maps of teal_enums.py (DESIGN.md §6.6; C07, C01, C17)."""
from pyvc.dsl import (contract, requires, ensures, must_fail, And, Or, Not, Implies, If, Iff, Eq, forall, exists,
                      IsInstance, In, IsInt, IsStr, AsInt, AsStr)
from pyvc.values import T, V, VBool
from spec.avm_axioms import ev
from spec.ghost import keydef, keyfld_f
import contracts.helpers  # noqa: F401

F = "tealer/analyses/dataflow/transaction_context/txn_types.py::TxnType."


def _label(name):
    """TealerTransactionType member by name: real enum member natively, its value symbolically"""
    from tealer.utils.teal_enums import TealerTransactionType
    return getattr(TealerTransactionType, name)


def admits(S, ty, oc):
    """The admitted-kind relation of C07 (DESIGN §5.3): exactly the four labels the detectors consume."""
    return And(Implies(ty == 1, lambda: In(_label("Pay"), S)),
               Implies(ty == 4, lambda: In(_label("Axfer"), S)),
               Implies(And(ty == 6, oc == 4), lambda: In(_label("ApplUpdateApplication"), S)),
               Implies(And(ty == 6, oc == 5), lambda: In(_label("ApplDeleteApplication"), S)))


def valid_txn(ty, oc, appid):
    """AVM facts about one transaction: type 1..6; non-application transactions carry OnCompletion 0, ApplicationID 0."""
    return And(ty >= 1, ty <= 6, oc >= 0, oc <= 5, appid >= 0, Implies(Not(ty == 6), And(oc == 0, appid == 0)))


def _tau(v, key):
    return (keyfld_f(v, key, "TypeEnum"), keyfld_f(v, key, "OnCompletion"), keyfld_f(v, key, "ApplicationID"))


c = contract(F + "_get_asserted_transaction_types",
             params={"self": T.Ref("TxnType"), "key": T.Str, "ins_stack_value": T.Ref("KnownStackValue")},
             returns=T.Tuple(T.Set(T.Enum("TealerTransactionType")), T.Set(T.Enum("TealerTransactionType"))),
             ghost={"v": T.Abs("Visit")}, touch=["ins_stack_value"], tags=["C07", "C01"])


from spec.keys import valid_key, key_base
import contracts.key_helpers  # noqa: F401
requires(c, "valid_key", lambda key: And(valid_key(key), Eq(key_base(key), "TransactionType")))


def _sound(which, nonzero):
    def f(key, ins_stack_value, result, v):
        ty, oc, appid = _tau(v, key)
        e = ev(v, ins_stack_value)
        return Implies(And(keydef(v, key), valid_txn(ty, oc, appid), (e != 0) if nonzero else (e == 0)),
                       admits(result[which], ty, oc))
    return f


def _reads(key, sv, fname):
    """sv is (a comparison / negation / bare use of) a read of field `fname` of the key's transaction"""
    from spec.ghost import is_field_read_f
    from contracts.fee_field import _known_ins, _arg
    def rd(x):
        return And(IsInstance(x, "KnownStackValue"), is_field_read_f(key, x, fname))
    ins = sv.instruction
    a0 = _arg(sv, 0)
    a1 = _arg(sv, 1)
    inner0 = _known_args0(a0)
    return Or(is_field_read_f(key, sv, fname),
              And(IsInstance(ins, ("Eq", "Neq")), Or(rd(a0), rd(a1))),
              And(IsInstance(ins, "Not"), IsInstance(a0, "KnownStackValue"), rd(a0)))


def _known_args0(x):
    return None


def _d5(key, ins_stack_value, v):
    """D5: the label set of a comparison holds labels of the compared dimension only, so transactions whose relevant
    kind lies in another dimension are dropped (TypeEnum check vs Update/Delete; OnCompletion/ApplicationID check vs pay/axfer;
    ApplicationID check vs Update/Delete).  Pinned by tests/transaction_context/test_transaction_types.py: listed finding."""
    ty, oc, appid = _tau(v, key)
    return Or(And(_reads(key, ins_stack_value, "TypeEnum"), ty == 6, Or(oc == 4, oc == 5)),
              And(_reads(key, ins_stack_value, "OnCompletion"), Or(ty == 1, ty == 4)),
              And(_reads(key, ins_stack_value, "ApplicationID"), Or(ty == 1, ty == 4, oc == 4, oc == 5)))


ensures(c, "true_admits", _sound(0, True), tags=["C07", "C01"], known={"D5": _d5})
ensures(c, "false_admits", _sound(1, False), tags=["C07", "C01"], known={"D5": _d5})
must_fail(c, "canary", lambda key, ins_stack_value, result, v:
          Implies(keydef(v, key), In(_label("Pay"), result[0]) == In(_label("Axfer"), result[1])))


def _reify_types(mv, ob):
    from contracts.reify_sv import make_reifier
    import z3
    from spec.ghost import KEYFLD_F, ISFIELDREAD_F
    from spec.avm_axioms import cls_id
    base = make_reifier([], "TxnType", extra_fields=("TypeEnum", "OnCompletion", "ApplicationID"))
    vt, kt = ob.inputs["v"].term, ob.inputs["key"].term
    for cand in base(mv, ob):
        # own transaction carries the model's (TypeEnum, OnCompletion, ApplicationID); reads of these fields in the
        # tree are rebuilt as `txn f` by class, so the base key "TransactionType" is the real key
        cand["args"]["key"] = "TransactionType"
        vis = cand["ghost"]["v"]
        m = vis.members[vis.gidx]
        for f in ("TypeEnum", "OnCompletion", "ApplicationID"):
            m[f] = mv.int(KEYFLD_F(vt, kt, cls_id(f)))
        cand["repr"]["key"] = "TransactionType"
        cand["repr"]["visit"] = repr(vis)
        cand["block"] = cand["block"] + [KEYFLD_F(vt, kt, cls_id(f)) for f in ("TypeEnum", "OnCompletion")]
        yield cand


c.reify = _reify_types

# ---- enum maps: total on assembler-valid operands (C17 / D11) ---------------------------------------------------
E = "tealer/utils/teal_enums.py::"
ALL_NAMES = ("unknown", "pay", "keyreg", "acfg", "axfer", "afrz", "appl",
             "NoOp", "OptIn", "CloseOut", "ClearState", "UpdateApplication", "DeleteApplication")


def assembler_valid(value):
    """any uint64, and any of the named integer constants the assembler accepts for `int`"""
    return And(Implies(IsInt(value), And(AsInt(value) >= 0, AsInt(value) <= 2 ** 64 - 1)),
               Implies(IsStr(value), Or(*[Eq(AsStr(value), n) for n in ALL_NAMES])))


TXN_MAP = {1: "Pay", 2: "KeyReg", 3: "Acfg", 4: "Axfer", 5: "Afrz", 6: "Appl"}
TXN_NAMES = {"pay": 1, "keyreg": 2, "acfg": 3, "axfer": 4, "afrz": 5, "appl": 6}
OC_MAP = {0: "ApplNoOp", 1: "ApplOptIn", 2: "ApplCloseOut", 3: "ApplClearState", 4: "ApplUpdateApplication",
          5: "ApplDeleteApplication"}
OC_NAMES = {"NoOp": 0, "OptIn": 1, "CloseOut": 2, "ClearState": 3, "UpdateApplication": 4, "DeleteApplication": 5}


def _mk_enum_contract(fn, imap, names):
    c = contract(E + fn, params={"value": T.Union(T.Int, T.Str)},
                 returns=T.Union(T.NoneT, T.Enum("TealerTransactionType")), tags=["C17", "C07", "C15"])

    def maps(value, result):
        from pyvc.dsl import IsNone
        num = If(IsInt(value), AsInt(value), _name_val(AsStr(value), names))
        known = Or(*[num == k for k in imap])
        return And(Iff(IsNone(result), Not(known)),
                   *[Implies(num == k, lambda k=k: Eq(result, _label(imap[k]))) for k in imap])
    ensures(c, "maps", maps, note="total: no KeyError for any operand (D11); a name denotes its assembler value (C15)")

    def _reify_enum(mv, ob):
        val = ob.inputs["value"]
        for g, a in val.alts:
            if mv.bool(g):
                x = mv.int(a.term) if a.ty.kind == "int" else mv.str(a.term)
                yield {"args": {"value": x}, "repr": {"value": x}, "block": [a.term]}
    c.reify = _reify_enum
    return c


def _name_val(s, names):
    """numeric value of a named constant (-1 for a string that is not one of `names`)"""
    if isinstance(s, V):
        r = -1
        for n, k in names.items():
            r = If(Eq(s, n), k, r)
        return r
    return names.get(s, -1)


_mk_enum_contract("transaction_type_to_tealer_type", TXN_MAP, TXN_NAMES)
_mk_enum_contract("oncompletion_to_tealer_type", OC_MAP, OC_NAMES)


# ---- precision on direct checks (C03): a comparison of OnCompletion / TypeEnum with a constant, in either operand order,
# excludes the kinds it really excludes ----------------------------------------------------------------------------------------
def _spelled_ok(ins, names):
    """the literal is a number, or one of the names of the compared field's own enumeration (`int UpdateApplication` next to
    TypeEnum is valid TEAL but not a way of *naming a transaction type*)"""
    if isinstance(ins, V):
        from pyvc.dsl import current
        from pyvc.loader import class_table
        from pyvc.values import VRef, VStr
        ex, st = current().ex, current().st
        C = class_table().cls("Int")
        val, st2 = ex.read_field(VRef(ins.term, C, ex), C, "_value", st)   # Int and PushInt share the layout of `_value`
        P = class_table().cls("PushInt")
        val2, st3 = ex.read_field(VRef(ins.term, P, ex), P, "_value", st2)
        st.pc[:] = st3.pc
        def ok(u):
            return Or(*[And(VBool(g), Or(*[Eq(a, n) for n in names])) if isinstance(a, VStr) else VBool(g) for g, a in u.alts])
        return If(IsInstance(ins, "Int"), ok(val), ok(val2))
    val = getattr(ins, "value", None)
    return isinstance(val, int) or val in names


def _const_of(v, x):
    """(is a literal push of the fragment, its value) for operand x"""
    from contracts.fee_field import _known_ins
    from contracts.helpers import _ins_sem
    from spec.avm_axioms import VAL
    from spec.native import native_ev
    ins = _known_ins(x)
    if ins is None:
        return False, 0
    if isinstance(ins, V):
        _ins_sem(ins, v)
        from pyvc.values import VInt
        return And(IsInstance(x, "KnownStackValue"), IsInstance(ins, ("Int", "PushInt"))), VInt(VAL(v.term, ins.term, 0))
    return type(x).__name__ == "KnownStackValue" and type(ins).__name__ in ("Int", "PushInt"), native_ev(v, x)


def _excludes(fname, k, label):
    def f(key, ins_stack_value, result, v):
        from spec.ghost import is_field_read_f
        from contracts.fee_field import _arg
        sv = ins_stack_value
        a0, a1 = _arg(sv, 0), _arg(sv, 1)
        out = []
        for fa, ca in ((a0, a1), (a1, a0)):
            isc, c = _const_of(v, ca)
            lo, hi = (1, 6) if fname == "TypeEnum" else (0, 5)   # constants that denote a value of the field
            names = TXN_NAMES if fname == "TypeEnum" else OC_NAMES
            from contracts.fee_field import _known_ins
            cins = _known_ins(ca)
            direct = And(IsInstance(sv.instruction, ("Eq", "Neq")), IsInstance(fa, "KnownStackValue"),
                         is_field_read_f(key, fa, fname), isc, c >= lo, c <= hi,
                         _spelled_ok(cins, names) if cins is not None else False)
            is_eq = IsInstance(sv.instruction, "Eq")
            true_excl = Or(And(is_eq, Not(c == k)), And(Not(is_eq), c == k))
            false_excl = Or(And(is_eq, c == k), And(Not(is_eq), Not(c == k)))
            out.append(Implies(direct, lambda: And(Implies(true_excl, Not(In(_label(label), result[0]))),
                                                   Implies(false_excl, Not(In(_label(label), result[1]))))))
        return And(*out)
    return f


c = contract(F + "_get_asserted_transaction_types")
for fname, k, label in (("OnCompletion", 4, "ApplUpdateApplication"), ("OnCompletion", 5, "ApplDeleteApplication"),
                        ("TypeEnum", 1, "Pay"), ("TypeEnum", 4, "Axfer")):
    ensures(c, f"excludes_{label}", _excludes(fname, k, label), tags=["C03", "C07", "C15"],
            note="a direct comparison of the field with a constant -- by name or number, either operand order -- removes the "
                 "kind it excludes (precision, C03; spelling independence, C15)")
