"""Loops: unrolled when the iterable is concrete and small, otherwise cut by a contract invariant (DESIGN §2.4)."""
from __future__ import annotations

import ast
from typing import Any, Dict, Iterator, List, Optional, Set, Tuple

import z3

from .dsl import Ctx, use_ctx
from .state import State
from .values import (T, V, VBool, VClass, VFunc, VInt, VList, VNone, VPy, VRef, VEnum, VSet, VTuple, VUnion, VRec, VStr,
                     VDict, VAbs, Unsupported, fresh_name, _b, _i)

MUTATORS = {"append", "remove", "extend", "pop", "insert", "add", "discard", "clear", "update"}


def loop_ordinal(ex: Any, node: ast.AST, st: Any = None) -> int:
    """Pre-order ordinal of a loop inside the function currently executed (top frame)."""
    root = (st.fi if st is not None else ex.fi).node
    loops = sorted((n for n in ast.walk(root) if isinstance(n, (ast.For, ast.While))),
                   key=lambda n: (n.lineno, n.col_offset))
    for k, n in enumerate(loops, 1):
        if n is node:
            return k
    return -1


def assigned_names(body: List[ast.stmt], target: Optional[ast.AST]) -> Set[str]:
    names: Set[str] = set()
    nodes: List[ast.AST] = list(body)
    if target is not None:
        nodes.append(target)
    for s in nodes:
        for n in ast.walk(s):
            if isinstance(n, ast.Name) and isinstance(n.ctx, ast.Store):
                names.add(n.id)
    return names


def find_invariants(ex: Any, node: ast.AST, st: Any) -> List[Any]:
    if st.fi is not ex.fi:
        return []
    k = loop_ordinal(ex, node, st)
    return [iv for iv in ex.contract.invariants if iv.ordinal == k]


def havoc_value(ex: Any, v: V, name: str, st: State) -> Tuple[Optional[V], State]:
    if isinstance(v, (VFunc, VPy, VClass)):
        raise Unsupported(f"loop reassigns {name} holding {v!r}")
    ty = getattr(v, "ty", None)
    if ty is None or ty.kind == "any":
        raise Unsupported(f"cannot havoc {name}: {v!r}")
    nv, st = ex.fresh_in(ty, "hv_" + name, st)
    return nv, st


def heap_havoc(ex: Any, body: List[ast.stmt], st: State, hint: Any = None) -> State:
    """Havoc the heap components the loop body can write (syntactic over-approximation).  Mutator calls whose receiver is a
    plain local name bound to a list are havoc'd *at that list's address only*; anything else havocs whole components."""
    mut_all = False
    dict_all = False
    callee_mods: Set[str] = set()
    mut_names: Set[str] = set()
    attrs: Set[str] = set()
    for s in body:
        for n in ast.walk(s):
            if isinstance(n, ast.Call):
                # calls of functions under contract: their modifies clauses are written by the loop body too
                cname = n.func.attr if isinstance(n.func, ast.Attribute) else (n.func.id if isinstance(n.func, ast.Name) else None)
                if cname:
                    for tgt, cc in ex.registry.items():
                        if cc.modifies and (tgt.endswith("." + cname) or tgt.endswith("::" + cname)):
                            callee_mods.update(m for m in cc.modifies if not m.startswith("param:"))
            if isinstance(n, ast.Call) and isinstance(n.func, ast.Attribute) and n.func.attr in MUTATORS:
                if isinstance(n.func.value, ast.Name) and isinstance(st.env.get(n.func.value.id), VList):
                    mut_names.add(n.func.value.id)
                else:
                    mut_all = True
            if isinstance(n, ast.Attribute) and isinstance(n.ctx, ast.Store):
                attrs.add(n.attr)
            if isinstance(n, ast.Subscript) and isinstance(n.ctx, ast.Store):
                if isinstance(n.value, ast.Name) and isinstance(st.env.get(n.value.id), VList):
                    mut_names.add(n.value.id)
                elif isinstance(n.value, ast.Name) and isinstance(st.env.get(n.value.id), VDict):
                    dict_all = True   # dicts are heap objects: the store writes the D.map / D.dom components
                else:
                    mut_all = True
                    dict_all = True
            if isinstance(n, ast.AugAssign) and isinstance(n.target, ast.Name) and isinstance(st.env.get(n.target.id), VList):
                mut_names.add(n.target.id)
    st = st.copy()
    for key in list(st.heap.keys()) + list(ex.known_heap_keys):
        cur = st.heap.get(key)
        if cur is None:
            cur = ex.known_heap_keys.get(key)
            if cur is None:
                continue
        if hint is not None and key.startswith(("L.", "D.")):
            if key in hint:
                st.heap[key] = z3.Const(fresh_name(f"H<{key}>"), cur.sort())
            continue
        hit = (key.startswith("L.") and mut_all) or (key.startswith("D.") and dict_all) or key in callee_mods or any(key.startswith("F:") and key.split(".", 1)[1].split("#")[0] in
                                                        {a, "_" + a} for a in attrs) or key in ex.loop_extra_havoc
        if hit:
            st.heap[key] = z3.Const(fresh_name(f"H<{key}>"), cur.sort())
    # allocation: the iterations before the arbitrary one may have allocated any number of objects; the allocation pointer
    # at the head of the arbitrary iteration (and at the exit) is a fresh value not below the current one
    hb = z3.Int(fresh_name("abase"))
    st.pc.append(hb >= st.alloc_ptr())
    st.abase = hb
    st.nalloc = 0
    # components that are first read inside / after the loop: unknown as well (State.harr consults the rule)
    rid = fresh_name("hv").replace("!", "_")
    attr_names = set(attrs)

    def rule(key: str, hint=hint, mut_all=mut_all, dict_all=dict_all, callee_mods=frozenset(callee_mods), attr_names=frozenset(attr_names),
             extra=frozenset(ex.loop_extra_havoc)) -> bool:
        if hint is not None and key.startswith(("L.", "D.")):
            return key in hint
        return ((key.startswith("L.") and mut_all) or (key.startswith("D.") and dict_all) or key in callee_mods or key in extra
                or (key.startswith("F:") and key.split(".", 1)[1].split("#")[0] in {x for a in attr_names for x in (a, "_" + a)}))
    st.havoc_rules = st.havoc_rules + ((rid, rule),)
    if not mut_all and hint is None:
        for nm in sorted(mut_names):
            l = st.env[nm]
            st = ex.forget_len(l, st)
            ln = ex._len_arr(st)
            st.heap["L.len"] = z3.Store(ln, l.ref, z3.Int(fresh_name(f"hl_{nm}")))
            if l.view == "seq":
                key, el = ex._elem_arr(st, l.elem)
                st.heap[key] = z3.Store(el, l.ref, z3.Const(fresh_name(f"he_{nm}"), el.sort().range()))
            else:
                key, bg = ex._bag_arr(st, l.elem)
                st.heap[key] = z3.Store(bg, l.ref, z3.Const(fresh_name(f"hb_{nm}"), bg.sort().range()))
            st.pc.append(z3.Select(st.heap["L.len"], l.ref) >= 0)
    return st


def eval_inv(ex: Any, iv: Any, st: State, extra: Dict[str, Any]) -> Tuple[Any, State]:
    ns: Dict[str, Any] = dict(ex.closure_env)
    ns.update(st.env)
    ns.update(st.ghost)
    ns.update(extra)
    ns["entry"] = ex.entry_view
    st = st.copy()
    from .execmain import OldView
    ns["cur"] = OldView(ex, st)
    with use_ctx(Ctx(ex, st)):
        argv = []
        for a in iv.argnames:
            if a not in ns:
                raise Unsupported(f"invariant {iv.label} refers to unknown name {a}")
            argv.append(ns[a])
        r = iv.fn(*argv)
    if isinstance(r, bool):
        r = VBool(r)
    return r, st


def _output_only(body: List[ast.stmt]) -> bool:
    """loop body made of print/logger calls only: no effect on the program state (DESIGN §2.1)"""
    from .execbase import DROPPED_CALL_PREFIXES
    for b in body:
        if not (isinstance(b, ast.Expr) and isinstance(b.value, ast.Call)):
            return False
        f = b.value.func
        root = f
        while isinstance(root, ast.Attribute):
            root = root.value
        if not (isinstance(root, ast.Name) and (root.id == "print" or root.id.startswith(DROPPED_CALL_PREFIXES))):
            return False
    return True


def exec_for(ex: Any, s: ast.For, st: State) -> Iterator[Tuple[str, Any, State]]:
    if _output_only(s.body) and not s.orelse:
        for _, st1 in ex.ev(s.iter, st):
            yield "fall", None, st1
        return
    # `for k, x in enumerate(L)`: the loop runs over L; the target gets the pair (position, element)
    enum = (isinstance(s.iter, ast.Call) and isinstance(s.iter.func, ast.Name) and s.iter.func.id == "enumerate"
            and len(s.iter.args) == 1 and not s.iter.keywords and "enumerate" not in st.env
            and "enumerate" not in st.fi.globals)
    for it, st1 in ex.ev(s.iter.args[0] if enum else s.iter, st):
        invs = find_invariants(ex, s, st1)
        items = ex.concrete_items(it, st1) if not invs else None
        if items is not None:
            if enum:
                items = [VTuple([VInt(k), x]) for k, x in enumerate(items)]
            yield from unrolled(ex, s, items, 0, st1)
            continue
        if not invs:
            raise Unsupported(f"loop at {ex.fi.file}:{s.lineno} over symbolic {it!r} has no invariant "
                              f"(ordinal {loop_ordinal(ex, s, st1)})")
        if isinstance(it, VPy) and isinstance(it.obj, range) and len(it.obj) <= 64:
            # a loop over a concrete range under an invariant: the range as a list object of known content
            it, st1 = ex.new_list(T.Int, "seq", st1, [VInt(k) for k in it.obj])
        if not isinstance(it, VList) or it.view != "seq":
            raise Unsupported(f"invariant loop over {it!r}")
        yield from invariant_loop(ex, s, st1, invs, it, enum)


def unrolled(ex: Any, s: ast.For, items: List[V], i: int, st: State) -> Iterator[Tuple[str, Any, State]]:
    if i == len(items):
        if s.orelse:
            yield from ex.exec_block(s.orelse, st)
        else:
            yield "fall", None, st
        return
    st_b = ex.assign_target(s.target, items[i], st)
    for kind, payload, st2 in ex.exec_block(s.body, st_b):
        if kind in ("fall", "continue"):
            yield from unrolled(ex, s, items, i + 1, st2)
        elif kind == "break":
            yield "fall", None, st2
        else:
            yield kind, payload, st2


def invariant_loop(ex: Any, s: Any, st: State, invs: List[Any], it: Optional[VList], enum: bool = False) -> Iterator[Tuple[str, Any, State]]:
    is_for = isinstance(s, ast.For)
    where = f"{ex.fi.file}:{s.lineno}"
    if is_for:
        st = st.assume(ex.list_len(it, st).term >= 0)   # lengths are non-negative
    # 1. entry
    extra0: Dict[str, Any] = {}
    if is_for:
        extra0 = {"i": VInt(0), "it": it}
    for iv in invs:
        g, stx = eval_inv(ex, iv, st, extra0)
        ex.oblige(stx, "inv-entry", iv.label, _b(g), tags=iv.tags, where=where)
    # 2. havoc
    names = assigned_names(s.body, s.target if is_for else None)
    sth = heap_havoc(ex, s.body, st, getattr(ex.contract, "loop_havoc", {}).get(loop_ordinal(ex, s, st)))
    pre_heap = dict(st.heap)
    post_heap = dict(sth.heap)
    last_rule = sth.havoc_rules[-1][1]

    def covered(key: str) -> bool:
        a, b = post_heap.get(key), pre_heap.get(key)
        if a is not None and (b is None or not a.eq(b)):
            return True
        return bool(last_rule(key))
    for n in sorted(names):
        if n in sth.env:
            if is_for and any(isinstance(t, ast.Name) and t.id == n for t in ast.walk(s.target)):
                continue
            nv, sth = havoc_value(ex, sth.env[n], n, sth)
            sth = sth.bind(n, nv)
    sth = sth.decide(f"loop{s.lineno}")
    idx = VInt(z3.Int(fresh_name("li")))
    extra: Dict[str, Any] = {}
    if is_for:
        extra = {"i": idx, "it": it}
        sth = sth.assume(idx.term >= 0)
    sti = sth
    for iv in invs:
        g, sti = eval_inv(ex, iv, sti, extra)
        sti = sti.assume(_b(g))
    # 3. one arbitrary iteration
    if is_for:
        n = ex.list_len(it, sti).term
        st_body = sti.assume(idx.term < n).decide("iter")
        from . import smt
        if smt.quick_feasible(st_body.pc):
            x = ex.list_get(it, idx.term, st_body)
            if isinstance(x, (VRef, VEnum, VUnion)):
                st_body = st_body.assume(ex.type_constraint(x))
            st_body = ex.assign_target(s.target, VTuple([idx, x]) if enum else x, st_body)
            if isinstance(s.target, ast.Name):
                # the position of the current element, for invariants of loops nested in this one (`i_<loop variable>`)
                st_body = st_body.bind("i_" + s.target.id, idx)
            yield from _body_paths(ex, s, st_body, invs, {"i": VInt(idx.term + 1), "it": it}, where, covered)
        st_exit = sti.assume(idx.term >= n).decide("exit")
    else:
        conds = list(ex.ev(s.test, sti))
        st_exit_list = []
        for c, stc in conds:
            for val, st2 in ex.branch(ex.truth_st(c, stc), stc, f"while{s.lineno}"):
                if val:
                    yield from _body_paths(ex, s, st2.decide("iter"), invs, {}, where, covered)
                else:
                    st_exit_list.append(st2.decide("exit"))
        for st_exit in st_exit_list:
            if s.orelse:
                yield from ex.exec_block(s.orelse, st_exit)
            else:
                yield "fall", None, st_exit
        return
    from . import smt
    if smt.quick_feasible(st_exit.pc):
        if s.orelse:
            yield from ex.exec_block(s.orelse, st_exit)
        else:
            yield "fall", None, st_exit


def _loop_frame(ex: Any, st_body: State, st2: State, where: str, covered: Any) -> None:
    """The havoc before the loop is a guess about what the body writes (syntactic, or the contract's hint).  Check it: a heap
    component that was not havoc'd must be left unchanged by the body (else the exit state would keep its stale entry value)."""
    for key, arr in st2.heap.items():
        if covered is None or covered(key):
            continue
        a0 = st_body.heap.get(key)
        if a0 is None:
            a0 = st_body.harr(key, arr.sort().domain(), arr.sort().range())
        if arr.eq(a0):
            continue
        r = z3.Int(fresh_name("lf"))
        from .state import ALLOC0
        ex.oblige(st2, "frame", f"loop-body-leaves:{key}",
                  z3.ForAll([r], z3.Implies(r < st_body.alloc_ptr(), z3.Select(arr, r) == z3.Select(a0, r))),
                  tags=list(ex.contract.tags), where=where,
                  note="the loop body changes a heap component that the loop havoc does not cover")


def _body_paths(ex: Any, s: Any, st_body: State, invs: List[Any], extra_next: Dict[str, Any], where: str, covered: Any = None
                ) -> Iterator[Tuple[str, Any, State]]:
    for kind, payload, st2 in ex.exec_block(s.body, st_body):
        if kind in ("fall", "continue"):
            _loop_frame(ex, st_body, st2, where, covered)
            for iv in invs:
                g, stx = eval_inv(ex, iv, st2, extra_next)
                ex.oblige(stx, "inv-preserve", iv.label, _b(g), tags=iv.tags, where=where)
            ex.npaths += 1
        elif kind == "break":
            yield "fall", None, st2
        else:
            yield kind, payload, st2


def exec_while(ex: Any, s: ast.While, st: State) -> Iterator[Tuple[str, Any, State]]:
    invs = find_invariants(ex, s, st)
    if not invs:
        raise Unsupported(f"while loop at {ex.fi.file}:{s.lineno} has no invariant (ordinal {loop_ordinal(ex, s, st)})")
    yield from invariant_loop(ex, s, st, invs, None)
