"""Contract DSL (DESIGN.md §2.3).  Sidecar contract files use only these names.

Clauses are plain Python lambdas over the function's parameters (by name), `result`, ghost parameters and
`old` (entry state).  They are evaluated symbolically on pyvc values for the proof and natively on real
objects for replay / bounded stand-ins: the helpers below are polymorphic.
"""
from __future__ import annotations

import inspect
from typing import Any, Callable, Dict, List, Optional, Sequence, Tuple

import z3

from . import values as V_
from .values import V, VBool, VInt, VUnion, VNone, VRef, VSet, VEnum, VStr, T, Ty, Unsupported

# ------------------------------------------------------------------------------------------------
# polymorphic logical helpers
# ------------------------------------------------------------------------------------------------


def _sym(*xs: Any) -> bool:
    return any(isinstance(x, (V, z3.ExprRef)) for x in xs)


def _thunk(x: Any) -> bool:
    return callable(x) and not isinstance(x, V) and getattr(x, "__name__", "") == "<lambda>"


def And(*xs: Any) -> Any:
    """operands may be thunks: evaluated left to right, natively with short-circuit (like `and`)"""
    if any(_thunk(x) for x in xs):
        done = []
        for x in xs:
            if _thunk(x):
                if done and not _sym(*done) and not all(bool(d) for d in done):
                    return False
                x = x()
            done.append(x)
        xs = tuple(done)
    xs = [x for x in xs]
    if _sym(*xs):
        return VBool(z3.And([V_._b(x) for x in xs]) if xs else z3.BoolVal(True))
    return all(bool(x) for x in xs)


def Or(*xs: Any) -> Any:
    """operands may be thunks: evaluated left to right, natively with short-circuit (like `or`)"""
    if any(_thunk(x) for x in xs):
        done = []
        for x in xs:
            if _thunk(x):
                if done and not _sym(*done) and any(bool(d) for d in done):
                    return True
                x = x()
            done.append(x)
        xs = tuple(done)
    if _sym(*xs):
        return VBool(z3.Or([V_._b(x) for x in xs]) if xs else z3.BoolVal(False))
    return any(bool(x) for x in xs)


def Not(x: Any) -> Any:
    if _sym(x):
        return VBool(z3.Not(V_._b(x)))
    return not x


def Implies(a: Any, b: Any) -> Any:
    """b may be a thunk (lambda: ...) so that native evaluation is lazy like `not a or b`."""
    if _sym(a):
        if z3.is_false(z3.simplify(V_._b(a))):
            return VBool(True)
        bv = b() if callable(b) and not isinstance(b, V) else b
        return VBool(z3.Implies(V_._b(a), V_._b(bv)))
    if not a:
        return True
    bv = b() if callable(b) and not isinstance(b, V) else b
    if _sym(bv):
        return bv
    return bool(bv)


def Iff(a: Any, b: Any) -> Any:
    if _sym(a, b):
        return VBool(V_._b(a) == V_._b(b))
    return bool(a) == bool(b)


def If(c: Any, a: Any, b: Any) -> Any:
    """a / b may be thunks (evaluated lazily natively, both symbolically)"""
    if not _sym(c):
        r = a if c else b
        return r() if callable(r) and not isinstance(r, V_.V) else r
    a = a() if callable(a) and not isinstance(a, V_.V) else a
    b = b() if callable(b) and not isinstance(b, V_.V) else b
    if _sym(c):
        cb = V_._b(c)
        if isinstance(a, (VInt, int)) and not isinstance(a, bool) and isinstance(b, (VInt, int)):
            return VInt(z3.If(cb, V_._i(a), V_._i(b)))
        if isinstance(a, (VBool, bool)) and isinstance(b, (VBool, bool)):
            return VBool(z3.If(cb, V_._b(a), V_._b(b)))
        if isinstance(a, VSet) and isinstance(b, VSet):
            return VSet(a.elem, z3.If(cb, a.term, b.term))
        raise Unsupported(f"If over {a!r} / {b!r}")
    return a if c else b


def Eq(a: Any, b: Any) -> Any:
    if _sym(a, b):
        return V_.veq(a, b)
    return a == b


def In(x: Any, s: Any) -> Any:
    if isinstance(s, VSet):
        return s.contains(x)
    if _sym(x, s):
        ctx = current()
        return ctx.ex.contains(s, x, ctx.st)
    return x in s


def Count(lst: Any, x: Any) -> Any:
    """Number of occurrences of x in a list (multiset view)."""
    from .values import VList, to_term
    if isinstance(lst, VList):
        ctx = current()
        return VInt(z3.Select(ctx.ex.list_bag(lst, ctx.st), to_term(x, lst.elem)))
    return list(lst).count(x)


def Len(lst: Any) -> Any:
    from .values import VList, VTuple
    if isinstance(lst, VList):
        return lst.length()
    return len(lst)


def _idx_quant(lst: Any, fn: Callable[..., Any], upto: Any, universal: bool) -> Any:
    from .values import VList, fresh_name, from_term
    if isinstance(lst, VList):
        ctx = current()
        ex, st = ctx.ex, ctx.st
        j = z3.Int(fresh_name("qj"))
        n = ex.list_len(lst, st).term
        hi = n if upto is None else V_._i(upto)
        elem = ex.list_get(lst, j, st)
        body = V_._b(fn(VInt(j), elem))
        rng = z3.And(j >= 0, j < hi, j < n)
        _, el = ex._elem_arr(st, lst.elem)
        pat = z3.Select(z3.Select(el, lst.ref), j)
        try:
            return VBool(z3.ForAll([j], z3.Implies(rng, body), patterns=[pat]) if universal
                         else z3.Exists([j], z3.And(rng, body), patterns=[pat]))
        except z3.Z3Exception:
            return VBool(z3.ForAll([j], z3.Implies(rng, body)) if universal else z3.Exists([j], z3.And(rng, body)))
    items = list(lst) if upto is None else list(lst)[:upto]
    rs = [bool(fn(j, x)) for j, x in enumerate(items)]
    return all(rs) if universal else any(rs)


def ForallIdx(lst: Any, fn: Callable[..., Any], upto: Any = None) -> Any:
    """for all positions j (< upto) of the list: fn(j, lst[j])"""
    return _idx_quant(lst, fn, upto, True)


def ExistsIdx(lst: Any, fn: Callable[..., Any], upto: Any = None) -> Any:
    return _idx_quant(lst, fn, upto, False)


class Alts:
    """result of a symbolic call made from a contract clause: guarded alternatives [(guard, value)]"""

    def __init__(self, alts: List[Tuple[Any, Any]]):
        self.alts = alts


def SymCall(target: str, *args: Any) -> Any:
    """Run the real function `target` (again) on other arguments inside a clause -- for relational clauses such as
    commutativity.  Symbolic: every path of the callee body gives one guarded alternative.  Native: a plain call."""
    from .loader import lookup
    fi = lookup(target)
    if not _sym(*args):
        return fi.pyfunc(*args)
    ctx = current()
    base = len(ctx.st.pc)
    alts = []
    st0 = ctx.st.copy()
    st0.frames = ()          # a fresh activation: not a recursive call of the function under verification
    for val, st2 in ctx.ex.inline(fi, list(args), {}, st0):
        alts.append((z3.And(st2.pc[base:]) if len(st2.pc) > base else z3.BoolVal(True), val))
    return Alts(alts)


def EqAlts(x: Any, y: Any, eq: Optional[Callable[[Any, Any], Any]] = None) -> Any:
    """x == y (or eq(x, y)) where y comes from SymCall"""
    eq = eq or Eq
    if isinstance(y, Alts):
        return VBool(z3.And(z3.Or([g for g, _ in y.alts]), *[z3.Implies(g, V_._b(eq(x, v))) for g, v in y.alts]))
    return eq(x, y)


def IsNone(x: Any) -> Any:
    if isinstance(x, VUnion):
        return x.is_none()
    if isinstance(x, VNone):
        return VBool(True)
    if isinstance(x, V):
        return VBool(False)
    return x is None


def IsInt(x: Any) -> Any:
    if isinstance(x, VUnion):
        return x.is_int()
    if isinstance(x, VInt):
        return VBool(True)
    if isinstance(x, V):
        return VBool(False)
    return isinstance(x, int) and not isinstance(x, bool)


def IsStr(x: Any) -> Any:
    if isinstance(x, VUnion):
        return x.is_str()
    if isinstance(x, VStr):
        return VBool(True)
    if isinstance(x, V):
        return VBool(False)
    return isinstance(x, str)


def AsInt(x: Any) -> Any:
    if isinstance(x, VUnion):
        return x.as_int()
    return x


def AsStr(x: Any) -> Any:
    if isinstance(x, VUnion):
        return x.as_str()
    return x


def IsInstance(x: Any, cls: Any) -> Any:
    """cls: class name(s) (str) or class(es); resolved against the real class table."""
    from .loader import class_table
    names = cls if isinstance(cls, (tuple, list)) else (cls,)
    pycls = tuple(class_table().cls(c) if isinstance(c, str) else c for c in names)
    if isinstance(x, V):
        ctx = current()
        return ctx.ex.isinstance_v(x, pycls)
    return isinstance(x, pycls)


def forall(domain: Any, fn: Callable[[Any], Any], sample: Optional[Sequence[Any]] = None) -> Any:
    """Symbolic: a real quantifier over the sort of `domain` (a Ty).  Native: conjunction over `sample`."""
    ctx = _ctx_stack[-1] if _ctx_stack else None
    if ctx is not None and ctx.symbolic:
        x = ctx.ex.fresh(domain, "q", ctx.st, constrain=False)
        body = fn(x)
        guard = ctx.ex.type_constraint(x)
        var = ctx.ex.term_of(x)
        return VBool(z3.ForAll([var], z3.Implies(guard, V_._b(body))))
    if sample is None:
        raise Unsupported("native forall needs a sample")
    return all(bool(fn(x)) for x in sample)


def exists(domain: Any, fn: Callable[[Any], Any], sample: Optional[Sequence[Any]] = None) -> Any:
    ctx = _ctx_stack[-1] if _ctx_stack else None
    if ctx is not None and ctx.symbolic:
        x = ctx.ex.fresh(domain, "q", ctx.st, constrain=False)
        body = fn(x)
        guard = ctx.ex.type_constraint(x)
        var = ctx.ex.term_of(x)
        return VBool(z3.Exists([var], z3.And(guard, V_._b(body))))
    if sample is None:
        raise Unsupported("native exists needs a sample")
    return any(bool(fn(x)) for x in sample)


# ------------------------------------------------------------------------------------------------
# evaluation context (lets spec functions reach the executor and the current state)
# ------------------------------------------------------------------------------------------------

class Ctx:
    def __init__(self, ex: Any, st: Any, symbolic: bool = True):
        self.ex = ex
        self.st = st
        self.symbolic = symbolic
        self.extra: List[Any] = []  # formulas spec functions want assumed (axiom instances)


_ctx_stack: List[Ctx] = []


def current() -> Ctx:
    if not _ctx_stack:
        raise Unsupported("no evaluation context")
    return _ctx_stack[-1]


def in_symbolic_context() -> bool:
    return bool(_ctx_stack) and _ctx_stack[-1].symbolic


class use_ctx:
    def __init__(self, ctx: Ctx):
        self.ctx = ctx

    def __enter__(self) -> Ctx:
        _ctx_stack.append(self.ctx)
        return self.ctx

    def __exit__(self, *a: Any) -> None:
        _ctx_stack.pop()


# ------------------------------------------------------------------------------------------------
# contracts
# ------------------------------------------------------------------------------------------------

class Clause:
    def __init__(self, label: str, fn: Callable[..., Any], tags: Sequence[str] = (), must_fail: bool = False,
                 note: str = "", known: Optional[Dict[str, Callable[..., Any]]] = None, naming: bool = False):
        self.naming = naming       # a clause that only *names* the result by an uninterpreted symbol (assumed at call sites, nothing to prove)
        self.known = known or {}   # finding id -> predicate (same parameters as fn) delimiting the known-finding case
        self.label = label
        self.fn = fn
        self.tags = list(tags)
        self.must_fail = must_fail
        self.note = note
        self.argnames = list(inspect.signature(fn).parameters)

    def __repr__(self) -> str:
        return f"<Clause {self.label}>"


class LoopInv:
    def __init__(self, ordinal: int, var: str, fn: Callable[..., Any], label: str = "inv", tags: Sequence[str] = ()):
        self.ordinal = ordinal
        self.var = var
        self.fn = fn
        self.label = label
        self.tags = list(tags)
        self.argnames = list(inspect.signature(fn).parameters)


class Contract:
    def __init__(self, target: str):
        self.target = target
        self.params: Dict[str, Ty] = {}
        self.returns: Optional[Ty] = None
        self.ghost: Dict[str, Ty] = {}
        self.requires: List[Clause] = []
        self.assumes: List[Clause] = []   # definitional axioms instantiated when the function itself is verified (not at call sites)
        self.ensures: List[Clause] = []
        self.canaries: List[Clause] = []
        self.modifies: List[str] = []          # heap components the function may write ("Class.attr", "list:<param>")
        self.invariants: List[LoopInv] = []
        self.raises: List[Tuple[str, Callable[..., Any]]] = []
        self.inline_depth: int = 4
        self.trusted: bool = False             # contract assumed, body not verified (listed as assumption)
        self.trusted_reason: str = ""
        self.pure: bool = True
        self.tags: List[str] = []
        self.views: Dict[str, str] = {}
        self.opaque_calls: List[str] = []      # callee qualnames never inlined even without contract (=> Unsupported)
        self.touch: List[str] = []             # parameter names whose class axioms are instantiated at entry
        self.max_paths: int = 4000
        self.field_types: Dict[Any, Any] = {}   # (class name, attribute) -> type, overriding the global schema for this contract
        self.allocates: bool = False       # the function allocates objects that remain reachable after it returns
        self.axiom_bags: bool = False      # list(set) as a fresh bag array with a defining axiom instead of a lambda term
        self.seq_filter: bool = False      # filter comprehensions over seq lists yield a seq list (membership axioms)
        self.timeout_factor: float = 1.0   # solver budget multiplier for quantifier-heavy contracts
        self.notes: str = ""
        self.xval: Optional[Callable[..., Any]] = None  # generator of native inputs for cross-validation
        self.reify: Optional[Callable[..., Any]] = None
        self.local_types: Dict[str, Ty] = {}   # declared types of locals initialised with empty literals
        self.axiom_sets: set = set()     # optional spec axiom families needed by this function's proof (e.g. {"addr"})
        self.loop_havoc: Dict[int, List[str]] = {}   # loop ordinal -> heap components (L.* / D.*) the loop may write (overrides the syntactic guess)
        self.z3_first_s: Optional[float] = None   # string-heavy contracts: seconds the z3 API gets before cvc5 takes the obligation
        self.param_terms: Dict[str, Callable[..., Any]] = {}   # parameter -> value built from the ghost parameters (a definitional precondition `p == term`)
        self.samples: Optional[Callable[[], Any]] = None   # native argument dicts (cross-validation, frame replay)


REGISTRY: Dict[str, Contract] = {}


def contract(target: str, **kw: Any) -> Contract:
    c = REGISTRY.get(target)
    if c is None:
        c = Contract(target)
        REGISTRY[target] = c
    for k, v in kw.items():
        if not hasattr(c, k):
            raise AttributeError(f"contract has no attribute {k}")
        setattr(c, k, v)
    return c


def requires(c: Contract, label: str, fn: Callable[..., Any], tags: Sequence[str] = (), note: str = "") -> None:
    c.requires.append(Clause(label, fn, tags, note=note))


def assumes(c: Contract, label: str, fn: Callable[..., Any]) -> None:
    """Definitional axioms of ghost symbols (e.g. the definition of ISFIELDREAD for this stack value): assumed at the entry
    of the function's own verification only; callers see the ensures clauses, which are stated in terms of the ghosts."""
    c.assumes.append(Clause(label, fn))


def ensures(c: Contract, label: str, fn: Callable[..., Any], tags: Sequence[str] = (), note: str = "",
            known: Optional[Dict[str, Callable[..., Any]]] = None, naming: bool = False) -> None:
    """known = {finding id: predicate}: the clause is proved outside the predicate's case (must discharge) and,
    separately, inside it (expected to be refuted while the finding is listed in known_findings.json).
    naming=True: the clause introduces an uninterpreted name for the result (`result == NAME(args)`): it is assumed at call
    sites and generates no obligation; what it assumes is that the function is deterministic in the named arguments over the
    part of the heap that its callers leave unchanged (listed in the evidence as an assumption)."""
    c.ensures.append(Clause(label, fn, tags, note=note, known=known, naming=naming))


def must_fail(c: Contract, label: str, fn: Callable[..., Any], tags: Sequence[str] = ()) -> None:
    c.canaries.append(Clause(label, fn, tags, must_fail=True))


def invariant(c: Contract, ordinal: int, var: str, fn: Callable[..., Any], label: str = "inv",
              tags: Sequence[str] = ()) -> None:
    c.invariants.append(LoopInv(ordinal, var, fn, label, tags))
