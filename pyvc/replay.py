"""Counterexample reification and native replay (DESIGN.md §2.6).

A refuted obligation's model is turned into real tealer objects by the contract's `reify` hook; the *real* function
is then called under CPython and the failed clause is evaluated natively on its result.  Three outcomes:
  violation  - the native clause fails on the reified input (input recorded in the replay file)
  spurious   - every reified input satisfies the native clause (the counterexample lives in the abstraction): undecided
  no-input   - the model cannot be turned into an input
"""
from __future__ import annotations

from pyvc.loader import materialize
import ast
import inspect
import traceback
from typing import Any, Callable, Dict, List, Optional, Tuple

import z3

from .execbase import TYPEOF
from .loader import class_table, funcinfo_of, is_tealer_class, lookup
from .state import initial_heap_array


class ModelView:
    def __init__(self, model: Any):
        self.m = model
        self.ct = class_table()
        self.I = z3.IntSort()

    def ev(self, term: Any) -> Any:
        return self.m.eval(term, model_completion=True)

    def int(self, term: Any) -> int:
        v = self.ev(term)
        return v.as_long() if z3.is_int_value(v) else 0

    def bool(self, term: Any) -> bool:
        return z3.is_true(self.ev(term))

    def str(self, term: Any) -> str:
        v = self.ev(term)
        return v.as_string() if z3.is_string_value(v) else ""

    def typeof(self, ref: int) -> Optional[type]:
        return self.ct.by_id.get(self.int(TYPEOF(z3.IntVal(ref))))

    def fint(self, ref: int, cls: str, attr: str, suffix: str = "") -> int:
        arr = initial_heap_array(f"F:{cls}.{attr}{suffix}", self.I, self.I)
        return self.int(z3.Select(arr, z3.IntVal(ref)))

    def fstr(self, ref: int, cls: str, attr: str, suffix: str = "") -> str:
        arr = initial_heap_array(f"F:{cls}.{attr}{suffix}", self.I, z3.StringSort())
        return self.str(z3.Select(arr, z3.IntVal(ref)))

    def vint(self, ref: int, cls: str, attr: str) -> int:
        arr = initial_heap_array(f"V:{cls}.{attr}", self.I, self.I)
        return self.int(z3.Select(arr, z3.IntVal(ref)))

    def list_ints(self, lref: int, n: Optional[int] = None) -> List[int]:
        ln = initial_heap_array("L.len", self.I, self.I)
        el = initial_heap_array("L.elem:Int", self.I, z3.ArraySort(self.I, self.I))
        if n is None:
            n = self.int(z3.Select(ln, z3.IntVal(lref)))
        n = max(0, min(n, 8))
        return [self.int(z3.Select(z3.Select(el, z3.IntVal(lref)), i)) for i in range(n)]


def init_param_fields(cls: type) -> List[Tuple[str, Optional[str], type, Any]]:
    """For C.__init__(self, p1, p2, ...): [(param, attr it is stored in or None, definer, annotation)]."""
    for k in cls.__mro__:
        if "__init__" in vars(k):
            if not is_tealer_class(k):
                return []
            fi = funcinfo_of(vars(k)["__init__"], k)
            selfn = fi.argnames[0]
            out = []
            for a in fi.node.args.args[1:]:
                attr = None
                for n in ast.walk(fi.node):
                    tgts = []
                    val = None
                    if isinstance(n, ast.Assign):
                        tgts, val = n.targets, n.value
                    elif isinstance(n, ast.AnnAssign) and n.value is not None:
                        tgts, val = [n.target], n.value
                    for t in tgts:
                        if isinstance(t, ast.Attribute) and isinstance(t.value, ast.Name) and t.value.id == selfn \
                                and isinstance(val, ast.Name) and val.id == a.arg:
                            attr = t.attr
                out.append((a.arg, attr, k, a.annotation))
            return out
    return []


def reify_object(mv: ModelView, ref: int, depth: int = 0) -> Any:
    """Generic: real instance of the class the model assigns to `ref`, constructor arguments read from the model."""
    from .execbase import ExecBase
    cls = mv.typeof(ref)
    if cls is None:
        return None
    params = init_param_fields(cls)
    args = []
    dummy = _DummyTyper()
    for pname, attr, definer, ann in params:
        if attr is None:
            args.append(0)
            continue
        try:
            ty = dummy.field_type(definer, attr)
        except Exception:
            args.append(0)
            continue
        k = ty.kind
        if k == "int":
            args.append(mv.fint(ref, definer.__name__, attr))
        elif k == "str":
            args.append(mv.fstr(ref, definer.__name__, attr))
        elif k == "ref":
            sub = reify_object(mv, mv.fint(ref, definer.__name__, attr), depth + 1)
            if sub is None:
                # any concrete subclass instance
                from .values import _resolve_cls
                base = _resolve_cls(ty.cls)
                subs = [c for c in mv.ct.subclasses(base) if c is not base]
                sub = (subs[0] if subs else base)()
            args.append(sub)
        elif k == "union":
            tag = mv.fint(ref, definer.__name__, attr, "#tag")
            tag = max(0, min(tag, len(ty.alts) - 1))
            at = ty.alts[tag]
            if at.kind == "int":
                args.append(mv.fint(ref, definer.__name__, attr, f"#{tag}"))
            elif at.kind == "str":
                args.append(mv.fstr(ref, definer.__name__, attr, f"#{tag}"))
            else:
                args.append(None)
        elif k == "list":
            args.append([])
        else:
            args.append(0)
    try:
        return cls(*args)
    except Exception:
        try:
            return cls()
        except Exception:
            return None


class _DummyTyper:
    def field_type(self, definer: type, attr: str) -> Any:
        from .execbase import ExecBase
        return ExecBase.field_type(self, definer, attr)  # type: ignore[arg-type]


def native_clause(clause: Any, ns: Dict[str, Any]) -> Tuple[Optional[bool], str]:
    try:
        argv = [ns[a] for a in clause.argnames]
        r = clause.fn(*argv)
        return bool(r), ""
    except Exception as e:
        from spec.native import Undefined
        if isinstance(e, Undefined):
            return None, f"undefined: {e}"
        return None, f"{type(e).__name__}: {e}\n{traceback.format_exc()[-800:]}"


def replay(contract: Any, clause: Any, obligation: Any, max_models: int = 16) -> Dict[str, Any]:
    """Try to turn a model of a refuted obligation into a failing native run of the real function.
    Up to `max_models` models are tried (blocking clauses over the terms the reifier names)."""
    out: Dict[str, Any] = {"status": "no-input", "detail": "", "inputs": None}
    if obligation.kind == "frame" and obligation.label.startswith("inplace:"):
        return replay_frame(contract, obligation)
    if contract.reify is None and contract.samples is not None and clause is not None:
        # no model reifier: search the contract's native samples for an input on which the clause fails
        fi = lookup(contract.target)
        tried = 0
        for args in contract.samples():
            tried += 1
            ns = dict(args)
            try:
                ns["result"] = materialize(fi)(*[args[a] for a in fi.argnames])
            except Exception:
                continue
            ok, why = native_clause(clause, ns)
            if ok is False:
                out.update(status="violation", detail=f"native clause `{clause.label}` is false on a sample; real result = {ns['result']!r}",
                           inputs={k: repr(v) for k, v in args.items() if k != "self"}, tried=tried)
                return out
        out.update(status="no-input", detail=f"no sample ({tried} tried) falsifies the clause natively")
        return out
    if contract.reify is None or obligation.result is None or obligation.result.model is None:
        out["detail"] = "no reifier for this contract" if contract.reify is None else "no model"
        return out
    fi = lookup(contract.target)
    solver = z3.Solver()
    solver.set("timeout", 10000)
    solver.add(*obligation.pc)
    solver.add(z3.Not(obligation.goal))
    model = obligation.result.model
    tried = 0
    last = ""
    any_candidate = False
    phase1 = True
    solver.push()
    for it in range(max_models):
        if it > 0:
            if solver.check() != z3.sat:
                if phase1:
                    # every value of the first (shape) term has been tried: fall back to joint blocking
                    phase1 = False
                    solver.pop()
                    if solver.check() != z3.sat:
                        break
                else:
                    break
            model = solver.model()
        mv = ModelView(model)
        try:
            candidates = list(contract.reify(mv, obligation))
        except Exception as e:
            out["detail"] = f"reification failed: {type(e).__name__}: {e}\n{traceback.format_exc()[-600:]}"
            return out
        block: List[Any] = []
        for cand in candidates:
            any_candidate = True
            tried += 1
            block = cand.get("block", block)
            args = cand["args"]
            ns = dict(args)
            ns.update(cand.get("ghost", {}))
            try:
                res = materialize(fi)(*[args[a] for a in fi.argnames])
            except Exception as e:
                if obligation.kind == "safe":
                    out.update(status="violation", detail=f"real function raised {type(e).__name__}: {e}",
                               inputs=cand.get("repr"), tried=tried, teal=cand.get("teal"))
                    return out
                last = f"real function raised {type(e).__name__}: {e}"
                continue
            ns["result"] = res
            ok, why = native_clause(clause, ns) if clause is not None else (None, "no clause")
            if ok is False:
                out.update(status="violation", detail=f"native clause `{clause.label}` is false; real result = {res!r}",
                           inputs=cand.get("repr"), tried=tried, teal=cand.get("teal"), models=it + 1)
                return out
            last = why or f"native clause holds; real result = {res!r}"
        if not block:
            break
        if phase1:
            solver.add(block[0] != mv.ev(block[0]))
        else:
            solver.add(z3.Or([t != mv.ev(t) for t in block]))
    if not any_candidate:
        out["detail"] = "reifier produced no input"
        return out
    out.update(status="spurious", detail=last, tried=tried)
    return out


def replay_frame(contract: Any, obligation: Any) -> Dict[str, Any]:
    """A syntactic in-place mutation of a parameter: demonstrate it on the contract's native samples."""
    import copy
    out: Dict[str, Any] = {"status": "no-input", "detail": obligation.note, "inputs": None}
    if contract.samples is None:
        return out
    fi = lookup(contract.target)
    pname = obligation.label.split(":")[1].split("@")[0]
    tried = 0
    for args in contract.samples():
        tried += 1
        before = copy.deepcopy(args.get(pname))
        try:
            materialize(fi)(*[args[a] for a in fi.argnames])
        except Exception as e:
            continue
        if args.get(pname) != before:
            out.update(status="violation", detail=f"{obligation.note}; argument `{pname}` was {before!r} before the call and is "
                       f"{args.get(pname)!r} after it", inputs={k: repr(v) for k, v in args.items() if k != "self"}, tried=tried)
            return out
    out.update(status="spurious", detail=f"{obligation.note}; no sample shows a mutation", tried=tried)
    return out
