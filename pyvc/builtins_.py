"""Builtin functions and methods of builtin containers (DESIGN.md §2.2 table)."""
from __future__ import annotations

import ast
from typing import Any, Dict, Iterator, List, Optional, Tuple

import z3

from .state import State
from .values import (T, Ty, V, VBool, VClass, VDict, VEnum, VFunc, VInt, VList, VNone, VPy, VRec, VRef, VSet, VStr,
                     VTuple, VUnion, Unsupported, fresh_name, sort_of, to_term, from_term, _b, _i, _s)


RE_SEARCH = z3.Function("re_search", z3.StringSort(), z3.StringSort(), z3.BoolSort())
RE_MATCH_OBJECT = object()


def call_builtin(ex: Any, fv: VFunc, args: List[V], kwargs: Dict[str, V], st: State, node: ast.AST) -> Iterator[Tuple[V, State]]:
    f = fv.pyobj
    name = fv.name or getattr(f, "__name__", "")
    import re as _re
    if f in (_re.match, _re.fullmatch) and len(args) == 2 and not kwargs and all(isinstance(a, VStr) for a in args):
        # other matching functions: other relations (a text that calls them is executable, and differs from re.search)
        m = z3.Function("re_" + f.__name__, z3.StringSort(), z3.StringSort(), z3.BoolSort())(_s(args[0]), _s(args[1]))
        yield VUnion([(z3.Not(m), VNone()), (m, VPy(RE_MATCH_OBJECT))]), st
        return
    if f is _re.search and len(args) == 2 and not kwargs and all(isinstance(a, VStr) for a in args):
        # re.search(pattern, text): the match object is opaque; whether there is one is an uninterpreted relation of the two strings
        m = RE_SEARCH(_s(args[0]), _s(args[1]))
        yield VUnion([(z3.Not(m), VNone()), (m, VPy(RE_MATCH_OBJECT))]), st
        return
    if f is isinstance:
        x, c = args
        classes = list(c.items) if isinstance(c, VTuple) else [c]
        classes = [ex.narrow(k, st) for k in classes]
        if any(isinstance(k, VUnion) for k in classes):
            raise Unsupported("isinstance against a class value of undetermined kind")
        yield ex.isinstance_v(x, classes), st
        return
    if f is len:
        (x,) = args
        if isinstance(x, VTuple):
            yield VInt(len(x.items)), st
        elif isinstance(x, VList):
            yield ex.list_len(x, st), st
        elif isinstance(x, VStr):
            yield VInt(z3.Length(x.term)), st
        elif isinstance(x, VSet):
            raise Unsupported("len() of a symbolic set")
        else:
            raise Unsupported(f"len({x!r})")
        return
    if f is set or f is frozenset:
        if not args:
            yield VSet(T.Int, z3.K(z3.IntSort(), z3.BoolVal(False))), st  # element sort fixed on first use: see make_empty
            return
        (x,) = args
        yield to_set(ex, x, st), st
        return
    if f is list:
        if not args:
            l, st2 = ex.new_list(T.Int, "seq", st)
            yield l, st2
            return
        (x,) = args
        yield from to_list(ex, x, st)
        return
    if f is tuple:
        (x,) = args
        items = ex.concrete_items(x, st)
        if items is None:
            raise Unsupported("tuple() of symbolic iterable")
        yield VTuple(items), st
        return
    if f is range:
        if all(ex.is_concrete(a) for a in args):
            vals = [ex.concrete(a) for a in args]
            yield VPy(range(*vals)), st
            return
        if len(args) in (1, 2):
            # a range with symbolic bounds: only its *set of members* is modelled ({x | lo <= x < hi}); iterating it is outside the
            # subset (the value is a set: a `for` over it is rejected)
            lo = z3.IntVal(0) if len(args) == 1 else _i(ex.narrow(args[0], st))
            hi = _i(ex.narrow(args[-1], st))
            e = z3.Int(fresh_name("re"))
            rs = VSet(T.Int, z3.Lambda([e], z3.And(e >= lo, e < hi)))
            rs.is_range = True
            yield rs, st
            return
        raise Unsupported("range() with a symbolic step")
    if f is max or f is min:
        default = kwargs.get("default")
        if len(args) == 1:
            x = args[0]
            if isinstance(x, VSet) and f is max:
                # max of a set of ints with default: m is the maximum or default when empty
                m = z3.Int(fresh_name("max"))
                e = z3.Int(fresh_name("e"))
                empty = x.term == z3.K(z3.IntSort(), z3.BoolVal(False))
                if default is None:
                    ex.oblige(st, "safe", f"max-empty@{node.lineno}", z3.Not(empty), tags=["C17"])
                    st = st.assume(z3.Not(empty))
                    d = z3.IntVal(0)
                else:
                    d = _i(default)
                st = st.assume(z3.If(empty, m == d, z3.And(z3.Select(x.term, m),
                                                           z3.ForAll([e], z3.Implies(z3.Select(x.term, e), e <= m)))))
                yield VInt(m), st
                return
            items = ex.concrete_items(x, st)
            if items is None:
                raise Unsupported(f"{name}() of symbolic iterable")
        else:
            items = args
        acc = _i(items[0])
        for it in items[1:]:
            t = _i(it)
            acc = z3.If(t > acc, t, acc) if f is max else z3.If(t < acc, t, acc)
        yield VInt(acc), st
        return
    if f is int:
        (x,) = args[:1]
        if isinstance(x, (VInt, VBool)) and len(args) == 1:
            yield VInt(_i(x)), st
            return
        raise Unsupported("int() of a string (external)")
    if f is str:
        (x,) = args
        if isinstance(x, VStr):
            yield x, st
            return
        yield ex.format_value(x, None, st), st
        return
    if f is bool:
        (x,) = args
        yield ex.truth_st(x, st), st
        return
    if f is abs:
        (x,) = args
        t = _i(x)
        yield VInt(z3.If(t >= 0, t, -t)), st
        return
    if f is print:
        yield VNone(), st
        return
    if f is any or f is all:
        (x,) = args
        items = ex.concrete_items(x, st)
        if items is None:
            raise Unsupported(f"{name}() over symbolic iterable")
        ts = [ex.truth_st(i, st).term for i in items]
        yield VBool((z3.Or(ts) if ts else z3.BoolVal(False)) if f is any else (z3.And(ts) if ts else z3.BoolVal(True))), st
        return
    if f is sum:
        (x,) = args[:1]
        items = ex.concrete_items(x, st)
        if items is None:
            raise Unsupported("sum() over symbolic iterable")
        acc: Any = z3.IntVal(0)
        for i in items:
            acc = acc + _i(i)
        yield VInt(acc), st
        return
    if f is enumerate:
        (x,) = args
        items = ex.concrete_items(x, st)
        if items is None:
            raise Unsupported("enumerate over symbolic iterable")
        yield VTuple([VTuple([VInt(i), it]) for i, it in enumerate(items)]), st
        return
    if f is zip:
        lists = [ex.concrete_items(a, st) for a in args]
        if any(l is None for l in lists):
            raise Unsupported("zip over symbolic iterable")
        yield VTuple([VTuple(list(t)) for t in zip(*lists)]), st
        return
    if f is getattr:
        obj, nm = args[0], ex.concrete(args[1])
        if len(args) == 3 and isinstance(obj, VRef):
            # getattr(obj, name, default): dispatch on the dynamic class; classes without the attribute give the default
            from .loader import find_attr_definer, init_assigned_attrs
            if find_attr_definer(obj.cls, nm) is not None or nm in init_assigned_attrs(obj.cls):
                yield from ex.getattr_v(obj, nm, st)
                return
            definers = []
            for d in ex.ct.subclasses(obj.cls):
                if d is obj.cls:
                    continue
                if nm in vars(d) or nm in {a for a, k in init_assigned_attrs(d).items() if k is d}:
                    if not any(ex.ct.is_sub(d, e) and e is not d for e in definers):
                        definers = [e for e in definers if not ex.ct.is_sub(e, d)] + [d]
            guards = []
            for d in definers:
                g = ex.isinstance_v(obj, [d]).term
                guards.append(g)
                if ex.feasible_with(st, g):
                    yield from ex.getattr_v(VRef(obj.term, d, ex), nm, st.assume(g).decide(f"getattr.{nm}.{d.__name__}"))
            none = z3.Not(z3.Or(guards)) if guards else z3.BoolVal(True)
            if ex.feasible_with(st, none):
                yield args[2], st.assume(none).decide(f"getattr.{nm}.default")
            return
        try:
            outs = list(ex.getattr_v(obj, nm, st))
        except Unsupported:
            if len(args) == 3:
                yield args[2], st
                return
            raise
        yield from outs
        return
    raise Unsupported(f"builtin/external call {name} at {ex.fi.file}:{getattr(node, 'lineno', '?')}")


def to_set(ex: Any, x: V, st: State) -> VSet:
    if isinstance(x, VSet):
        return VSet(x.elem, x.term)
    if isinstance(x, VTuple):
        return ex.make_set(x.items, None if x.items else T.Int)
    if isinstance(x, VList):
        bag = ex.list_bag(x, st)
        e = z3.Const(fresh_name("se"), sort_of(x.elem))
        return VSet(x.elem, z3.Lambda([e], z3.Select(bag, e) > 0))
    if isinstance(x, VPy) and isinstance(x.obj, range):
        return ex.make_set([VInt(i) for i in x.obj], T.Int) if not _range_sym(x.obj) else None
    raise Unsupported(f"set({x!r})")


def _range_sym(r: range) -> bool:
    return False


def to_list(ex: Any, x: V, st: State) -> Iterator[Tuple[V, State]]:
    if isinstance(x, VList):
        # copy: a fresh object with the same contents
        ref, st = ex.alloc(st)
        if x.view == "seq":
            if x.ref.get_id() in st.lens:
                st.lens = {**st.lens, ref.get_id(): st.lens[x.ref.get_id()]}
            st = st.hset("L.len", z3.Store(ex._len_arr(st), ref, z3.Select(ex._len_arr(st), x.ref)))
            key, el = ex._elem_arr(st, x.elem)
            st = st.hset(key, z3.Store(el, ref, z3.Select(el, x.ref)))
            # keep the multiset view available as well
            want_bag = ex.contract.views.get("*lists*") == "bag"
        else:
            key, bg = ex._bag_arr(st, x.elem)
            st = st.hset(key, z3.Store(bg, ref, z3.Select(bg, x.ref)))
        yield VList(x.elem, x.view, ref), st
        return
    if isinstance(x, VSet):
        # list(set): arbitrary order, no duplicates -> bag view with counts 0/1
        ref, st = ex.alloc(st)
        key, bg = ex._bag_arr(st, x.elem)
        e = z3.Const(fresh_name("le"), sort_of(x.elem))
        if getattr(ex.contract, "axiom_bags", False):
            # the bag as a fresh array with a defining axiom (lambda terms under other quantifiers make z3 give up)
            B = z3.Const(fresh_name("lbag"), z3.ArraySort(sort_of(x.elem), z3.IntSort()))
            st = st.assume(z3.ForAll([e], z3.Select(B, e) == z3.If(z3.Select(x.term, e), z3.IntVal(1), z3.IntVal(0)),
                                     patterns=[z3.Select(B, e)]))
            st = st.hset(key, z3.Store(bg, ref, B))
        else:
            st = st.hset(key, z3.Store(bg, ref, z3.Lambda([e], z3.If(z3.Select(x.term, e), z3.IntVal(1), z3.IntVal(0)))))
        yield VList(x.elem, "bag", ref), st
        return
    items = ex.concrete_items(x, st)
    if items is not None:
        ety = ex.elem_type_of_values(items) if items else T.Int
        l, st2 = ex.new_list(ety, "seq", st, items)
        yield l, st2
        return
    raise Unsupported(f"list({x!r})")


def call_method(ex: Any, selfv: V, name: str, args: List[V], kwargs: Dict[str, V], st: State, node: ast.AST
                ) -> Iterator[Tuple[V, State]]:
    if isinstance(selfv, VList):
        yield from list_method(ex, selfv, name, args, st, node)
        return
    if isinstance(selfv, VStr):
        if name == "startswith":
            yield VBool(z3.PrefixOf(_s(args[0]), selfv.term)), st
            return
        if name == "endswith":
            yield VBool(z3.SuffixOf(_s(args[0]), selfv.term)), st
            return
        if name == "strip" and not args:
            # s == l ++ r ++ t with l, t made of (ASCII) whitespace and r neither starting nor ending with whitespace
            ws = z3.Union(*[z3.Re(ch) for ch in (" ", "\t", "\n", "\r", "\x0b", "\x0c")])
            l_, r_, t_ = (z3.String(fresh_name(k)) for k in ("sl", "sr", "st"))
            one = lambda c: z3.InRe(c, ws)      # noqa: E731
            st2 = st.assume(selfv.term == z3.Concat(l_, r_, t_), z3.InRe(l_, z3.Star(ws)), z3.InRe(t_, z3.Star(ws)),
                            z3.Or(z3.And(r_ == z3.StringVal(""), t_ == z3.StringVal("")),
                                  z3.And(z3.Length(r_) > 0, z3.Not(one(z3.SubString(r_, 0, 1))),
                                         z3.Not(one(z3.SubString(r_, z3.Length(r_) - 1, 1))))))
            yield VStr(r_), st2
            return
        raise Unsupported(f"str.{name}")
    if isinstance(selfv, VSet):
        raise Unsupported(f"set.{name} (in-place set mutation / method)")
    if isinstance(selfv, VDict):
        raise Unsupported(f"dict.{name}")
    raise Unsupported(f"method {name} on {selfv!r}")


def list_method(ex: Any, l: VList, name: str, args: List[V], st: State, node: ast.AST) -> Iterator[Tuple[V, State]]:
    if name in ("append", "remove", "extend", "pop", "insert"):
        st = ex.forget_len(l, st)
    if getattr(l, "untyped", False) and name in ("append", "extend", "insert") and args:
        src = args[-1]
        if isinstance(src, VList):
            l.elem = src.elem
        else:
            from .values import TRefU as _TRefU
            if isinstance(src, VUnion) and src.alts and all(isinstance(a, VRef) for _, a in src.alts):
                l.elem = _TRefU(*[a.cls for _, a in src.alts])
            elif isinstance(src, VRef):
                l.elem = T.Ref(src.cls)
            else:
                l.elem = getattr(src, "ty", l.elem)
        l.ty = type(l.ty)(l.elem, l.view)
        l.untyped = False
    if name == "append":
        (x,) = args
        if l.view == "seq":
            n = z3.Select(ex._len_arr(st), l.ref)
            key, el = ex._elem_arr(st, l.elem)
            st = st.hset(key, z3.Store(el, l.ref, z3.Store(z3.Select(el, l.ref), n, to_term(x, l.elem))))
            st = st.hset("L.len", z3.Store(ex._len_arr(st), l.ref, n + 1))
        else:
            key, bg = ex._bag_arr(st, l.elem)
            inner = z3.Select(bg, l.ref)
            t = to_term(x, l.elem)
            st = st.hset(key, z3.Store(bg, l.ref, z3.Store(inner, t, z3.Select(inner, t) + 1)))
        yield VNone(), st
        return
    if name == "remove":
        (x,) = args
        t = to_term(x, l.elem)
        if l.view == "bag":
            key, bg = ex._bag_arr(st, l.elem)
            inner = z3.Select(bg, l.ref)
            ex.oblige(st, "safe", f"remove@{node.lineno}", z3.Select(inner, t) > 0, tags=["C17"],
                      where=f"{ex.fi.file}:{node.lineno}")
            st = st.assume(z3.Select(inner, t) > 0)
            st = st.hset(key, z3.Store(bg, l.ref, z3.Store(inner, t, z3.Select(inner, t) - 1)))
            yield VNone(), st
            return
        # seq view: remove the first occurrence at index k
        n = z3.Select(ex._len_arr(st), l.ref)
        key, el = ex._elem_arr(st, l.elem)
        inner = z3.Select(el, l.ref)
        k = z3.Int(fresh_name("rm"))
        j = z3.Int(fresh_name("j"))
        present = ex.contains(l, x, st).term
        ex.oblige(st, "safe", f"remove@{node.lineno}", present, tags=["C17"], where=f"{ex.fi.file}:{node.lineno}")
        st = st.assume(k >= 0, k < n, z3.Select(inner, k) == t,
                       z3.ForAll([j], z3.Implies(z3.And(j >= 0, j < k), z3.Select(inner, j) != t)))
        i = z3.Int(fresh_name("ri"))
        new_inner = z3.Lambda([i], z3.If(i < k, z3.Select(inner, i), z3.Select(inner, i + 1)))
        st = st.hset(key, z3.Store(el, l.ref, new_inner))
        st = st.hset("L.len", z3.Store(ex._len_arr(st), l.ref, n - 1))
        yield VNone(), st
        return
    if name == "extend":
        (o,) = args
        if l.view == "seq" and isinstance(o, VList) and o.view == "seq":
            la = z3.Select(ex._len_arr(st), l.ref)
            lb = z3.Select(ex._len_arr(st), o.ref)
            key, el = ex._elem_arr(st, l.elem)
            i = z3.Int(fresh_name("xi"))
            inner = z3.Lambda([i], z3.If(i < la, z3.Select(z3.Select(el, l.ref), i), z3.Select(z3.Select(el, o.ref), i - la)))
            st = st.hset(key, z3.Store(el, l.ref, inner))
            st = st.hset("L.len", z3.Store(ex._len_arr(st), l.ref, la + lb))
            yield VNone(), st
            return
        raise Unsupported("list.extend on these views")
    if name == "pop" and not args and l.view == "seq":
        n = z3.Select(ex._len_arr(st), l.ref)
        ex.oblige(st, "safe", f"pop@{node.lineno}", n > 0, tags=["C17"])
        st = st.assume(n > 0)
        v = ex.list_get(l, n - 1, st)
        st = st.hset("L.len", z3.Store(ex._len_arr(st), l.ref, n - 1))
        if isinstance(v, (VRef, VEnum, VUnion)):
            st = st.assume(ex.type_constraint(v))
        yield v, st
        return
    if name == "insert" and l.view == "seq":
        pos, x = args
        p = ex.concrete(pos)
        if p != 0:
            raise Unsupported("list.insert at non-zero position")
        n = z3.Select(ex._len_arr(st), l.ref)
        key, el = ex._elem_arr(st, l.elem)
        inner = z3.Select(el, l.ref)
        i = z3.Int(fresh_name("ii"))
        st = st.hset(key, z3.Store(el, l.ref, z3.Lambda([i], z3.If(i == 0, to_term(x, l.elem), z3.Select(inner, i - 1)))))
        st = st.hset("L.len", z3.Store(ex._len_arr(st), l.ref, n + 1))
        yield VNone(), st
        return
    raise Unsupported(f"list.{name} ({l.view} view)")
