"""Driver: verify one function against its contract; returns a FunctionReport (DESIGN.md §2.4–2.6)."""
from __future__ import annotations

import ast
import time
import traceback
from typing import Any, Dict, List, Optional, Tuple

import z3

from . import smt
from .dsl import Contract, REGISTRY, Ctx, use_ctx
from .execmain import Exec, OldView, TooManyPaths
from .loader import lookup, LoaderError, FuncInfo
from .state import State, Obligation, ALLOC0, initial_heap_array
from .typing_hints import ty_from_ast
from .values import T, V, VBool, VNone, VRef, VList, Unsupported, _b, fresh_name


class FunctionReport:
    def __init__(self, target: str):
        self.target = target
        self.obligations: List[Obligation] = []
        self.status = "ok"           # ok | unsupported | error | vacuous
        self.reason = ""
        self.paths = 0
        self.infeasible = 0
        self.seconds = 0.0
        self.calls_by_contract: List[str] = []
        self.partial_raises: List[Any] = []
        self.inlined: List[str] = []
        self.pre_witness = False

    def counts(self) -> Dict[str, int]:
        c = {"discharged": 0, "refuted": 0, "undecided": 0, "canary_ok": 0, "canary_bad": 0}
        for o in self.obligations:
            r = o.result.status if o.result else "unknown"
            if o.must_fail:
                c["canary_ok" if r != "unsat" else "canary_bad"] += 1
            elif r == "unsat":
                c["discharged"] += 1
            elif r == "sat":
                c["refuted"] += 1
            else:
                c["undecided"] += 1
        return c


def make_params(ex: Exec, c: Contract, fi: FuncInfo, st: State) -> Tuple[Dict[str, V], State]:
    env: Dict[str, V] = {}
    a = fi.node.args
    for arg in a.posonlyargs + a.args:
        name = arg.arg
        ty = c.params.get(name)
        if ty is None:
            ty = ty_from_ast(arg.annotation, fi.globals)
        if ty is None and name == "self" and fi.owner is not None:
            ty = T.Ref(fi.owner)
        if ty is None:
            raise Unsupported(f"no type for parameter {name} of {c.target}")
        v, st = ex.fresh_in(ty, name, st)
        env[name] = v
    # captured variables of nested functions become parameters
    for name, ty in c.params.items():
        if name not in env:
            v, st = ex.fresh_in(ty, name, st)
            env[name] = v
    return env, st


def frame_obligations(ex: Exec, c: Contract, st_exit: State, st_entry: State) -> None:
    mods = set(c.modifies)
    for key, arr in st_exit.heap.items():
        if key in mods:
            continue
        a0 = st_entry.heap.get(key)
        if a0 is None:
            a0 = initial_heap_array(key, arr.sort().domain(), arr.sort().range())
        if arr.eq(a0):
            continue
        r = z3.Int(fresh_name("fr"))
        goal = z3.ForAll([r], z3.Implies(r < ALLOC0, z3.Select(arr, r) == z3.Select(a0, r)))
        ex.oblige(st_exit, "frame", key, goal, tags=list(set(["C14"] + c.tags)))


MUTATORS = {"append", "remove", "extend", "pop", "insert", "add", "discard", "clear", "update", "sort", "reverse",
            "setdefault", "popitem", "intersection_update", "difference_update", "symmetric_difference_update"}


def inplace_param_mutations(fi: FuncInfo, c: Contract) -> List[Tuple[str, int, str]]:
    """Syntactic frame check (C14): in-place mutation (augmented assignment, mutator method, item/attribute store) of an
    object that may be a *parameter's* container value.  Aliases through plain `x = param` assignments are followed.
    Containers only: augmented assignment on ints/strings rebinds and is harmless, so parameters whose declared or
    annotated type is int/bool/str/record/ref are ignored for `op=`."""
    node = fi.node
    if isinstance(node, ast.Lambda):
        return []
    params = [a.arg for a in node.args.posonlyargs + node.args.args]
    scalar = set()
    for a in node.args.posonlyargs + node.args.args:
        ty = c.params.get(a.arg) or ty_from_ast(a.annotation, fi.globals)
        if ty is not None and ty.kind in ("int", "bool", "str", "rec", "enum", "abs", "cls", "none"):
            scalar.add(a.arg)
    alias = {p: p for p in params if p != "self" and p not in scalar}
    rebound = set()
    out: List[Tuple[str, int, str]] = []
    allowed = {m.split(":", 1)[1] for m in c.modifies if m.startswith("param:")}
    for n in ast.walk(node):
        if isinstance(n, ast.Assign) and len(n.targets) == 1 and isinstance(n.targets[0], ast.Name):
            t = n.targets[0].id
            if isinstance(n.value, ast.Name) and n.value.id in alias:
                alias[t] = alias[n.value.id]
    for n in ast.walk(node):
        if isinstance(n, ast.AugAssign) and isinstance(n.target, ast.Name) and n.target.id in alias:
            if isinstance(n.op, (ast.BitAnd, ast.BitOr, ast.Sub, ast.Add, ast.BitXor)):
                out.append((alias[n.target.id], n.lineno, f"`{n.target.id} {type(n.op).__name__}= ...` mutates a container in place"))
        if isinstance(n, ast.Call) and isinstance(n.func, ast.Attribute) and n.func.attr in MUTATORS \
                and isinstance(n.func.value, ast.Name) and n.func.value.id in alias:
            out.append((alias[n.func.value.id], n.lineno, f"`{n.func.value.id}.{n.func.attr}(...)`"))
        if isinstance(n, ast.Subscript) and isinstance(n.ctx, (ast.Store, ast.Del)) and isinstance(n.value, ast.Name) \
                and n.value.id in alias:
            out.append((alias[n.value.id], n.lineno, f"`{n.value.id}[...] = ...`"))
    # a parameter that the function also *rebinds* (`worklist = worklist[1:]`): the name may denote a fresh object at the
    # mutation; for heap objects (seq lists, dicts) whose components are not in `modifies` the heap frame obligations decide
    # (`forall r < alloc0: unchanged`), so the flow-insensitive syntactic flag is dropped there
    rebinds = set()
    for n in ast.walk(node):
        if isinstance(n, (ast.Assign, ast.AnnAssign, ast.AugAssign)):
            tgts = n.targets if isinstance(n, ast.Assign) else [n.target]
            for t in tgts:
                if isinstance(t, ast.Name):
                    rebinds.add(t.id)
    heap_checked = set()
    for a in node.args.posonlyargs + node.args.args:
        ty = c.params.get(a.arg) or ty_from_ast(a.annotation, fi.globals)
        if ty is None or a.arg not in rebinds:
            continue
        if ty.kind == "list" and getattr(ty, "view", "seq") == "seq" and not any(m.startswith("L.") for m in c.modifies):
            heap_checked.add(a.arg)
        if ty.kind == "dict" and not any(m.startswith("D.") for m in c.modifies):
            heap_checked.add(a.arg)
    return [(p, ln, why) for p, ln, why in out if p not in allowed and p not in heap_checked]


def verify_function(c: Contract, timeout_s: float = 10.0, solve: bool = True) -> FunctionReport:
    rep = FunctionReport(c.target)
    t0 = time.time()
    try:
        fi = lookup(c.target)
    except (LoaderError, AttributeError) as e:
        rep.status = "error"
        rep.reason = f"target not found: {e}"
        return rep
    try:
        import spec.avm_axioms as _ax
        _ax.ACTIVE_SETS.clear()
        _ax.ACTIVE_SETS.update(c.axiom_sets)
    except ImportError:
        pass
    ex = Exec(fi, c, REGISTRY)
    ex.raised = []
    ex.partial_raises = []
    ex.known_heap_keys = {}
    ex.loop_extra_havoc = set()
    try:
        st = State()
        env, st = make_params(ex, c, fi, st)
        ex.inputs = dict(env)
        st = st.push_frame(fi, dict(env))
        for g, ty in c.ghost.items():
            gv, st = ex.fresh_in(ty, g, st)
            st.ghost[g] = gv
            ex.inputs[g] = gv
        for pn, pfn in getattr(c, "param_terms", {}).items():
            # a parameter defined as a term over the ghost parameters (precondition `p == term`, substituted)
            pv = pfn(**{g: st.ghost[g] for g in c.ghost})
            env[pn] = pv
            ex.inputs[pn] = pv
            st = st.bind(pn, pv)
        st = st.assume(ALLOC0 > 0)
        for p in c.touch:
            st = ex.touch(env[p], st)
        ns0: Dict[str, Any] = dict(env)
        ns0.update(st.ghost)
        ns0["old"] = OldView(ex, st)
        for cl in c.requires + c.assumes:
            g, st = ex.eval_clause(cl, ns0, st)
            st = st.assume(_b(g))
        rep.pre_witness = smt.quick_feasible(st.pc, 5000)
        if not rep.pre_witness:
            rep.status = "vacuous"
            rep.reason = "requires /\\ typing is unsatisfiable"
            return rep
        st_entry = st
        ex.entry_view = OldView(ex, st_entry)
        for pname, ln, why in inplace_param_mutations(fi, c):
            ex.oblige(st_entry, "frame", f"inplace:{pname}@{ln}", z3.BoolVal(False), tags=list(set(["C14"] + c.tags)),
                      where=f"{fi.file}:{ln}", note=f"parameter `{pname}` is not in the contract's modifies clause but {why}")
        if isinstance(fi.node, ast.Lambda):
            outs = [("return", v, s2) for v, s2 in ex.ev(fi.node.body, st)]
        else:
            outs = ex.exec_block(fi.node.body, st)
        for kind, payload, st2 in outs:
            ex.npaths += 1
            if kind == "raise":
                ex.raised.append((payload, st2))
                continue
            if kind == "fall":
                payload = VNone()
            elif kind != "return":
                raise Unsupported(f"{kind} at function level")
            ns = dict(env)
            ns.update(st2.ghost)
            ns["result"] = payload
            ns["old"] = OldView(ex, st_entry)
            ns["new"] = OldView(ex, st2)
            for cl in c.ensures:
                if cl.naming:
                    continue
                g, stx = ex.eval_clause(cl, ns, st2)
                if not cl.known:
                    ex.oblige(stx, "post", cl.label, _b(g), tags=cl.tags or c.tags, note=cl.note)
                    continue
                from .dsl import Clause
                conds = {}
                for fid, pred in cl.known.items():
                    pc_, stx = ex.eval_clause(Clause(f"{cl.label}#{fid}", pred), ns, stx)
                    conds[fid] = _b(pc_)
                ex.oblige(stx, "post", cl.label, z3.Implies(z3.Not(z3.Or(list(conds.values()))), _b(g)),
                          tags=cl.tags or c.tags, note=cl.note)
                for fid, cond in conds.items():
                    ex.oblige(stx.assume(cond), "post", f"{cl.label}#{fid}", _b(g), tags=cl.tags or c.tags)
                    ex.obligations[-1].finding = fid
            for cl in c.canaries:
                g, stx = ex.eval_clause(cl, ns, st2)
                ex.oblige(stx, "post", cl.label, _b(g), tags=cl.tags or c.tags, must_fail=True)
            frame_obligations(ex, c, st2, st_entry)
        for exc, st2 in ex.raised:
            name, line = exc if isinstance(exc, tuple) else (str(exc), 0)
            allowed = False
            for rn, rfn in c.raises:
                if rn == name:
                    allowed = True
                    if rfn is not None:
                        # conditional raises clause: the exception may be raised only where the condition (over the entry
                        # state) holds -- callers that do not allow the exception rely on its negation
                        from .dsl import Clause
                        nsr = dict(env)
                        nsr.update(st2.ghost)
                        nsr["old"] = OldView(ex, st_entry)
                        g, stx = ex.eval_clause(Clause(f"raises-{name}", rfn), nsr, st2)
                        ex.oblige(stx, "safe", f"raise-only-if-{name}@{line}", _b(g), tags=list(set(["C17"] + c.tags)))
            if not allowed:
                ex.oblige(st2, "safe", f"raise-{name}@{line}", z3.BoolVal(False), tags=list(set(["C17"] + c.tags)))
    except Unsupported as e:
        rep.status = "unsupported"
        rep.reason = str(e)
        import os as _os
        if _os.environ.get("PYVC_TRACE"):
            rep.reason += "\n" + traceback.format_exc()[-1800:]
    except TooManyPaths as e:
        rep.status = "unsupported"
        rep.reason = str(e)
    except Exception as e:
        rep.status = "error"
        rep.reason = f"{type(e).__name__}: {e}\n{traceback.format_exc()[-1500:]}"
    rep.obligations = ex.obligations
    rep.paths = ex.npaths
    rep.infeasible = ex.infeasible_paths
    rep.calls_by_contract = ex.calls_by_contract
    rep.partial_raises = sorted(set(ex.partial_raises))
    rep.inlined = ex.inlined
    if solve:
        smt.Z3_FIRST_S = getattr(c, "z3_first_s", None)
        try:
            solve_all(rep.obligations, timeout_s * getattr(c, "timeout_factor", 1.0))
        finally:
            smt.Z3_FIRST_S = None
    rep.seconds = time.time() - t0
    return rep


LISTED_FINDINGS: set = set()     # ids listed in known_findings.json (set by the CLI): their case obligations are not solved


def _solve_one(o: Obligation, timeout_s: float) -> Any:
    fid = getattr(o, "finding", None)
    if fid is not None and fid in LISTED_FINDINGS:
        return smt.Result("unknown", "skipped", 0.0, reason="case of a listed finding (decided by its native witness)")
    expected_to_fail = o.must_fail or fid is not None
    return smt.prove(o.pc, o.goal, timeout_s=min(timeout_s, 2.0) if expected_to_fail else timeout_s,
                     portfolio=not expected_to_fail)


def solve_all(obls: List[Obligation], timeout_s: float, nproc: int = 0) -> None:
    """Discharge obligations; large batches are split over forked children (z3 terms are not picklable, a forked
    child inherits them).  Children report status/backend/time; models of refuted obligations are recomputed here."""
    import json
    import os
    # canaries: one unprovable path per clause is enough -- keep the first 4 paths of each
    seen: Dict[Any, int] = {}
    for o in obls:
        if o.must_fail:
            k = (o.kind, o.label)
            seen[k] = seen.get(k, 0) + 1
            if seen[k] > 4:
                o.result = smt.Result("unknown", "skipped", 0.0, reason="canary sampled on other paths")
    obls = [o for o in obls if o.result is None]
    n = len(obls)
    if nproc <= 0:
        nproc = min(int(os.environ.get("PYVC_SOLVER_PROCS", "8")), max(1, n // 25))
    if nproc <= 1 or n < 50:
        for o in obls:
            o.result = _solve_one(o, timeout_s)
        return
    chunks = [list(range(i, n, nproc)) for i in range(nproc)]
    kids = []
    for ch in chunks:
        r, w = os.pipe()
        pid = os.fork()
        if pid == 0:
            os.close(r)
            out = []
            try:
                for i in ch:
                    res = _solve_one(obls[i], timeout_s)
                    out.append([i, res.status, res.backend, res.seconds, res.reason[:200]])
            except BaseException as e:  # pragma: no cover
                out.append([-1, "error", repr(e), 0.0, ""])
            with os.fdopen(w, "w") as f:
                json.dump(out, f)
            os._exit(0)
        os.close(w)
        kids.append((pid, r))
    for pid, r in kids:
        with os.fdopen(r) as f:
            data = f.read()
        os.waitpid(pid, 0)
        try:
            rows = json.loads(data)
        except Exception:
            rows = []
        for i, status, backend, secs, reason in rows:
            if i < 0:
                continue
            if status == "sat" and not obls[i].must_fail:
                obls[i].result = _solve_one(obls[i], timeout_s)   # need the model here
            else:
                obls[i].result = smt.Result(status, backend, secs, reason=reason)
    for o in obls:
        if o.result is None:
            o.result = _solve_one(o, timeout_s)
