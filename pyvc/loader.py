"""Loader: the verified text is the code that runs.

Every run imports the tealer package from /repo's *working tree* (editable install), and obtains
the source of each function under contract with `inspect` (which reads the file on disk) and parses
it with `ast`.  Names inside a function body are resolved through the function's real
`__globals__`, i.e. exactly to the objects CPython would find at run time.

What extraction drops is stated in DESIGN.md §2.1 (docstrings, annotations other than as sort hints,
logger/debug-print calls).
"""
from __future__ import annotations

import ast
import importlib
import inspect
import pkgutil
import sys
import textwrap
import types
from dataclasses import is_dataclass, fields as dc_fields, MISSING
from enum import Enum
from typing import Any, Dict, List, Optional, Tuple

import os as _os
REPO_ROOT = _os.path.realpath(_os.environ.get("VERIF_REPO", "/repo"))


class LoaderError(Exception):
    pass


_imported = False


def import_all_tealer() -> None:
    global _imported
    if _imported:
        return
    import tealer  # noqa

    if not tealer.__file__.startswith(REPO_ROOT + "/"):
        raise LoaderError(f"tealer imported from {tealer.__file__}, not from {REPO_ROOT}")
    for m in pkgutil.walk_packages(tealer.__path__, "tealer."):
        if m.name.endswith("__main__"):
            continue
        try:
            importlib.import_module(m.name)
        except Exception as e:  # pragma: no cover
            raise LoaderError(f"cannot import {m.name}: {e!r}")
    _imported = True


def tealer_modules() -> Dict[str, types.ModuleType]:
    import_all_tealer()
    return {n: m for n, m in sys.modules.items() if (n == "tealer" or n.startswith("tealer.")) and m is not None}


def is_tealer_class(c: Any) -> bool:
    return inspect.isclass(c) and getattr(c, "__module__", "").startswith("tealer")


def is_tealer_function(f: Any) -> bool:
    return inspect.isfunction(f) and getattr(f, "__module__", "").startswith(("tealer", "selftest."))   # selftest: vf/selftest.py


# ------------------------------------------------------------------------------------------------
# function lookup by qualified name  "tealer/a/b.py::Class.method"  or "...::func::nested"
# ------------------------------------------------------------------------------------------------

def _module_of_path(path: str) -> types.ModuleType:
    import_all_tealer()
    mod = path[:-3].replace("/", ".") if path.endswith(".py") else path
    if mod.endswith(".__init__"):
        mod = mod[: -len(".__init__")]
    return importlib.import_module(mod)


class FuncInfo:
    """A real function of the repository together with its AST."""

    def __init__(self, qualname: str, pyfunc: Optional[types.FunctionType], node: ast.AST, module: types.ModuleType,
                 owner: Optional[type], file: str, lineno: int, outer: Optional["FuncInfo"] = None):
        self.qualname = qualname
        self.pyfunc = pyfunc
        self.node = node  # ast.FunctionDef / ast.Lambda
        self.module = module
        self.owner = owner
        self.file = file
        self.lineno = lineno
        self.outer = outer

    @property
    def globals(self) -> Dict[str, Any]:
        return self.module.__dict__

    @property
    def argnames(self) -> List[str]:
        a = self.node.args
        return [x.arg for x in a.posonlyargs + a.args]

    def __repr__(self) -> str:
        return f"<FuncInfo {self.qualname}>"


_func_cache: Dict[Any, FuncInfo] = {}
SLICERS: Dict[str, Any] = {}      # "@name" -> (FuncInfo of the enclosing function) -> FuncInfo of the slice
_slice_cache: Dict[Any, FuncInfo] = {}


def _unwrap(f: Any) -> Any:
    while hasattr(f, "__wrapped__"):
        f = f.__wrapped__
    if isinstance(f, (staticmethod, classmethod)):
        f = f.__func__
    return f


def funcinfo_of(pyfunc: Any, owner: Optional[type] = None) -> FuncInfo:
    pyfunc = _unwrap(pyfunc)
    if isinstance(pyfunc, property):
        pyfunc = pyfunc.fget
    key = pyfunc
    if key in _func_cache:
        return _func_cache[key]
    try:
        src_lines, lineno = inspect.getsourcelines(pyfunc)
    except (OSError, TypeError) as e:
        raise LoaderError(f"no source for {pyfunc!r}: {e}")
    src = textwrap.dedent("".join(src_lines))
    tree = ast.parse(src)
    node = None
    for n in ast.walk(tree):
        if isinstance(n, (ast.FunctionDef, ast.Lambda)):
            node = n
            break
    if node is None:
        raise LoaderError(f"no function node in source of {pyfunc!r}")
    ast.increment_lineno(tree, lineno - 1)
    module = sys.modules[pyfunc.__module__]
    file = inspect.getsourcefile(pyfunc) or "?"
    rel = file[len(REPO_ROOT) + 1:] if file.startswith(REPO_ROOT + "/") else file
    fi = FuncInfo(f"{rel}::{pyfunc.__qualname__}", pyfunc, node, module, owner, rel, lineno)
    _func_cache[key] = fi
    return fi


def lookup(qual: str) -> FuncInfo:
    """qual = 'tealer/x/y.py::A.b'  (method/function)  or 'tealer/x/y.py::f::g' (g nested in f)."""
    path, _, rest = qual.partition("::")
    module = _module_of_path(path)
    parts = rest.split("::")
    head = parts[0]
    obj: Any = module
    owner = None
    for name in head.split("."):
        if inspect.isclass(obj):
            owner = obj
            obj = inspect.getattr_static(obj, name)
        else:
            obj = getattr(obj, name)
    fi = funcinfo_of(obj, owner)
    fi.owner = owner
    for nested in parts[1:]:
        if nested.startswith("@"):
            # a mechanical slice of the function (registered by a contract module): same AST nodes, a stated part dropped
            sname, _, sparam = nested.partition("=")
            if sname not in SLICERS:
                raise LoaderError(f"unknown slice {nested}")
            key = (fi.qualname, nested, id(fi.node))
            if key not in _slice_cache:
                _slice_cache[key] = SLICERS[sname](fi, sparam) if sparam else SLICERS[sname](fi)
            fi = _slice_cache[key]
            continue
        found = None
        for n in ast.walk(fi.node):
            if isinstance(n, ast.FunctionDef) and n.name == nested and n is not fi.node:
                found = n
                break
        if found is None:
            raise LoaderError(f"nested function {nested} not found in {fi.qualname}")
        fi = FuncInfo(fi.qualname + "::" + nested, None, found, fi.module, owner, fi.file, found.lineno, outer=fi)
    return fi


def materialize(fi: FuncInfo) -> Any:
    """A callable for `fi`.  For a nested function (no function object exists outside a run of its enclosing function) the
    FunctionDef node -- the same node the VCs are generated from -- is compiled in the real module globals.  A closure that
    uses free variables of the enclosing function raises NameError when called (the callers treat that as 'no sample')."""
    if fi.pyfunc is not None:
        return fi.pyfunc
    node = fi.node
    mod = ast.Module(body=[node], type_ignores=[])
    ast.fix_missing_locations(mod)
    code = compile(mod, fi.file, "exec")
    ns: Dict[str, Any] = {}
    exec(code, fi.module.__dict__, ns)  # pylint: disable=exec-used
    fn = ns[node.name]
    fi.pyfunc_materialized = fn
    return fn


# ------------------------------------------------------------------------------------------------
# class table / hierarchy numbering
# ------------------------------------------------------------------------------------------------

class ClassTable:
    """All classes defined in tealer.*, numbered so that isinstance is an interval test.

    For a class C, ids(C) = [lo, hi): lo is C's own id, (lo, hi) its proper subclasses (DFS order).
    Only the first tealer-defined base is followed (checked: no tealer class has two tealer bases).
    """

    def __init__(self) -> None:
        import_all_tealer()
        classes: List[type] = []
        seen = set()
        for mname, m in sorted(tealer_modules().items()):
            for n, c in list(vars(m).items()):
                if is_tealer_class(c) and c.__module__ == mname and c not in seen:
                    seen.add(c)
                    classes.append(c)
        self.classes = classes
        self.parent: Dict[type, Optional[type]] = {}
        for c in classes:
            tb = [b for b in c.__bases__ if is_tealer_class(b)]
            if len(tb) > 1:
                raise LoaderError(f"class {c} has several tealer bases {tb}: outside the subset")
            self.parent[c] = tb[0] if tb else None
        self.children: Dict[Optional[type], List[type]] = {}
        for c in classes:
            self.children.setdefault(self.parent[c], []).append(c)
        self.lo: Dict[type, int] = {}
        self.hi: Dict[type, int] = {}
        counter = [1]

        def dfs(c: type) -> None:
            self.lo[c] = counter[0]
            counter[0] += 1
            for d in sorted(self.children.get(c, []), key=lambda x: (x.__module__, x.__qualname__)):
                dfs(d)
            self.hi[c] = counter[0]

        for r in sorted(self.children.get(None, []), key=lambda x: (x.__module__, x.__qualname__)):
            dfs(r)
        self.by_id = {self.lo[c]: c for c in classes}
        self.by_name: Dict[str, List[type]] = {}
        for c in classes:
            self.by_name.setdefault(c.__name__, []).append(c)

    def cls(self, name: str) -> type:
        if "." in name and not name.startswith("tealer"):
            name = name.split(".")[-1]
        cs = self.by_name.get(name, [])
        if len(cs) == 1:
            return cs[0]
        if not cs:
            raise LoaderError(f"unknown class {name}")
        raise LoaderError(f"ambiguous class name {name}: {cs}")

    def subclasses(self, c: type) -> List[type]:
        return [d for d in self.classes if self.lo[c] <= self.lo[d] < self.hi[c]]

    def is_sub(self, d: type, c: type) -> bool:
        return self.lo[c] <= self.lo[d] < self.hi[c]

    def root(self, c: type) -> type:
        while self.parent[c] is not None:
            c = self.parent[c]
        return c

    def has_user_eq(self, c: type) -> bool:
        for k in c.__mro__:
            if is_tealer_class(k) and ("__eq__" in vars(k) or "__hash__" in vars(k)):
                if is_dataclass(k) or issubclass(k, Enum):
                    continue
                return True
        return False


_ct: Optional[ClassTable] = None


def class_table() -> ClassTable:
    global _ct
    if _ct is None:
        _ct = ClassTable()
    return _ct


def find_attr_definer(c: type, attr: str) -> Optional[Tuple[type, Any]]:
    """Return (class, static attribute) where attr is found along the MRO, or None."""
    for k in c.__mro__:
        if attr in vars(k):
            return k, vars(k)[attr]
    return None


def init_assigned_attrs(c: type) -> Dict[str, type]:
    """Instance attributes assigned as `self.x = ...` in __init__ methods along the MRO -> defining class."""
    out: Dict[str, type] = {}
    for k in reversed(c.__mro__):
        if is_tealer_class(k) and is_dataclass(k):
            # a dataclass: the generated __init__ assigns every field (used when an instance is modelled as a heap object)
            for f in dc_fields(k):
                out.setdefault(f.name, k)
            continue
        if not is_tealer_class(k) or "__init__" not in vars(k):
            continue
        try:
            fi = funcinfo_of(vars(k)["__init__"], k)
        except LoaderError:
            continue
        selfname = fi.argnames[0] if fi.argnames else "self"
        for n in ast.walk(fi.node):
            tgt = None
            if isinstance(n, ast.Assign):
                for t in n.targets:
                    if isinstance(t, ast.Attribute) and isinstance(t.value, ast.Name) and t.value.id == selfname:
                        tgt = t.attr
                        out.setdefault(tgt, k)
            elif isinstance(n, ast.AnnAssign):
                t = n.target
                if isinstance(t, ast.Attribute) and isinstance(t.value, ast.Name) and t.value.id == selfname:
                    out.setdefault(t.attr, k)
    return out


def overriders(c: type, attr: str) -> List[type]:
    """Proper subclasses of c (in tealer) that define attr themselves."""
    ct = class_table()
    return [d for d in ct.subclasses(c) if d is not c and attr in vars(d)]
