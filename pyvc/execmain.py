"""Executor part B: expressions, statements, calls, contracts (DESIGN.md §2.4)."""
from __future__ import annotations

import ast
import enum
import inspect
import types
from dataclasses import is_dataclass, fields as dc_fields, MISSING
from typing import Any, Callable, Dict, Iterator, List, Optional, Sequence, Tuple

import z3

from . import loader, smt
from .dsl import Ctx, use_ctx, Contract, Clause
from .execbase import ExecBase, TYPEOF, FIELD_TYPES, ON_TOUCH, VIRTUAL_PROPS, DROPPED_CALL_PREFIXES
from .loader import FuncInfo, funcinfo_of, is_tealer_class, is_tealer_function, find_attr_definer, \
    init_assigned_attrs, overriders
from .state import State, Obligation, ALLOC0
from .typing_hints import ty_from_ast, ty_of_class, dataclass_field_types
from .values import (T, Ty, V, VAbs, VBool, VClass, VDict, VEnum, VFunc, VInt, VList, VNone, VPy, VRec, VRef, VSet,
                     VStr, VTuple, VUnion, Unsupported, fresh_name, sort_of, to_term, from_term, veq, _b, _i, _s,
                     _resolve_cls)

Out = Tuple[str, Any, State]  # ('fall'|'return'|'break'|'continue'|'raise', payload, state)


class TooManyPaths(Exception):
    pass


class Exec(ExecBase):
    MAX_INLINE_STMTS = 14

    def __init__(self, fi: FuncInfo, contract: Contract, registry: Dict[str, Contract]):
        super().__init__(fi, contract, registry)
        self.npaths = 0
        self.closure_env: Dict[str, V] = {}
        self.calls_by_contract: List[str] = []
        self.inlined: List[str] = []

    # ---------------------------------------------------------------------------------------------
    # helpers
    # ---------------------------------------------------------------------------------------------
    def oblige(self, st: State, kind: str, label: str, goal: Any, tags: Sequence[str] = (), where: str = "",
               must_fail: bool = False, note: str = "") -> None:
        goal = _b(goal) if not isinstance(goal, z3.ExprRef) else goal
        if z3.is_true(z3.simplify(goal)):
            # trivially true: still counted, but discharged syntactically
            pass
        ob = Obligation(self.fi.qualname, kind, label, st.path_id(), st.pc, goal, list(tags) or list(self.contract.tags),
                        must_fail=must_fail, inputs=dict(self.inputs), st=st, where=where, note=note)
        self.obligations.append(ob)

    # ---- incremental feasibility solver following the DFS over paths ------------------------------------
    def _inc_init(self) -> None:
        self.inc = z3.Solver()
        self.inc.set("timeout", 1500)
        self.inc_lens: List[int] = [0]
        self.inc_last: List[Any] = [None]

    def _inc_sync(self, st: State) -> Optional[int]:
        """Make the incremental solver hold exactly st.pc; returns the stack depth to restore, or None if the
        state is not an extension of what the solver holds (then a fresh solver is used)."""
        if not hasattr(self, "inc"):
            self._inc_init()
        cur = self.inc_lens[-1]
        if len(st.pc) < cur or (cur > 0 and st.pc[cur - 1] is not self.inc_last[-1]):
            return None
        depth = len(self.inc_lens)
        self.inc.push()
        if len(st.pc) > cur:
            self.inc.add(*st.pc[cur:])
        self.inc_lens.append(len(st.pc))
        self.inc_last.append(st.pc[-1] if st.pc else None)
        return depth

    def _inc_restore(self, depth: int) -> None:
        while len(self.inc_lens) > depth:
            self.inc.pop()
            self.inc_lens.pop()
            self.inc_last.pop()

    def feasible_with(self, st: State, extra: Any) -> bool:
        depth = self._inc_sync(st)
        if depth is None:
            return smt.quick_feasible(st.pc + [extra])
        try:
            self.inc.push()
            self.inc.add(extra)
            r = self.inc.check()
            self.inc.pop()
            return r != z3.unsat
        finally:
            self._inc_restore(depth)

    def branch(self, cond: VBool, st: State, tag: str) -> Iterator[Tuple[bool, State]]:
        c = z3.simplify(cond.term)
        if z3.is_true(c):
            yield True, st
            return
        if z3.is_false(c):
            yield False, st
            return
        nr = getattr(cond, "narrow", None)
        depth = self._inc_sync(st)
        try:
            for val, f in ((True, c), (False, z3.Not(c))):
                st2 = st.assume(f).decide(f"{tag}={'T' if val else 'F'}")
                if depth is None:
                    ok = smt.quick_feasible(st2.pc)
                    d2 = None
                else:
                    d2 = len(self.inc_lens)
                    self.inc.push()
                    self.inc.add(f)
                    self.inc_lens.append(len(st2.pc))
                    self.inc_last.append(st2.pc[-1])
                    ok = self.inc.check() != z3.unsat
                try:
                    if ok:
                        if val and nr is not None and nr[0] in st2.env and isinstance(st2.env[nr[0]], VRef) \
                                and st2.env[nr[0]].term.eq(nr[1]):
                            st2 = st2.bind(nr[0], VRef(nr[1], nr[2], self))
                        yield val, st2
                    else:
                        self.infeasible_paths += 1
                finally:
                    if d2 is not None:
                        self._inc_restore(d2)
        finally:
            if depth is not None:
                self._inc_restore(depth)

    def narrow(self, v: V, st: State) -> V:
        """A union value of which only one alternative is feasible on this path is that alternative."""
        if not isinstance(v, VUnion):
            return v
        live = [(g, a) for g, a in v.alts if self.feasible_with(st, g)]
        if len(live) == 1:
            return live[0][1]
        return v

    def truth(self, v: V) -> VBool:
        if isinstance(v, VList):
            raise Unsupported("truth value of a list needs the state")
        return v.truthy()

    def truth_st(self, v: V, st: State) -> VBool:
        if isinstance(v, VList):
            if v.view == "seq":
                return VBool(self.list_len(v, st).term > 0)
            raise Unsupported("truth of bag list")
        if isinstance(v, VDict):
            e = z3.K(sort_of(v.key), z3.BoolVal(False))
            return VBool(self.dict_dom(v, st) != e)
        return v.truthy()

    # ---------------------------------------------------------------------------------------------
    # expressions
    # ---------------------------------------------------------------------------------------------
    def ev(self, node: ast.AST, st: State) -> Iterator[Tuple[V, State]]:
        self.cur_line = getattr(node, "lineno", getattr(self, "cur_line", 0))
        m = getattr(self, "ev_" + type(node).__name__, None)
        if m is None:
            raise Unsupported(f"expression {type(node).__name__} at {self.fi.file}:{getattr(node, 'lineno', '?')}")
        yield from m(node, st)

    def ev_list(self, nodes: Sequence[ast.AST], st: State) -> Iterator[Tuple[List[V], State]]:
        if not nodes:
            yield [], st
            return
        for v, st1 in self.ev(nodes[0], st):
            for rest, st2 in self.ev_list(nodes[1:], st1):
                yield [v] + rest, st2

    def ev_Constant(self, node: ast.Constant, st: State) -> Iterator[Tuple[V, State]]:
        yield self.lift(node.value, st)

    def lookup_name(self, name: str, st: State) -> Tuple[V, State]:
        if name in st.env:
            return st.env[name], st
        if name in self.closure_env:
            return self.closure_env[name], st
        g = st.fi.globals
        if name in g:
            return self.lift(g[name], st)
        import builtins
        if hasattr(builtins, name):
            b = getattr(builtins, name)
            if inspect.isclass(b):
                return VClass(b), st
            return VFunc("builtin", pyobj=b, name=name), st
        raise Unsupported(f"unbound name {name} in {st.fi.qualname}")

    def ev_Name(self, node: ast.Name, st: State) -> Iterator[Tuple[V, State]]:
        yield self.lookup_name(node.id, st)

    def ev_Tuple(self, node: ast.Tuple, st: State) -> Iterator[Tuple[V, State]]:
        for vs, st1 in self.ev_list(node.elts, st):
            yield VTuple(vs), st1

    def ev_List(self, node: ast.List, st: State) -> Iterator[Tuple[V, State]]:
        for vs, st1 in self.ev_list(node.elts, st):
            vs = [self.narrow(x, st1) for x in vs]
            if vs and all(isinstance(x, (VTuple, VFunc)) for x in vs):
                # a literal list of tuples / functions (a dispatch table): no heap representation; kept as an immutable sequence
                # (a mutation of it is rejected as unsupported)
                yield VTuple(vs), st1
                continue
            ety = self.elem_type_of_values(vs) if vs else T.Int
            l, st2 = self.new_list(ety, "seq", st1, vs)
            if not vs:
                l.untyped = True   # element type fixed by the first append/extend
            yield l, st2

    def ev_Dict(self, node: ast.Dict, st: State) -> Iterator[Tuple[V, State]]:
        if any(k is None for k in node.keys):
            raise Unsupported("dict unpacking")
        for ks, st1 in self.ev_list(node.keys, st):
            for vs, st2 in self.ev_list(node.values, st1):
                if not ks:
                    d, st3 = self.new_dict(T.Int, T.Int, st2)
                    d.untyped = True      # key/value types fixed by the declared type of the target or the first store
                    yield d, st3
                    continue
                kt, vt = self.elem_type_of_values(ks), self.elem_type_of_values(vs)
                d, st3 = self.new_dict(kt, vt, st2, list(zip(ks, vs)))
                yield d, st3

    def ev_Set(self, node: ast.Set, st: State) -> Iterator[Tuple[V, State]]:
        for vs, st1 in self.ev_list(node.elts, st):
            yield self.make_set([self.narrow(x, st1) for x in vs], None), st1

    def ev_JoinedStr(self, node: ast.JoinedStr, st: State) -> Iterator[Tuple[V, State]]:
        parts: List[ast.AST] = []
        for p in node.values:
            if isinstance(p, ast.Constant):
                parts.append(p)
            elif isinstance(p, ast.FormattedValue):
                parts.append(p)
        for vs, st1 in self.ev_list([p.value if isinstance(p, ast.FormattedValue) else p for p in parts], st):
            acc: Any = VStr("")
            for p, v in zip(parts, vs):
                if isinstance(p, ast.FormattedValue):
                    spec = None
                    if p.format_spec is not None:
                        spec = "".join(x.value for x in p.format_spec.values if isinstance(x, ast.Constant))
                    v = self.format_value(v, spec, st1)
                acc = acc + v
            yield acc, st1

    def format_value(self, v: V, spec: Optional[str], st: State) -> VStr:
        if isinstance(v, VStr) and not spec:
            return v
        if self.is_concrete(v):
            return VStr(format(self.concrete(v), spec or ""))
        if isinstance(v, VInt) and not spec:
            return VStr(z3.If(v.term >= 0, z3.IntToStr(v.term), z3.Concat(z3.StringVal("-"), z3.IntToStr(-v.term))))
        f = z3.Function(f"fmt<{spec}>", z3.IntSort() if isinstance(v, (VInt, VRef, VEnum)) else z3.StringSort(),
                        z3.StringSort())
        return VStr(f(self.term_of(v)))

    def ev_BoolOp(self, node: ast.BoolOp, st: State) -> Iterator[Tuple[V, State]]:
        is_and = isinstance(node.op, ast.And)

        def go(i: int, st: State) -> Iterator[Tuple[V, State]]:
            for v, st1 in self.ev(node.values[i], st):
                if i == len(node.values) - 1:
                    yield v, st1
                    continue
                t = self.truth_st(v, st1)
                for val, st2 in self.branch(t, st1, f"bo{node.lineno}.{node.col_offset}.{i}"):
                    if val == is_and:
                        yield from go(i + 1, st2)
                    else:
                        yield v, st2
        yield from go(0, st)

    def ev_UnaryOp(self, node: ast.UnaryOp, st: State) -> Iterator[Tuple[V, State]]:
        for v, st1 in self.ev(node.operand, st):
            if isinstance(node.op, ast.Not):
                yield VBool(z3.Not(self.truth_st(v, st1).term)), st1
            elif isinstance(node.op, ast.USub):
                yield VInt(-_i(self.narrow(v, st1))), st1
            else:
                raise Unsupported(f"unary {type(node.op).__name__}")

    def ev_IfExp(self, node: ast.IfExp, st: State) -> Iterator[Tuple[V, State]]:
        for c, st1 in self.ev(node.test, st):
            for val, st2 in self.branch(self.truth_st(c, st1), st1, f"ife{node.lineno}.{node.col_offset}"):
                yield from self.ev(node.body if val else node.orelse, st2)

    def ev_Compare(self, node: ast.Compare, st: State) -> Iterator[Tuple[V, State]]:
        if len(node.ops) != 1:
            # a < b < c  ==  a < b and b < c  (b evaluated once)
            for vs, st1 in self.ev_list([node.left] + list(node.comparators), st):
                acc = z3.BoolVal(True)
                for i, op in enumerate(node.ops):
                    acc = z3.And(acc, self.compare(op, vs[i], vs[i + 1], st1).term)
                yield VBool(acc), st1
            return
        for a, st1 in self.ev(node.left, st):
            for b, st2 in self.ev(node.comparators[0], st1):
                yield self.compare(node.ops[0], a, b, st2), st2

    def compare(self, op: ast.cmpop, a: V, b: V, st: State) -> VBool:
        if not isinstance(op, (ast.Eq, ast.NotEq, ast.Is, ast.IsNot)):
            a, b = self.narrow(a, st), self.narrow(b, st)
        if isinstance(op, ast.Eq):
            return self.py_eq(a, b, st)
        if isinstance(op, ast.NotEq):
            return VBool(z3.Not(self.py_eq(a, b, st).term))
        if isinstance(op, ast.Is):
            return self.py_is(a, b)
        if isinstance(op, ast.IsNot):
            return VBool(z3.Not(self.py_is(a, b).term))
        if isinstance(op, ast.In):
            return self.contains(b, a, st)
        if isinstance(op, ast.NotIn):
            return VBool(z3.Not(self.contains(b, a, st).term))
        if isinstance(a, VUnion) or isinstance(b, VUnion):
            raise Unsupported("ordering comparison on a union value")
        x, y = _i(a), _i(b)
        if isinstance(op, ast.Lt):
            return VBool(x < y)
        if isinstance(op, ast.LtE):
            return VBool(x <= y)
        if isinstance(op, ast.Gt):
            return VBool(x > y)
        if isinstance(op, ast.GtE):
            return VBool(x >= y)
        raise Unsupported(f"comparison {type(op).__name__}")

    def py_eq(self, a: V, b: V, st: State) -> VBool:
        if isinstance(a, VRef) and isinstance(b, VRef):
            if self.ct.has_user_eq(a.cls) or self.ct.has_user_eq(b.cls):
                raise Unsupported(f"== on class with user-defined __eq__: {a.cls.__name__}")
        if isinstance(a, VEnum) and isinstance(b, VEnum) and a.cls is not b.cls:
            raise Unsupported(f"comparison mixes enum classes {a.cls.__name__} and {b.cls.__name__}")
        if isinstance(a, VList) or isinstance(b, VList):
            raise Unsupported("== on lists")
        return veq(a, b)

    def py_is(self, a: V, b: V) -> VBool:
        if isinstance(b, VNone):
            if isinstance(a, VUnion):
                return a.is_none()
            return VBool(isinstance(a, VNone))
        if isinstance(a, VNone):
            return self.py_is(b, a)
        if isinstance(a, VRef) and isinstance(b, VRef):
            return VBool(a.term == b.term)
        if isinstance(a, VBool) and isinstance(b, VBool):
            return VBool(a.term == b.term)
        if isinstance(a, VClass) and isinstance(b, VClass):
            # class identity: exact class ids (own id of a concrete tealer class = lo of its interval)
            def cid(c: VClass) -> Any:
                if c.pycls is None:
                    return c.term
                if c.pycls not in self.ct.lo:
                    raise Unsupported(f"`is` on the foreign class {c.pycls!r}")
                return z3.IntVal(self.ct.lo[c.pycls])
            return VBool(cid(a) == cid(b))
        raise Unsupported(f"`is` between {a!r} and {b!r}")

    def ev_BinOp(self, node: ast.BinOp, st: State) -> Iterator[Tuple[V, State]]:
        for a, st1 in self.ev(node.left, st):
            for b, st2 in self.ev(node.right, st1):
                yield from self.binop(node.op, a, b, st2, node)

    def binop(self, op: ast.operator, a: V, b: V, st: State, node: ast.AST) -> Iterator[Tuple[V, State]]:
        a, b = self.narrow(a, st), self.narrow(b, st)
        if isinstance(a, VSet) and isinstance(b, VSet):
            if isinstance(op, ast.BitOr):
                yield a | b, st
            elif isinstance(op, ast.BitAnd):
                yield a & b, st
            elif isinstance(op, ast.Sub):
                yield a - b, st
            else:
                raise Unsupported("set operator")
            return
        if isinstance(a, VStr) or isinstance(b, VStr):
            if isinstance(op, ast.Add):
                yield VStr(z3.Concat(_s(a), _s(b))), st
                return
            raise Unsupported("string operator")
        if isinstance(a, VList) and isinstance(b, VList) and isinstance(op, ast.Add):
            yield from self.list_concat(a, b, st)
            return
        if isinstance(a, (VInt, VBool)) and isinstance(b, (VInt, VBool)):
            x, y = _i(a), _i(b)
            if isinstance(op, ast.Add):
                yield VInt(x + y), st
            elif isinstance(op, ast.Sub):
                yield VInt(x - y), st
            elif isinstance(op, ast.Mult):
                yield VInt(x * y), st
            elif isinstance(op, ast.LShift):
                yc = self._concrete_int(y, st)
                if yc is None:
                    raise Unsupported("<< by symbolic amount")
                yield VInt(x * (1 << yc)), st
            elif isinstance(op, ast.FloorDiv):
                self.oblige(st, "safe", f"div@{node.lineno}", y != 0, where=f"{self.fi.file}:{node.lineno}")
                yield VInt(x / y), st.assume(y > 0)  # z3 div = floor for positive divisor
            else:
                raise Unsupported(f"int operator {type(op).__name__}")
            return
        raise Unsupported(f"binary {type(op).__name__} on {a!r}, {b!r}")

    def list_concat(self, a: VList, b: VList, st: State) -> Iterator[Tuple[V, State]]:
        if a.view != "seq" or b.view != "seq":
            raise Unsupported("concat of bag lists")
        la, lb = self.list_len(a, st).term, self.list_len(b, st).term
        ref, st = self.alloc(st)
        key, el = self._elem_arr(st, a.elem)
        A, B = z3.Select(el, a.ref), z3.Select(el, b.ref)
        R = z3.Const(fresh_name("cat"), A.sort())
        i = z3.Int(fresh_name("ci"))
        # pattern-annotated definition of the concatenation (triggers on reads of R, of A and of B)
        def fa(body: Any, pat: Any) -> Any:
            try:
                return z3.ForAll([i], body, patterns=[pat])
            except z3.Z3Exception:      # reads of stored / lambda arrays are not valid patterns
                return z3.ForAll([i], body)
        st = st.assume(fa(z3.Implies(z3.And(i >= 0, i < la), z3.Select(R, i) == z3.Select(A, i)), z3.Select(R, i)),
                       fa(z3.Implies(z3.And(i >= 0, i < la), z3.Select(R, i) == z3.Select(A, i)), z3.Select(A, i)),
                       fa(z3.Implies(z3.And(i >= 0, i < lb), z3.Select(R, i + la) == z3.Select(B, i)), z3.Select(B, i)),
                       fa(z3.Implies(z3.And(i >= la, i < la + lb), z3.Select(R, i) == z3.Select(B, i - la)), z3.Select(R, i)),
                       la >= 0, lb >= 0)
        st = st.hset("L.len", z3.Store(self._len_arr(st), ref, la + lb))
        st = st.hset(key, z3.Store(el, ref, R))
        ka, kb = self.known_len(a, st) if a.ref.get_id() in st.lens else None, self.known_len(b, st) if b.ref.get_id() in st.lens else None
        if ka is not None and kb is not None:
            st.lens = {**st.lens, ref.get_id(): ka + kb}
        yield VList(a.elem, "seq", ref), st

    def ev_Subscript(self, node: ast.Subscript, st: State) -> Iterator[Tuple[V, State]]:
        for base, st1 in self.ev(node.value, st):
            if isinstance(node.slice, ast.Slice):
                yield from self.slice_v(base, node.slice, st1, node)
                continue
            for idx, st2 in self.ev(node.slice, st1):
                yield from self.subscript(base, idx, st2, node)

    def subscript(self, base: V, idx: V, st: State, node: ast.AST) -> Iterator[Tuple[V, State]]:
        where = f"{self.fi.file}:{getattr(node, 'lineno', '?')}"
        if isinstance(base, VUnion):
            base = self.narrow(base, st)
        if isinstance(base, VUnion):
            for g, alt in base.alts:
                if not self.feasible_with(st, g):
                    continue
                st_g = st.assume(g)
                if isinstance(alt, VNone):
                    self.oblige(st_g, "safe", f"subscript-of-None@{node.lineno}", z3.BoolVal(False), where=where, tags=["C17"])
                    continue
                yield from self.subscript(alt, idx, st_g, node)
            return
        if isinstance(idx, VUnion):
            idx = self.narrow(idx, st)
        if isinstance(base, VTuple):
            i = self.concrete(idx)
            yield base.items[i], st
            return
        if isinstance(base, VList):
            n = self.list_len(base, st).term
            i = _i(idx)
            ic = z3.simplify(i)
            if z3.is_int_value(ic) and ic.as_long() < 0:
                self.oblige(st, "safe", f"index@{node.lineno}", n >= -ic.as_long(), where=where, tags=["C17"])
                st = st.assume(n >= -ic.as_long())
                yield self.list_get(base, n + ic.as_long(), st), st
                return
            self.oblige(st, "safe", f"index@{node.lineno}", z3.And(i >= 0, i < n), where=where, tags=["C17"])
            st = st.assume(i >= 0, i < n)
            v = self.list_get(base, i, st)
            if isinstance(v, (VRef, VEnum, VUnion)):
                st = st.assume(self.type_constraint(v))
            yield v, st
            return
        if isinstance(base, VPy) and isinstance(base.obj, dict) and not self.is_concrete(idx):
            base, st = self.dict_to_vdict(base.obj, st)
        if isinstance(base, VPy) and isinstance(base.obj, dict):
            key = self.concrete(idx)
            if key not in base.obj:
                self.oblige(st, "safe", f"key@{node.lineno}", z3.BoolVal(False), where=where, tags=["C17"])
                return
            yield self.lift(base.obj[key], st)
            return
        if isinstance(base, VDict):
            idx = self.narrow(idx, st)
            kt = to_term(idx, base.key)
            present = z3.Select(self.dict_dom(base, st), kt)
            if base.default:
                # defaultdict(dict): a missing key is created with a fresh empty dict
                for val, st_b in self.branch(VBool(present), st, f"dd{node.lineno}"):
                    if val:
                        yield self.dict_read(base, idx, st_b)
                    else:
                        vt = base.val
                        inner, st_c = self.new_dict(vt.key, vt.val, st_b, default=getattr(vt, "default", False))
                        st_c = self.dict_write(base, idx, inner, st_c)
                        yield inner, st_c
                return
            self.oblige(st, "safe", f"key@{node.lineno}", present, where=where, tags=["C17"])
            st = st.assume(present)
            yield self.dict_read(base, idx, st)
            return
        raise Unsupported(f"subscript on {base!r} at {where}")

    def dict_to_vdict(self, d: dict, st: State) -> Tuple[VDict, State]:
        """A module-level dict read with a symbolic key: a dict object at a constant (negative) address whose contents at
        function entry are the import-time contents (keys/values must be homogeneous constants)."""
        from .execbase import CLS_LO, CLS_HI
        from .state import State as _S
        oid = id(d)
        ks, vs = [], []
        for k, v in d.items():
            kv, st = self.lift(k, st)
            vv, st = self.lift(v, st)
            ks.append(kv)
            vs.append(vv)
        kt = self.elem_type_of_values(ks)
        if all(isinstance(v, VClass) and v.pycls is not None for v in vs):
            vt: Ty = T.Cls(self.ct.root(vs[0].pycls))
            st = st.assume(*[z3.And(CLS_LO(z3.IntVal(self.ct.lo[v.pycls])) == self.ct.lo[v.pycls],
                                    CLS_HI(z3.IntVal(self.ct.lo[v.pycls])) == self.ct.hi[v.pycls]) for v in vs])
        else:
            vt = self.elem_type_of_values(vs)
        if oid not in self._const_refs:
            self._const_refs[oid] = -(1000 + len(self._const_refs))
            self._const_objs[oid] = d
        ref = z3.IntVal(self._const_refs[oid])
        dv = VDict(kt, vt, ref)
        if oid not in st.lifted:
            st = st.copy()
            st.lifted = st.lifted + (oid,)
            dom0 = z3.Select(_S().harr(f"D.dom:{sort_of(kt)}", z3.IntSort(), z3.ArraySort(sort_of(kt), z3.BoolSort())), ref)
            map0 = z3.Select(_S().harr(f"D.map:{sort_of(kt)}->{sort_of(vt)}", z3.IntSort(), z3.ArraySort(sort_of(kt), sort_of(vt))), ref)
            want = z3.K(sort_of(kt), z3.BoolVal(False))
            for k in ks:
                want = z3.Store(want, to_term(k, kt), z3.BoolVal(True))
            st.pc.append(dom0 == want)
            for k, v in zip(ks, vs):
                st.pc.append(z3.Select(map0, to_term(k, kt)) == to_term(v, vt))
        return dv, st

    def slice_v(self, base: V, sl: ast.Slice, st: State, node: ast.AST) -> Iterator[Tuple[V, State]]:
        if isinstance(base, VTuple):
            lo = self.concrete(next(self.ev(sl.lower, st))[0]) if sl.lower else None
            hi = self.concrete(next(self.ev(sl.upper, st))[0]) if sl.upper else None
            yield VTuple(base.items[lo:hi]), st
            return
        if isinstance(base, VList) and base.view == "seq" and sl.step is None:
            n = self.list_len(base, st).term
            lo: Any = z3.IntVal(0)
            hi: Any = n
            def bound(e: ast.AST) -> Any:
                outs = list(self.ev(e, st))
                if len(outs) != 1:
                    raise Unsupported("slice bound forks")
                bv = self.narrow(outs[0][0], st)
                if self.is_concrete(bv):
                    v_ = self.concrete(bv)
                    return z3.If(n < v_, n, z3.IntVal(v_)) if v_ >= 0 else z3.If(n + v_ < 0, z3.IntVal(0), n + v_)
                b = _i(bv)      # Python's rule: a negative bound counts from the end; both are clipped to [0, n]
                return z3.If(b < 0, z3.If(n + b < 0, z3.IntVal(0), n + b), z3.If(n < b, n, b))
            if sl.lower is not None:
                lo = bound(sl.lower)
            if sl.upper is not None:
                hi = bound(sl.upper)
            ref, st = self.alloc(st)
            key, el = self._elem_arr(st, base.elem)
            i = z3.Int(fresh_name("si"))
            inner = z3.Lambda([i], z3.Select(z3.Select(el, base.ref), i + lo))
            newlen = z3.If(hi - lo > 0, hi - lo, z3.IntVal(0))
            st = st.hset("L.len", z3.Store(self._len_arr(st), ref, newlen))
            st = st.hset(key, z3.Store(el, ref, inner))
            yield VList(base.elem, "seq", ref), st
            return
        if isinstance(base, VStr) and sl.step is None:
            n = z3.Length(base.term)

            def sbound(e: ast.AST) -> Any:
                outs = list(self.ev(e, st))
                if len(outs) != 1:
                    raise Unsupported("slice bound forks")
                b = _i(self.narrow(outs[0][0], st))     # Python's rule: a negative bound counts from the end; both are clipped to [0, n]
                return z3.If(b < 0, z3.If(n + b < 0, z3.IntVal(0), n + b), z3.If(n < b, n, b))
            if sl.upper is None and sl.lower is not None and z3.is_app_of(base.term, z3.Z3_OP_SEQ_CONCAT):
                # ("abc" ++ x)[k:] with a literal k <= 3: the literal's tail followed by x (same string, a term the solvers handle at once)
                outs = list(self.ev(sl.lower, st))
                kids = base.term.children()
                if len(outs) == 1 and self.is_concrete(outs[0][0]) and z3.is_string_value(kids[0]):
                    k_, lit = self.concrete(outs[0][0]), kids[0].as_string()
                    if isinstance(k_, int) and 0 <= k_ <= len(lit) and "\\" not in lit:
                        rest_ = kids[1] if len(kids) == 2 else z3.Concat(*kids[1:])
                        yield VStr(rest_ if k_ == len(lit) else z3.Concat(z3.StringVal(lit[k_:]), rest_)), st
                        return
            slo = sbound(sl.lower) if sl.lower is not None else z3.IntVal(0)
            shi = sbound(sl.upper) if sl.upper is not None else n
            yield VStr(z3.SubString(base.term, slo, z3.If(shi - slo > 0, shi - slo, z3.IntVal(0)))), st
            return
        raise Unsupported(f"slice of {base!r}")

    def ev_Attribute(self, node: ast.Attribute, st: State) -> Iterator[Tuple[V, State]]:
        for base, st1 in self.ev(node.value, st):
            yield from self.getattr_v(base, node.attr, st1)

    def getattr_v(self, obj: V, name: str, st: State) -> Iterator[Tuple[V, State]]:
        if isinstance(obj, VUnion):
            live = [(g, v) for g, v in obj.alts]
            for g, v in live:
                st2 = st.assume(g).decide(f"u.{name}.{type(v).__name__}")
                if not self.feasible_with(st, g):
                    continue
                if isinstance(v, VNone):
                    self.oblige(st2, "safe", f"none.{name}", z3.BoolVal(False), tags=["C17"])
                    continue
                yield from self.getattr_v(v, name, st2)
            return
        if isinstance(obj, VRec):
            if name in obj.fields:
                yield obj.fields[name], st
                return
            raise Unsupported(f"record attribute {name}")
        if isinstance(obj, VEnum):
            if name == "value":
                yield VInt(obj.term), st
                return
            raise Unsupported(f"enum attribute {name}")
        if isinstance(obj, VPy):
            yield self.lift(getattr(obj.obj, name), st)
            return
        if isinstance(obj, VClass):
            if obj.pycls is None:
                raise Unsupported("attribute of a symbolic class")
            found = find_attr_definer(obj.pycls, name)
            if found is None:
                raise Unsupported(f"class attribute {obj.pycls.__name__}.{name}")
            k, raw = found
            if isinstance(raw, (staticmethod, classmethod)) or inspect.isfunction(raw):
                yield self.lift_callable(raw, None, k), st
            else:
                yield self.lift(getattr(obj.pycls, name), st)
            return
        if isinstance(obj, (VList, VSet, VStr, VDict, VTuple)):
            yield VFunc("method", self_val=obj, name=name), st
            return
        if isinstance(obj, VRef):
            yield from self.getattr_ref(obj, name, st)
            return
        raise Unsupported(f"attribute {name} of {obj!r}")

    def getattr_ref(self, obj: VRef, name: str, st: State) -> Iterator[Tuple[V, State]]:
        st = self.touch(obj, st)
        found = find_attr_definer(obj.cls, name)
        if found is not None:
            k, raw = found
            if isinstance(raw, property):
                ovs = overriders(obj.cls, name)
                root = self._topmost_definer(obj.cls, name)
                vkey = (root.__name__, name)
                if vkey in VIRTUAL_PROPS:
                    ty = VIRTUAL_PROPS[vkey]
                    v, st2 = self._read_typed(f"V:{root.__name__}.{name}", obj.term, ty, st)
                    yield v, st2
                    return
                if ovs:
                    raise Unsupported(f"virtual property {obj.cls.__name__}.{name} (overridden in {len(ovs)} subclasses) "
                                      f"has no abstraction")
                fi = funcinfo_of(raw.fget, k)
                pc_ = self.registry.get(fi.qualname)
                if pc_ is not None and fi.qualname != self.fi.qualname:
                    # a property getter under contract: the caller sees the contract only
                    yield from self.apply_contract(pc_, fi, [obj], {}, st, ast.Pass(lineno=getattr(self, "cur_line", 0)))
                    return
                yield from self.inline(fi, [obj], {}, st)
                return
            if inspect.isfunction(raw):
                if overriders(obj.cls, name):
                    yield VFunc("virtual", fi=funcinfo_of(raw, k), self_val=obj, name=name), st
                else:
                    yield VFunc("repo", fi=funcinfo_of(raw, k), self_val=obj, pyobj=raw), st
                return
            if isinstance(raw, staticmethod):
                yield VFunc("repo", fi=funcinfo_of(raw.__func__, k), self_val=None, pyobj=raw.__func__), st
                return
            # a class-level default that __init__ (conditionally) shadows with an instance attribute: one heap field
            # models both (its value is unconstrained, which covers the default too)
            attrs0 = init_assigned_attrs(obj.cls)
            if name in attrs0 and is_tealer_class(k):
                v, st2 = self.read_field(obj, attrs0[name], name, st)
                yield v, st2
                return
            # class-level constant
            if not is_tealer_class(k):
                raise Unsupported(f"attribute {name} from non-repo class {k}")
            if overriders(obj.cls, name):
                raise Unsupported(f"class attribute {obj.cls.__name__}.{name} overridden in subclasses")
            yield self.lift(raw, st)
            return
        attrs = init_assigned_attrs(obj.cls)
        if name in attrs:
            v, st2 = self.read_field(obj, attrs[name], name, st)
            yield v, st2
            return
        # attribute assigned only in some subclass: find a unique definer below
        cands = {}
        for d in self.ct.subclasses(obj.cls):
            a = init_assigned_attrs(d)
            if name in a:
                cands[a[name]] = True
        if len(cands) == 1:
            definer = list(cands)[0]
            self.oblige(st, "safe", f"attr.{name}", self.isinstance_v(obj, [definer]).term, tags=["C17"])
            st = st.assume(self.isinstance_v(obj, [definer]).term)
            v, st2 = self.read_field(VRef(obj.term, definer, self), definer, name, st)
            yield v, st2
            return
        # attribute defined (as property / method / field) in several subclasses: dispatch on the dynamic class
        definers = []
        for d in self.ct.subclasses(obj.cls):
            if d is obj.cls:
                continue
            if name in vars(d) or name in {a for a, k in init_assigned_attrs(d).items() if k is d}:
                if not any(self.ct.is_sub(d, e) and e is not d for e in definers):
                    definers = [e for e in definers if not self.ct.is_sub(e, d)] + [d]
        if definers:
            rest = []
            for d in definers:
                g = self.isinstance_v(obj, [d]).term
                rest.append(g)
                if not self.feasible_with(st, g):
                    continue
                st_d = st.assume(g).decide(f"dyn.{name}.{d.__name__}")
                yield from self.getattr_ref(VRef(obj.term, d, self), name, st_d)
            none = z3.Not(z3.Or(rest))
            if self.feasible_with(st, none):
                self.oblige(st.assume(none), "safe", f"attr.{name}", z3.BoolVal(False), tags=["C17"])
            return
        raise Unsupported(f"unknown attribute {obj.cls.__name__}.{name}")

    def _topmost_definer(self, c: type, name: str) -> type:
        top = c
        for k in c.__mro__:
            if name in vars(k) and is_tealer_class(k):
                top = k
        return top

    # comprehensions ------------------------------------------------------------------------------
    def _fresh_object_comprehension(self, node: Any, gen: Any, st: State, kind: str) -> Optional[List[Tuple[V, State]]]:
        """`[C() for _ in range(m)]` with a symbolic m, C a repository class without __init__ and without arguments: a new
        list of max(m, 0) pairwise different fresh objects of class C"""
        if kind != "list" or gen.ifs or not (isinstance(gen.iter, ast.Call) and isinstance(gen.iter.func, ast.Name)
                                            and gen.iter.func.id == "range" and len(gen.iter.args) == 1 and not gen.iter.keywords):
            return None
        if not (isinstance(node.elt, ast.Call) and isinstance(node.elt.func, ast.Name) and not node.elt.args and not node.elt.keywords
                and isinstance(gen.target, ast.Name)):
            return None
        cls = self.resolve_name(node.elt.func.id, st) if hasattr(self, "resolve_name") else st.fi.globals.get(node.elt.func.id)
        if not (is_tealer_class(cls) and all("__init__" not in vars(k) for k in cls.__mro__ if is_tealer_class(k))):
            return None
        outs = list(self.ev(gen.iter.args[0], st))
        if len(outs) != 1:
            return None
        mval, st1 = outs[0]
        mval = self.narrow(mval, st1)
        if self.is_concrete(mval):
            return None                     # a concrete range is unrolled by the general rule
        m = _i(mval)
        n = z3.If(m > 0, m, z3.IntVal(0))
        lref, st1 = self.alloc(st1)
        base = st1.alloc_ptr()
        st1 = st1.copy()
        st1.abase = base + n                # the n fresh objects occupy [base, base + n)
        st1.nalloc = 0
        j = z3.Int(fresh_name("fj"))
        lo = self.ct.lo[cls]
        st1 = st1.assume(z3.ForAll([j], z3.Implies(z3.And(j >= 0, j < n), TYPEOF(base + j) == lo), patterns=[TYPEOF(base + j)]))
        ety = T.Ref(cls)
        key, el = self._elem_arr(st1, ety)
        st1 = st1.hset("L.len", z3.Store(self._len_arr(st1), lref, n))
        st1 = st1.hset(key, z3.Store(el, lref, z3.Lambda([j], base + j)))
        return [(VList(ety, "seq", lref), st1)]

    def ev_ListComp(self, node: ast.ListComp, st: State) -> Iterator[Tuple[V, State]]:
        yield from self.comprehension(node, st, "list")

    def ev_SetComp(self, node: ast.SetComp, st: State) -> Iterator[Tuple[V, State]]:
        yield from self.comprehension(node, st, "set")

    def ev_GeneratorExp(self, node: ast.GeneratorExp, st: State) -> Iterator[Tuple[V, State]]:
        yield from self.comprehension(node, st, "gen")

    def comprehension(self, node: Any, st: State, kind: str) -> Iterator[Tuple[V, State]]:
        if len(node.generators) != 1:
            raise Unsupported("nested comprehension")
        gen = node.generators[0]
        fresh = self._fresh_object_comprehension(node, gen, st, kind)
        if fresh is not None:
            yield from fresh
            return
        for it, st1 in self.ev(gen.iter, st):
            items = self.concrete_items(it, st1)
            if items is not None:
                # finite, known length: unroll
                def go(i: int, acc: List[V], st: State) -> Iterator[Tuple[List[V], State]]:
                    if i == len(items):
                        yield acc, st
                        return
                    st_b = self.assign_target(gen.target, items[i], st)
                    conds = gen.ifs
                    def check(j: int, st: State) -> Iterator[Tuple[bool, State]]:
                        if j == len(conds):
                            yield True, st
                            return
                        for c, st2 in self.ev(conds[j], st):
                            for val, st3 in self.branch(self.truth_st(c, st2), st2, f"cf{node.lineno}.{i}.{j}"):
                                if val:
                                    yield from check(j + 1, st3)
                                else:
                                    yield False, st3
                    for ok, st2 in check(0, st_b):
                        if ok:
                            for v, st3 in self.ev(node.elt, st2):
                                yield from go(i + 1, acc + [v], st3)
                        else:
                            yield from go(i + 1, acc, st2)
                for vs, st2 in go(0, [], st1):
                    if kind == "set":
                        yield self.make_set(vs, None if vs else T.Int), st2
                    else:
                        ety = self.elem_type_of_values(vs) if vs else T.Int
                        l, st3 = self.new_list(ety, "seq", st2, vs)
                        yield l, st3
                continue
            # symbolic seq iterable under a contract that asks for it: [x for x in L if p(x)] as a list object R with
            #   every R[k] is some L[j] with p(L[j]);  every L[j] with p(L[j]) is some R[k]      (order and multiplicity left open)
            # p may call functions under contract: the fresh symbols of that evaluation are closed existentially
            if isinstance(it, VList) and it.view == "seq" and getattr(self.contract, "seq_filter", False) and kind == "list" \
                    and isinstance(node.elt, ast.Name) and isinstance(gen.target, ast.Name) and node.elt.id == gen.target.id:
                x = self.fresh(it.elem, "cx", None, constrain=False)
                st_x = st1.bind(gen.target.id, x).assume(self.type_constraint(x))
                base_n = len(st_x.pc)
                pred = z3.BoolVal(True)
                st_c = st_x
                forked = False
                for c in gen.ifs:
                    outs = list(self.ev(c, st_c))
                    if len(outs) != 1:
                        # a short-circuit condition (`isinstance(x, C) and x.f == v`) forks: the predicate is the disjunction over
                        # its evaluation paths of (what the path decided and assumed) /\ (its truth value); nothing is then
                        # assumed separately about the elements
                        if len(gen.ifs) != 1 or not outs:
                            raise Unsupported("comprehension condition forks")
                        n0 = len(st_c.pc)
                        pred = z3.Or([z3.And(list(o_st.pc[n0:]) + [self.truth_st(o_v, o_st).term]) for o_v, o_st in outs])
                        forked = True
                        break
                    pred = z3.And(pred, self.truth_st(outs[0][0], outs[0][1]).term)
                    st_c = outs[0][1]
                facts = [] if forked else list(st_c.pc[base_n:])
                xt = self.term_of(x)
                body = z3.And(facts + [pred]) if facts else pred
                before = _fresh_consts(z3.And(st_x.pc)) if st_x.pc else {}
                new_syms = [v for i_, v in _fresh_consts(body).items() if i_ not in before and not v.eq(xt)]

                def P(y: Any) -> Any:
                    b = z3.substitute(body, (xt, y))
                    return z3.Exists(new_syms, b) if new_syms else b

                def facts_of(y: Any) -> Any:
                    """what evaluating the condition assumes / learns about an element (typing, class invariants, the
                    contracts of the functions it calls): holds for every element of L just as it does for x"""
                    if not facts:
                        return z3.BoolVal(True)
                    b = z3.substitute(z3.And(facts), (xt, y))
                    return z3.Exists(new_syms, b) if new_syms else b
                ref, st2 = self.alloc(st1)
                ln = self.list_len(it, st2).term
                rn = z3.Int(fresh_name("fl"))
                key, el = self._elem_arr(st2, it.elem)
                R = z3.Const(fresh_name("flt"), z3.Select(el, it.ref).sort())
                L = z3.Select(el, it.ref)
                k_, j_ = z3.Int(fresh_name("fk")), z3.Int(fresh_name("fj"))
                st2 = st2.assume(rn >= 0, rn <= ln,
                                 z3.ForAll([j_], z3.Implies(z3.And(j_ >= 0, j_ < ln), facts_of(z3.Select(L, j_)))),
                                 z3.ForAll([k_], z3.Implies(z3.And(k_ >= 0, k_ < rn), z3.And(
                                     P(z3.Select(R, k_)), z3.Exists([j_], z3.And(j_ >= 0, j_ < ln, z3.Select(L, j_) == z3.Select(R, k_)))))),
                                 z3.ForAll([j_], z3.Implies(z3.And(j_ >= 0, j_ < ln, P(z3.Select(L, j_))),
                                                            z3.Exists([k_], z3.And(k_ >= 0, k_ < rn, z3.Select(R, k_) == z3.Select(L, j_))))))
                st2 = st2.hset("L.len", z3.Store(self._len_arr(st2), ref, rn))
                st2 = st2.hset(key, z3.Store(el, ref, R))
                yield VList(it.elem, "seq", ref), st2
                continue
            # symbolic iterable: filter comprehension [x for x in L if p(x)] in bag view
            if isinstance(it, VList) and isinstance(node.elt, ast.Name) and isinstance(gen.target, ast.Name) \
                    and node.elt.id == gen.target.id and kind in ("list", "set"):
                bag = self.list_bag(it, st1)
                x = self.fresh(it.elem, "cx", None, constrain=False)
                st_x = st1.bind(gen.target.id, x)
                pred = z3.BoolVal(True)
                for c in gen.ifs:
                    outs = list(self.ev(c, st_x))
                    if len(outs) != 1:
                        raise Unsupported("comprehension condition forks")
                    pred = z3.And(pred, self.truth_st(outs[0][0], outs[0][1]).term)
                xt = self.term_of(x)
                newbag = z3.Lambda([xt], z3.If(pred, z3.Select(bag, xt), z3.IntVal(0)))
                if kind == "set":
                    yield VSet(it.elem, z3.Lambda([xt], z3.And(pred, z3.Select(bag, xt) > 0))), st1
                else:
                    ref, st2 = self.alloc(st1)
                    key, bg = self._bag_arr(st2, it.elem)
                    st2 = st2.hset(key, z3.Store(bg, ref, newbag))
                    yield VList(it.elem, "bag", ref), st2
                continue
            raise Unsupported(f"comprehension over {it!r} at {self.fi.file}:{node.lineno}")

    def concrete_items(self, it: V, st: State) -> Optional[List[V]]:
        if isinstance(it, VTuple):
            return list(it.items)
        if isinstance(it, VPy) and isinstance(it.obj, range):
            return [VInt(i) for i in it.obj]
        if isinstance(it, VList) and it.view == "seq":
            n = self.known_len(it, st)
            if n is not None and n <= 64:
                return [self.list_get(it, i, st) for i in range(n)]
        return None

    def ev_Lambda(self, node: ast.Lambda, st: State) -> Iterator[Tuple[V, State]]:
        fi = FuncInfo(self.fi.qualname + f"::<lambda@{node.lineno}>", None, node, self.fi.module, None, self.fi.file,
                      node.lineno, outer=self.fi)
        yield VFunc("closure", fi=fi, env=dict(st.env)), st

    # ---------------------------------------------------------------------------------------------
    # calls
    # ---------------------------------------------------------------------------------------------
    def ev_Call(self, node: ast.Call, st: State) -> Iterator[Tuple[V, State]]:
        # drop logger calls
        f = node.func
        root = f
        while isinstance(root, ast.Attribute):
            root = root.value
        if isinstance(root, ast.Name) and root.id.startswith(DROPPED_CALL_PREFIXES) and root.id not in st.env:
            yield VNone(), st
            return
        if isinstance(f, ast.Name) and f.id == "print" and "print" not in st.env:
            yield VNone(), st      # output only (DESIGN §2.1): arguments are not evaluated
            return
        if any(isinstance(a, ast.Starred) for a in node.args) or any(k.arg is None for k in node.keywords):
            raise Unsupported("*args/**kwargs call")
        # lazy builtins that take generator expressions
        for fv, st1 in self.ev(node.func, st):
            for args, st2 in self.ev_list(node.args, st1):
                for kwvals, st3 in self.ev_list([k.value for k in node.keywords], st2):
                    kwargs = {k.arg: v for k, v in zip(node.keywords, kwvals)}
                    if isinstance(fv, VFunc) and fv.pyobj is isinstance and isinstance(node.args[0], ast.Name) \
                            and isinstance(args[0], VRef) and isinstance(args[1], VClass) and args[1].pycls is not None \
                            and args[1].pycls in self.ct.lo and self.ct.is_sub(args[1].pycls, args[0].cls):
                        for r, st4 in self.call(fv, args, kwargs, st3, node):
                            r.narrow = (node.args[0].id, args[0].term, args[1].pycls)  # static narrowing on the true branch
                            yield r, st4
                        continue
                    yield from self.call(fv, args, kwargs, st3, node)

    def call(self, fv: V, args: List[V], kwargs: Dict[str, V], st: State, node: ast.AST) -> Iterator[Tuple[V, State]]:
        if isinstance(fv, VClass):
            yield from self.construct(fv, args, kwargs, st, node)
            return
        if not isinstance(fv, VFunc):
            raise Unsupported(f"call of {fv!r}")
        if fv.kind == "builtin":
            from .builtins_ import call_builtin
            yield from call_builtin(self, fv, args, kwargs, st, node)
            return
        if fv.kind == "method":
            from .builtins_ import call_method
            yield from call_method(self, fv.self_val, fv.name, args, kwargs, st, node)
            return
        if fv.kind == "spec":
            with use_ctx(Ctx(self, st)) as ctx:
                r = fv.pyobj(*args, **kwargs)
            r, st = self.lift(r, st)
            yield r, st
            return
        if fv.kind == "sym":
            yield from fv.sym(self, args, kwargs, st)
            return
        if fv.kind == "closure":
            yield from self.inline(fv.fi, args, kwargs, st, closure_env=fv.env)
            return
        if fv.kind in ("repo", "virtual"):
            fi = fv.fi
            full_args = ([fv.self_val] if fv.self_val is not None else []) + list(args)
            c = self.registry.get(fi.qualname)
            if c is None and fv.kind == "virtual":
                raise Unsupported(f"virtual method {fi.qualname} has no contract")
            if c is not None and not (fi.qualname == self.fi.qualname and False):
                yield from self.apply_contract(c, fi, full_args, kwargs, st, node)
                return
            yield from self.inline(fi, full_args, kwargs, st)
            return
        raise Unsupported(f"call kind {fv.kind}")

    def construct(self, cv: VClass, args: List[V], kwargs: Dict[str, V], st: State, node: ast.AST) -> Iterator[Tuple[V, State]]:
        if cv.pycls is None:
            raise Unsupported("instantiation of a symbolic class")
        cls = cv.pycls
        if cls is type and len(args) == 1 and not kwargs:
            # type(x) of an object: its dynamic class (the exact class id, not an interval)
            (x,) = args
            x = self.narrow(x, st)
            if not isinstance(x, VRef):
                raise Unsupported(f"type() of {x!r}")
            yield VClass(term=TYPEOF(x.term), base=x.cls), st
            return
        if cls in (set, frozenset, list, tuple, int, str, bool, dict, range):
            from .builtins_ import call_builtin
            yield from call_builtin(self, VFunc("builtin", pyobj=cls, name=cls.__name__), args, kwargs, st, node)
            return
        if is_dataclass(cls):
            fs: Dict[str, V] = {}
            flds = dc_fields(cls)
            for f, a in zip(flds, args):
                fs[f.name] = self.narrow(a, st)
            for k, v in kwargs.items():
                fs[k] = self.narrow(v, st)
            for f in flds:
                if f.name not in fs:
                    if f.default is not MISSING:
                        fs[f.name], st = self.lift(f.default, st)
                    elif f.default_factory is not MISSING:  # type: ignore
                        fs[f.name], st = self.lift(f.default_factory(), st)  # type: ignore
                    else:
                        raise Unsupported(f"missing dataclass field {f.name}")
            yield VRec(cls, fs), st
            return
        if issubclass(cls, enum.Enum):
            raise Unsupported("enum call")
        if issubclass(cls, BaseException):
            yield VPy(("exception", cls.__name__)), st
            return
        if not is_tealer_class(cls):
            raise Unsupported(f"instantiation of non-repo class {cls}")
        # ordinary class: allocate and run __init__
        ref, st = self.alloc(st)
        obj = VRef(ref, cls, self)
        st = st.assume(TYPEOF(ref) == self.ct.lo[cls])
        found = find_attr_definer(cls, "__init__")
        if found is not None and is_tealer_class(found[0]):
            fi = funcinfo_of(found[1], found[0])
            for _, st2 in self.inline(fi, [obj] + list(args), kwargs, st, is_init=True):
                yield obj, st2
        else:
            yield obj, st

    # inlining --------------------------------------------------------------------------------------
    def bind_args(self, fi: FuncInfo, args: List[V], kwargs: Dict[str, V], st: State) -> Tuple[Dict[str, V], State]:
        a = fi.node.args
        params = [x.arg for x in a.posonlyargs + a.args]
        env: Dict[str, V] = {}
        if len(args) > len(params):
            raise Unsupported(f"too many arguments for {fi.qualname}")
        for p, v in zip(params, args):
            env[p] = v
        for k, v in kwargs.items():
            if k not in params:
                raise Unsupported(f"unexpected keyword {k} for {fi.qualname}")
            env[k] = v
        defaults = a.defaults
        for p, d in zip(params[len(params) - len(defaults):], defaults):
            if p not in env:
                outs = list(self.ev(d, st.push_frame(fi, {})))
                if len(outs) != 1:
                    raise Unsupported("default value forks")
                env[p] = outs[0][0]
                st = outs[0][1].pop_frame()
        missing = [p for p in params if p not in env]
        if missing:
            raise Unsupported(f"missing arguments {missing} for {fi.qualname}")
        return env, st

    def inline(self, fi: FuncInfo, args: List[V], kwargs: Dict[str, V], st: State, closure_env: Optional[Dict[str, V]] = None,
               is_init: bool = False) -> Iterator[Tuple[V, State]]:
        if len(st.frames) >= 9:
            raise Unsupported(f"inlining depth exceeded at {fi.qualname}")
        if any(f[0].qualname == fi.qualname for f in st.frames):
            raise Unsupported(f"recursive call of {fi.qualname} without a contract")
        env, st = self.bind_args(fi, args, kwargs, st)
        if closure_env:
            env = {**closure_env, **env}
        st = st.push_frame(fi, env)
        if fi.qualname not in self.inlined:
            self.inlined.append(fi.qualname)
        if isinstance(fi.node, ast.Lambda):
            for v, st2 in self.ev(fi.node.body, st):
                yield v, st2.pop_frame()
        else:
            for kind, payload, st2 in self.exec_block(fi.node.body, st):
                if kind == "return":
                    yield payload, st2.pop_frame()
                elif kind == "fall":
                    yield VNone(), st2.pop_frame()
                elif kind == "raise":
                    self.raise_out(payload, st2)
                else:
                    raise Unsupported(f"{kind} outside loop in {fi.qualname}")

    def raise_out(self, exc: Any, st: State) -> None:
        """A raise on a feasible path: allowed only if the contract's raises clause covers it."""
        self.raised.append((exc, st))

    # contracts at call sites ----------------------------------------------------------------------
    def eval_clause(self, clause: Any, ns: Dict[str, Any], st: State) -> Tuple[Any, State]:
        st = st.copy()
        with use_ctx(Ctx(self, st)) as ctx:
            argv = []
            for a in clause.argnames:
                if a not in ns:
                    raise Unsupported(f"clause {clause.label} of refers to unknown name {a}")
                argv.append(ns[a])
            r = clause.fn(*argv)
        if isinstance(r, bool):
            r = VBool(r)
        return r, st

    def apply_contract(self, c: Contract, fi: FuncInfo, args: List[V], kwargs: Dict[str, V], st: State, node: ast.AST
                       ) -> Iterator[Tuple[V, State]]:
        env, st = self.bind_args(fi, args, kwargs, st)
        for pn, pv in list(env.items()):
            pty = c.params.get(pn)
            if isinstance(pv, VUnion) and (pty is None or pty.kind not in ("union", "refu")):
                env[pn] = self.narrow(pv, st)
        ns: Dict[str, Any] = dict(env)
        for g in c.ghost:
            if g in st.ghost:
                ns[g] = st.ghost[g]
            else:
                raise Unsupported(f"ghost parameter {g} of {c.target} not available in caller")
        ns["old"] = OldView(self, st)
        if c.target not in self.calls_by_contract:
            self.calls_by_contract.append(c.target)
        where = f"{self.fi.file}:{getattr(node, 'lineno', '?')}"
        for cl in c.requires:
            g, st = self.eval_clause(cl, ns, st)
            self.oblige(st, "call-pre", f"{fi.pyfunc.__name__ if fi.pyfunc else fi.qualname}.{cl.label}@{getattr(node, 'lineno', 0)}",
                        _b(g), tags=cl.tags or c.tags, where=where)
            st = st.assume(_b(g))
        # exceptions of the callee: allowed if the function under verification may raise them too; otherwise the callee's
        # raise condition must be excluded here (an unconditional raises clause can never be excluded)
        mine = {rn for rn, _ in self.contract.raises}
        for rn, rfn in c.raises:
            if rn in mine:
                continue
            if rfn is None:
                # unconditional clause: partial correctness only (the caller's clauses speak about normal returns; the
                # exception propagates) -- listed under the assumptions of the evidence
                self.partial_raises.append((c.target, rn))
                continue
            else:
                from .dsl import Clause
                g, st = self.eval_clause(Clause(f"raises-{rn}", rfn), ns, st)
                goal = z3.Not(_b(g))
            self.oblige(st, "call-pre", f"{fi.pyfunc.__name__ if fi.pyfunc else fi.qualname}.no-{rn}@{getattr(node, 'lineno', 0)}",
                        goal, tags=list(set(["C17"] + c.tags)), where=where)
            st = st.assume(goal)
        # havoc modifies
        st = self.havoc_modifies(c, ns, st)
        if getattr(c, "allocates", False):
            # the callee may allocate objects that stay reachable: the allocation pointer after the call is some value not below
            # the one before (the callee's clauses can speak about `old` / current `alloc_ptr`)
            st = st.copy()
            hb = z3.Int(fresh_name("abase"))
            st.pc.append(hb >= st.alloc_ptr())
            st.abase = hb
            st.nalloc = 0
        rty = c.returns
        if rty is None:
            rty = ty_from_ast(getattr(fi.node, "returns", None), fi.globals)
        if rty is None:
            raise Unsupported(f"contract of {c.target} gives no return type")
        res, st = self.fresh_in(rty, "r_" + (fi.pyfunc.__name__ if fi.pyfunc else "f"), st)
        ns["result"] = res
        ns["new"] = OldView(self, st)
        for cl in c.ensures:
            g, st = self.eval_clause(cl, ns, st)
            if cl.known:
                # a clause with a listed finding is only assumed outside the finding's case
                from .dsl import Clause
                conds = []
                for fid, pred in cl.known.items():
                    pc_, st = self.eval_clause(Clause(f"{cl.label}#{fid}", pred), ns, st)
                    conds.append(_b(pc_))
                st = st.assume(z3.Implies(z3.Not(z3.Or(conds)), _b(g)))
            else:
                st = st.assume(_b(g))
        yield res, st

    def havoc_modifies(self, c: Contract, ns: Dict[str, Any], st: State) -> State:
        for m in c.modifies:
            if m.startswith("param:"):
                continue      # permission for the syntactic in-place check only; the heap components are listed separately
            if m.startswith(("F:", "L.", "V:", "D.")):
                st = st.copy()
                st.havoc_count += 1
                cur = st.heap.get(m)
                if cur is None:
                    srt = _component_sort(m)
                    if srt is None and m.startswith("F:") and "#" not in m:
                        # a field component not read yet: its sort from the schema (the callee's view first)
                        cn, attr = m[2:].split(".", 1)
                        try:
                            fty = (getattr(c, "field_types", {}) or {}).get((cn, attr)) or self.field_type(self.ct.cls(cn), attr)
                            srt = sort_of(fty)
                        except Exception:
                            srt = None
                    if srt is not None:
                        cur = st.harr(m, z3.IntSort(), srt)
                if cur is None:
                    # unknown sort until first use: mark with a fresh suffix
                    st.heap[m] = None  # replaced lazily
                    raise Unsupported(f"havoc of heap component {m} before its first use (declare it in the schema)")
                st.heap[m] = z3.Const(fresh_name(f"H<{m}>"), cur.sort())
            else:
                raise Unsupported(f"modifies entry {m}")
        return st

    # ---------------------------------------------------------------------------------------------
    # statements
    # ---------------------------------------------------------------------------------------------
    def exec_block(self, stmts: Sequence[ast.stmt], st: State) -> Iterator[Out]:
        if not stmts:
            yield "fall", None, st
            return
        head, rest = stmts[0], stmts[1:]
        for kind, payload, st1 in self.exec_stmt(head, st):
            if kind == "fall":
                yield from self.exec_block(rest, st1)
            else:
                yield kind, payload, st1

    def exec_stmt(self, s: ast.stmt, st: State) -> Iterator[Out]:
        self.npaths_guard()
        m = getattr(self, "st_" + type(s).__name__, None)
        if m is None:
            raise Unsupported(f"statement {type(s).__name__} at {self.fi.file}:{s.lineno}")
        yield from m(s, st)

    def npaths_guard(self) -> None:
        if self.npaths > self.contract.max_paths:
            raise TooManyPaths(f"more than {self.contract.max_paths} paths in {self.fi.qualname}")

    def st_Expr(self, s: ast.Expr, st: State) -> Iterator[Out]:
        if isinstance(s.value, ast.Constant):
            yield "fall", None, st  # docstring
            return
        for _, st1 in self.ev(s.value, st):
            yield "fall", None, st1

    def st_Pass(self, s: ast.Pass, st: State) -> Iterator[Out]:
        yield "fall", None, st

    def st_Return(self, s: ast.Return, st: State) -> Iterator[Out]:
        if s.value is None:
            yield "return", VNone(), st
            return
        for v, st1 in self.ev(s.value, st):
            yield "return", v, st1

    def st_Break(self, s: ast.Break, st: State) -> Iterator[Out]:
        yield "break", None, st

    def st_Continue(self, s: ast.Continue, st: State) -> Iterator[Out]:
        yield "continue", None, st

    def st_If(self, s: ast.If, st: State) -> Iterator[Out]:
        for c, st1 in self.ev(s.test, st):
            for val, st2 in self.branch(self.truth_st(c, st1), st1, f"if{s.lineno}"):
                yield from self.exec_block(s.body if val else s.orelse, st2)

    def st_Assert(self, s: ast.Assert, st: State) -> Iterator[Out]:
        for c, st1 in self.ev(s.test, st):
            t = self.truth_st(c, st1).term
            if st1.fi is self.fi and any(n == "AssertionError" for n, _ in self.contract.raises):
                # the contract lists AssertionError: a failing assert is a raise path (checked against the raises clause)
                for val, st2 in self.branch(VBool(t), st1, f"assert{s.lineno}"):
                    if val:
                        yield "fall", None, st2
                    else:
                        yield "raise", ("AssertionError", s.lineno), st2
                continue
            self.oblige(st1, "safe", f"assert@{s.lineno}", t, where=f"{self.fi.file}:{s.lineno}", tags=["C17"])
            yield "fall", None, st1.assume(t)

    def st_Raise(self, s: ast.Raise, st: State) -> Iterator[Out]:
        name = "Exception"
        if s.exc is not None:
            e = s.exc.func if isinstance(s.exc, ast.Call) else s.exc
            name = e.id if isinstance(e, ast.Name) else getattr(e, "attr", "Exception")
        yield "raise", (name, s.lineno), st

    def retype_empty(self, v: V, name: str, annotation: Optional[ast.AST], st: State) -> V:
        """an empty list/dict literal takes the element types declared for the variable (contract `local_types`, else the
        annotation in the source)"""
        if isinstance(v, VList) and not getattr(v, "untyped", False) and annotation is not None and v.elem.kind == "ref":
            ty = ty_from_ast(annotation, st.fi.globals)
            if ty is not None and ty.kind == "list" and ty.elem.kind == "refu" and any(
                    issubclass(v.elem.cls, self.ct.cls(n) if isinstance(n, str) else n) for n in ty.elem.classes):
                return VList(ty.elem, v.view, v.ref)    # a list of C seen as a list of (C | ...): same addresses
        if not isinstance(v, (VList, VDict)) or not getattr(v, "untyped", False):
            return v
        ty = None
        if st.fi is self.fi:
            ty = getattr(self.contract, "local_types", {}).get(name)
        if ty is None and annotation is not None:
            ty = ty_from_ast(annotation, st.fi.globals)
        if ty is None:
            return v
        if isinstance(v, VDict) and ty.kind == "dict":
            v.key, v.val, v.default = ty.key, ty.val, getattr(ty, "default", False)
            v.ty = ty
            v.untyped = False
        elif isinstance(v, VList) and ty.kind == "list":
            v.elem, v.view = ty.elem, ty.view
            v.ty = ty
            v.untyped = False
        return v

    def st_Assign(self, s: ast.Assign, st: State) -> Iterator[Out]:
        for v, st1 in self.ev(s.value, st):
            if len(s.targets) == 1 and isinstance(s.targets[0], ast.Name):
                v = self.retype_empty(v, s.targets[0].id, None, st1)
            if len(s.targets) == 1 and isinstance(s.targets[0], ast.Subscript):
                # `a[k1][k2] = v`: evaluating the container may fork (a defaultdict creates a missing entry)
                t = s.targets[0]
                for base, st2 in self.ev(t.value, st1):
                    for idx, st3 in self.ev(t.slice, st2):
                        yield "fall", None, self.setitem(t.value, base, idx, v, st3, t)
                continue
            st2 = st1
            for t in s.targets:
                st2 = self.assign_target(t, v, st2)
            yield "fall", None, st2

    def st_AnnAssign(self, s: ast.AnnAssign, st: State) -> Iterator[Out]:
        if s.value is None:
            yield "fall", None, st
            return
        for v, st1 in self.ev(s.value, st):
            if isinstance(s.target, ast.Name):
                v = self.retype_empty(v, s.target.id, s.annotation, st1)
            yield "fall", None, self.assign_target(s.target, v, st1)

    def st_AugAssign(self, s: ast.AugAssign, st: State) -> Iterator[Out]:
        load = ast.copy_location(ast.BinOp(left=self._as_load(s.target), op=s.op, right=s.value), s)
        if isinstance(s.op, ast.Add):
            # list += list mutates in place
            for cur, st0 in self.ev(self._as_load(s.target), st):
                if isinstance(cur, VList):
                    for rhs, st1 in self.ev(s.value, st0):
                        from .builtins_ import call_method
                        for _, st2 in call_method(self, cur, "extend", [rhs], {}, st1, s):
                            yield "fall", None, st2
                    return
                break
        for v, st1 in self.ev(load, st):
            yield "fall", None, self.assign_target(s.target, v, st1)

    def _as_load(self, t: ast.AST) -> ast.AST:
        import copy
        t2 = copy.deepcopy(t)
        for n in ast.walk(t2):
            if hasattr(n, "ctx"):
                n.ctx = ast.Load()
        return t2

    def assign_target(self, t: ast.AST, v: V, st: State) -> State:
        if isinstance(t, ast.Name):
            return st.bind(t.id, v)
        if isinstance(t, (ast.Tuple, ast.List)):
            if isinstance(v, VTuple):
                if len(v.items) != len(t.elts):
                    raise Unsupported("unpacking arity")
                for te, ve in zip(t.elts, v.items):
                    st = self.assign_target(te, ve, st)
                return st
            if isinstance(v, VList):
                n = len(t.elts)
                ln = self.list_len(v, st).term
                self.oblige(st, "safe", f"unpack@{t.lineno}", ln == n, tags=["C17"])
                st = st.assume(ln == n)
                for i, te in enumerate(t.elts):
                    st = self.assign_target(te, self.list_get(v, i, st), st)
                return st
            raise Unsupported(f"unpacking of {v!r}")
        if isinstance(t, ast.Attribute):
            outs = list(self.ev(t.value, st))
            if len(outs) != 1:
                raise Unsupported("assignment target forks")
            obj, st = outs[0]
            return self.setattr_v(obj, t.attr, v, st)
        if isinstance(t, ast.Subscript):
            outs = list(self.ev(t.value, st))
            if len(outs) != 1:
                raise Unsupported("assignment target forks")
            base, st = outs[0]
            outs = list(self.ev(t.slice, st))
            if len(outs) != 1:
                raise Unsupported("assignment index forks")
            idx, st = outs[0]
            return self.setitem(t.value, base, idx, v, st, t)
        raise Unsupported(f"assignment target {type(t).__name__}")

    def setattr_v(self, obj: V, name: str, v: V, st: State) -> State:
        if not isinstance(obj, VRef):
            raise Unsupported(f"attribute assignment on {obj!r}")
        found = find_attr_definer(obj.cls, name)
        if found is not None and isinstance(found[1], property):
            prop = found[1]
            if prop.fset is None:
                raise Unsupported(f"assignment to read-only property {name}")
            fi = funcinfo_of(prop.fset, found[0])
            outs = list(self.inline(fi, [obj, v], {}, st))
            if len(outs) != 1:
                raise Unsupported("property setter forks")
            return outs[0][1]
        attrs = init_assigned_attrs(obj.cls)
        definer = attrs.get(name)
        if definer is None:
            raise Unsupported(f"assignment to unknown attribute {obj.cls.__name__}.{name}")
        return self.write_field(obj, definer, name, v, st)

    def setitem(self, base_node: ast.AST, base: V, idx: V, v: V, st: State, node: ast.AST) -> State:
        if isinstance(base, VList) and base.view == "seq":
            n = self.list_len(base, st).term
            i = _i(idx)
            self.oblige(st, "safe", f"setindex@{node.lineno}", z3.And(i >= 0, i < n), tags=["C17"])
            st = st.assume(i >= 0, i < n)
            key, el = self._elem_arr(st, base.elem)
            return st.hset(key, z3.Store(el, base.ref, z3.Store(z3.Select(el, base.ref), i, to_term(v, base.elem))))
        if isinstance(base, VDict):
            if getattr(base, "untyped", False):
                base.key = getattr(idx, "ty", base.key) if not isinstance(idx, VRef) else T.Ref(self.ct.root(idx.cls))
                base.val = getattr(v, "ty", base.val)
                base.ty = type(base.ty)(base.key, base.val)
                base.untyped = False
            return self.dict_write(base, self.narrow(idx, st), v, st)
        raise Unsupported(f"item assignment on {base!r}")

    def _as_store(self, t: ast.AST) -> ast.AST:
        import copy
        t2 = copy.deepcopy(t)
        t2.ctx = ast.Store()
        return t2

    def st_For(self, s: ast.For, st: State) -> Iterator[Out]:
        from .loops import exec_for
        yield from exec_for(self, s, st)

    def st_While(self, s: ast.While, st: State) -> Iterator[Out]:
        from .loops import exec_while
        yield from exec_while(self, s, st)

    def st_FunctionDef(self, s: ast.FunctionDef, st: State) -> Iterator[Out]:
        fi = FuncInfo(self.fi.qualname + "::" + s.name, None, s, self.fi.module, None, self.fi.file, s.lineno, outer=self.fi)
        yield "fall", None, st.bind(s.name, VFunc("closure", fi=fi, env=dict(st.env)))


def _fresh_consts(f: Any) -> Dict[int, Any]:
    """the uninterpreted constants of a formula that come from fresh_name (their names carry a `!`), by term id"""
    out: Dict[int, Any] = {}
    seen = set()
    todo = [f]
    while todo:
        t = todo.pop()
        if t.get_id() in seen:
            continue
        seen.add(t.get_id())
        if z3.is_quantifier(t):
            todo.append(t.body())
            continue
        if z3.is_app(t):
            if t.num_args() == 0 and t.decl().kind() == z3.Z3_OP_UNINTERPRETED and "!" in t.decl().name():
                out[t.get_id()] = t
            todo.extend(t.children())
    return out


def _component_sort(key: str) -> Any:
    """range sort of a list / dict heap component, from its name (None if it cannot be told)"""
    from .values import abs_sort

    def srt(n: str) -> Any:
        basic = {"Int": z3.IntSort(), "String": z3.StringSort(), "Bool": z3.BoolSort()}
        if n in basic:
            return basic[n]
        return abs_sort(n) if n.isidentifier() else None
    try:
        if key == "L.len":
            return z3.IntSort()
        if key.startswith("L.elem:"):
            return z3.ArraySort(z3.IntSort(), srt(key[7:]))
        if key.startswith("L.bag:"):
            return z3.ArraySort(srt(key[6:]), z3.IntSort())
        if key.startswith("D.dom:"):
            return z3.ArraySort(srt(key[6:]), z3.BoolSort())
        if key.startswith("D.map:"):
            k, v = key[6:].split("->")
            return z3.ArraySort(srt(k), srt(v))
    except Exception:
        return None
    return None


class OldView:
    """`old.heap(...)`-style access for contract clauses: a frozen state."""

    def __init__(self, ex: Exec, st: State):
        self.ex = ex
        self.st = st

    def field(self, ref: VRef, cls: Any, attr: str) -> V:
        c = _resolve_cls(cls)
        v, _ = self.ex.read_field(ref, c, attr, self.st)
        return v

    def list_len(self, l: VList) -> VInt:
        return self.ex.list_len(l, self.st)

    def dget(self, d: Any, k: Any) -> V:
        """d[k] in this state (d a dict value, or an attribute path result); no presence check"""
        v, _ = self.ex.dict_read(d, k, self.st)
        return v

    def dhas(self, d: Any, k: Any) -> VBool:
        return self.ex.contains(d, k, self.st)

    def heap(self, key: str) -> Any:
        """the raw array of a heap component in this state (None if never touched)"""
        return self.st.heap.get(key)

    def list_get(self, l: VList, i: Any) -> V:
        return self.ex.list_get(l, i, self.st)

    def list_bag(self, l: VList) -> Any:
        return self.ex.list_bag(l, self.st)
