"""Annotations of the real code as sort hints (DESIGN.md §2.1: used only as hints; contracts may override)."""
from __future__ import annotations

import ast
import enum
import typing
from dataclasses import fields as dc_fields, is_dataclass
from typing import Any, Dict, List, Optional, Tuple

from .values import T, Ty, Unsupported
from .loader import class_table, is_tealer_class


def ty_of_class(c: type) -> Ty:
    if is_dataclass(c):
        return T.Rec(c)
    if issubclass(c, enum.Enum):
        return T.Enum(c)
    return T.Ref(c)


def ty_from_ast(node: Optional[ast.AST], globs: Dict[str, Any]) -> Optional[Ty]:
    """Best-effort translation of an annotation; None when it says nothing useful."""
    if node is None:
        return None
    if isinstance(node, ast.Constant):
        if node.value is None:
            return T.NoneT
        if isinstance(node.value, str):
            try:
                return ty_from_ast(ast.parse(node.value, mode="eval").body, globs)
            except SyntaxError:
                return None
        return None
    if isinstance(node, ast.Name):
        n = node.id
        if n == "int":
            return T.Int
        if n == "bool":
            return T.Bool
        if n == "str":
            return T.Str
        if n == "None":
            return T.NoneT
        if n in ("Any", "object"):
            return None
        obj = globs.get(n)
        if obj is None:
            try:
                obj = class_table().cls(n)
            except Exception:
                return None
        if is_tealer_class(obj):
            return ty_of_class(obj)
        if n in ("Set", "List", "Dict", "Tuple", "set", "list", "dict", "tuple"):
            return None
        return None
    if isinstance(node, ast.Attribute):
        try:
            return ty_of_class(class_table().cls(node.attr))
        except Exception:
            return None
    if isinstance(node, ast.Subscript):
        base = node.value
        bname = base.id if isinstance(base, ast.Name) else (base.attr if isinstance(base, ast.Attribute) else "")
        sl = node.slice
        args = list(sl.elts) if isinstance(sl, ast.Tuple) else [sl]
        if bname == "Optional":
            t = ty_from_ast(args[0], globs)
            return T.Opt(t) if t is not None else None
        if bname == "Union":
            ts = [ty_from_ast(a, globs) for a in args]
            if any(t is None for t in ts):
                return None
            if all(t.kind == "ref" for t in ts):
                return T.RefU(*[t.cls for t in ts])
            return T.Union(*ts)
        if bname in ("List", "list"):
            t = ty_from_ast(args[0], globs)
            return T.List(t) if t is not None else None
        if bname in ("Set", "set"):
            t = ty_from_ast(args[0], globs)
            return T.Set(t) if t is not None else None
        if bname in ("Tuple", "tuple"):
            ts = [ty_from_ast(a, globs) for a in args]
            if any(t is None for t in ts):
                return None
            return T.Tuple(*ts)
        if bname in ("Dict", "dict"):
            k = ty_from_ast(args[0], globs)
            v = ty_from_ast(args[1], globs)
            return T.Dict(k, v) if k is not None and v is not None else None
        if bname == "Type":
            t = ty_from_ast(args[0], globs)
            if t is not None and t.kind == "ref":
                return T.Cls(t.cls)
            return None
    return None


def ty_from_runtime(tp: Any) -> Optional[Ty]:
    if tp is int:
        return T.Int
    if tp is bool:
        return T.Bool
    if tp is str:
        return T.Str
    if tp is type(None):
        return T.NoneT
    if is_tealer_class(tp):
        return ty_of_class(tp)
    origin = typing.get_origin(tp)
    args = typing.get_args(tp)
    if origin is typing.Union:
        ts = [ty_from_runtime(a) for a in args]
        if any(t is None for t in ts):
            return None
        return T.Union(*ts)
    if origin in (list, typing.List):
        t = ty_from_runtime(args[0]) if args else None
        return T.List(t) if t is not None else None
    if origin in (set, typing.Set):
        t = ty_from_runtime(args[0]) if args else None
        return T.Set(t) if t is not None else None
    if isinstance(tp, str):
        try:
            return ty_from_ast(ast.parse(tp, mode="eval").body, {})
        except SyntaxError:
            return None
    return None


def dataclass_field_types(cls: type) -> List[Tuple[str, Ty]]:
    out = []
    for f in dc_fields(cls):
        t = ty_from_runtime(f.type)
        if t is None:
            raise Unsupported(f"dataclass {cls.__name__}.{f.name}: type {f.type!r} not understood")
        out.append((f.name, t))
    return out
