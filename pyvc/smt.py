"""Solver portfolio (DESIGN.md §2.5): z3 5.1 Python API in-process; on unknown: cvc5 and /usr/bin/z3 on the SMT-LIB dump."""
from __future__ import annotations

import os
import subprocess
import tempfile
import time
from typing import Any, List, Optional, Tuple

import z3


Z3_FIRST_S: Optional[float] = None     # set per contract (Contract.z3_first_s) while its obligations are solved


class Result:
    def __init__(self, status: str, backend: str, seconds: float, model: Any = None, reason: str = ""):
        self.status = status  # 'unsat' | 'sat' | 'unknown'
        self.backend = backend
        self.seconds = seconds
        self.model = model
        self.reason = reason

    def __repr__(self) -> str:
        return f"<{self.status} by {self.backend} in {self.seconds:.3f}s {self.reason}>"


def _solver(timeout_ms: int) -> z3.Solver:
    s = z3.Solver()
    s.set("timeout", timeout_ms)
    return s


def quick_feasible(assumptions: List[Any], timeout_ms: int = 1500) -> bool:
    """Branch pruning: False only when the path condition is certainly unsatisfiable."""
    s = _solver(timeout_ms)
    s.add(*assumptions)
    return s.check() != z3.unsat


def dump_smt2(assumptions: List[Any], goal_negated: Any) -> str:
    s = z3.Solver()
    s.add(*assumptions)
    s.add(goal_negated)
    return s.to_smt2()


def _run_cli(cmd: List[str], text: str, timeout_s: float) -> Tuple[str, float, str]:
    t0 = time.time()
    with tempfile.NamedTemporaryFile("w", suffix=".smt2", delete=False, dir=os.environ.get("PYVC_TMP")) as f:
        f.write(text)
        path = f.name
    try:
        p = subprocess.run(cmd + [path], capture_output=True, text=True, timeout=timeout_s)
        out = (p.stdout or "").strip().splitlines()
        first = out[0].strip() if out else ""
        if first in ("sat", "unsat", "unknown"):
            return first, time.time() - t0, ""
        return "unknown", time.time() - t0, (p.stdout + p.stderr)[:300]
    except subprocess.TimeoutExpired:
        return "unknown", time.time() - t0, "timeout"
    finally:
        try:
            os.unlink(path)
        except OSError:
            pass


def prove(assumptions: List[Any], goal: Any, timeout_s: float = 10.0, portfolio: bool = True,
          both: bool = False) -> Result:
    """Is  /\\ assumptions => goal  valid?  unsat = discharged, sat = refuted (model), unknown = undecided."""
    t0 = time.time()
    # string-heavy contracts: the API solver gets a short first slot, cvc5 (which decides these) the full budget
    s = _solver(int(min(timeout_s, Z3_FIRST_S) * 1000) if (Z3_FIRST_S and portfolio) else int(timeout_s * 1000))
    s.add(*assumptions)
    s.add(z3.Not(goal))
    r = s.check()
    dt = time.time() - t0
    if r == z3.unsat:
        res = Result("unsat", "z3api-5.1", dt)
    elif r == z3.sat:
        res = Result("sat", "z3api-5.1", dt, model=s.model())
    else:
        res = Result("unknown", "z3api-5.1", dt, reason=s.reason_unknown())
    if res.status != "unknown" and not both:
        return res
    if not portfolio:
        return res
    text = None
    try:
        text = s.to_smt2()
    except Exception as e:  # pragma: no cover
        return res
    # cvc5
    st, dt2, why = _run_cli(["/usr/bin/cvc5", "--strings-exp", f"--tlimit={int(timeout_s * 1000)}"], text, timeout_s + 5)
    if both and res.status != "unknown" and st != "unknown" and st != res.status:
        return Result("unknown", "DISAGREEMENT", dt + dt2, reason=f"z3api={res.status} cvc5={st}")
    if res.status != "unknown":
        return res
    if st == "unsat":
        return Result("unsat", "cvc5-1.0.3", dt + dt2)
    st3, dt3, why3 = _run_cli(["/usr/bin/z3", f"-T:{int(timeout_s)}"], text, timeout_s + 5)
    if st3 == "unsat":
        return Result("unsat", "z3cli-4.8.12", dt + dt2 + dt3)
    if st == "sat" or st3 == "sat":
        # a model is wanted from the API solver; none available: report refuted-without-model
        return Result("sat", "cvc5-1.0.3" if st == "sat" else "z3cli-4.8.12", dt + dt2 + dt3, model=None)
    return Result("unknown", "portfolio", dt + dt2 + dt3, reason=f"z3api:{res.reason}; cvc5:{why}; z3cli:{why3}")
