"""Symbolic state, obligations, heap model (DESIGN.md §2.2, §2.4)."""
from __future__ import annotations

from typing import Any, Dict, List, Optional, Tuple

import z3

from .values import sort_of, Ty


class Obligation:
    def __init__(self, func: str, kind: str, label: str, path: str, pc: List[Any], goal: Any, tags: List[str],
                 must_fail: bool = False, inputs: Optional[Dict[str, Any]] = None, st: Any = None,
                 where: str = "", note: str = ""):
        self.func = func
        self.kind = kind
        self.label = label
        self.path = path
        self.pc = list(pc)
        self.goal = goal
        self.tags = list(tags)
        self.must_fail = must_fail
        self.inputs = inputs or {}
        self.st = st
        self.where = where
        self.note = note
        self.result: Any = None

    @property
    def name(self) -> str:
        lab = f"[{self.label}]" if self.label else ""
        return f"{self.func}/{self.kind}{lab}@{self.path}"

    def __repr__(self) -> str:
        return f"<Obl {self.name}>"


_H0: Dict[str, Any] = {}


def initial_heap_array(key: str, dom: z3.SortRef, rng: z3.SortRef) -> Any:
    """The symbolic heap at function entry; one constant per component, shared by all paths."""
    k = f"{key}|{dom}|{rng}"
    if k not in _H0:
        _H0[k] = z3.Const(f"H0<{key}>", z3.ArraySort(dom, rng))
    return _H0[k]


class State:
    """Immutable-by-convention: every update returns a new State (cheap shallow copies)."""

    __slots__ = ("env", "pc", "heap", "nalloc", "decisions", "touched", "lifted", "ghost", "entry_heap", "depth",
                 "havoc_count", "frames", "lens", "havoc_rules", "abase")

    def __init__(self) -> None:
        self.env: Dict[str, Any] = {}
        self.pc: List[Any] = []
        self.heap: Dict[str, Any] = {}
        self.nalloc: int = 0
        self.decisions: List[str] = []
        self.touched: Tuple[Any, ...] = ()
        self.lifted: Tuple[int, ...] = ()
        self.ghost: Dict[str, Any] = {}
        self.entry_heap: Optional[Dict[str, Any]] = None
        self.depth: int = 0
        self.havoc_count: int = 0
        self.frames: Tuple[Any, ...] = ()
        self.lens: Dict[int, int] = {}   # list address term id -> statically known length (invalidated by mutation)
        self.abase: Any = None   # allocation base (a term): the next fresh address is abase + nalloc; None = ALLOC0
        self.havoc_rules: Tuple[Any, ...] = ()   # (id, predicate over heap keys): loop havocs for components not yet in `heap`

    def copy(self) -> "State":
        s = State.__new__(State)
        s.env = dict(self.env)
        s.pc = list(self.pc)
        s.heap = dict(self.heap)
        s.nalloc = self.nalloc
        s.decisions = list(self.decisions)
        s.touched = self.touched
        s.lifted = self.lifted
        s.ghost = dict(self.ghost)
        s.entry_heap = self.entry_heap
        s.depth = self.depth
        s.havoc_count = self.havoc_count
        s.frames = self.frames
        s.lens = self.lens
        s.havoc_rules = self.havoc_rules
        s.abase = self.abase
        return s

    def assume(self, *fs: Any) -> "State":
        s = self.copy()
        for f in fs:
            if z3.is_true(f):
                continue
            s.pc.append(f)
        return s

    def bind(self, name: str, v: Any) -> "State":
        s = self.copy()
        s.env[name] = v
        return s

    def decide(self, d: str) -> "State":
        s = self.copy()
        s.decisions.append(d)
        return s

    def push_frame(self, fi: Any, env: Dict[str, Any]) -> "State":
        s = self.copy()
        s.frames = self.frames + ((fi, self.env),)
        s.env = env
        return s

    def pop_frame(self) -> "State":
        s = self.copy()
        fi, env = self.frames[-1]
        s.frames = self.frames[:-1]
        s.env = env
        return s

    @property
    def fi(self) -> Any:
        return self.frames[-1][0]

    def with_env(self, env: Dict[str, Any]) -> "State":
        s = self.copy()
        s.env = env
        return s

    # ---- heap -------------------------------------------------------------------------------
    def harr(self, key: str, dom: z3.SortRef, rng: z3.SortRef) -> Any:
        if key not in self.heap:
            # a component first used after a loop havoc that covers it is unknown there (not its entry value)
            for rid, rule in reversed(self.havoc_rules):
                if rule(key):
                    return z3.Const(f"Hh{rid}<{key}>", z3.ArraySort(dom, rng))
            return initial_heap_array(key, dom, rng)
        return self.heap[key]

    def hset(self, key: str, arr: Any) -> "State":
        s = self.copy()
        s.heap[key] = arr
        return s

    def alloc_ptr(self) -> Any:
        """the next address to be allocated: every object existing now has a smaller address"""
        return (ALLOC0 if self.abase is None else self.abase) + self.nalloc

    def path_id(self) -> str:
        import hashlib
        if not self.decisions:
            return "path0"
        h = hashlib.sha1("|".join(self.decisions).encode()).hexdigest()[:6]
        return f"path{len(self.decisions)}_{h}"


ALLOC0 = z3.Int("alloc0")  # every object existing at function entry has address in (0, alloc0); constants < 0
