"""Executor part A: fresh values, lifting of Python constants, heap objects, attributes, isinstance."""
from __future__ import annotations

import enum
import inspect
import types
from dataclasses import is_dataclass, fields as dc_fields
from typing import Any, Callable, Dict, Iterator, List, Optional, Sequence, Tuple

import z3

from . import loader
from .loader import class_table, FuncInfo, funcinfo_of, is_tealer_class, is_tealer_function
from .state import State, Obligation, ALLOC0, initial_heap_array
from .typing_hints import ty_from_ast, ty_of_class, dataclass_field_types, ty_from_runtime
from .values import (T, Ty, V, VAbs, VBool, VClass, VDict, VEnum, VFunc, VInt, VList, VNone, VPy, VRec, VRef, VSet,
                     VStr, VTuple, VUnion, Unsupported, fresh_name, sort_of, to_term, from_term, veq, abs_sort,
                     _b, _i, _s, _resolve_cls)

TYPEOF = z3.Function("typeof", z3.IntSort(), z3.IntSort())

# Field types that annotations do not give (sidecar schema; checked against real objects by xval)
FIELD_TYPES: Dict[Tuple[str, str], Ty] = {}
# Axioms instantiated when a reference of a class is first touched on a path:  cls name -> [fn(ex, st, vref) -> [formulas]]
ON_TOUCH: Dict[str, List[Callable[..., List[Any]]]] = {}
# Virtual (overridden) properties abstracted by an uninterpreted function: (definer name, attr) -> Ty
VIRTUAL_PROPS: Dict[Tuple[str, str], Ty] = {}
# (class name, property) -> type: properties whose getter contract names the result `V:<class>.<prop>[self]`; inside
# contract clauses the property reads that name directly
NAMED_PROPS: Dict[Tuple[str, str], Ty] = {}
# logger-like names whose calls are dropped (DESIGN §2.1)
DROPPED_CALL_PREFIXES = ("logger", "logging", "logger_txn_ctx", "logger_detectors", "logger_parsing")


class PathEnd(Exception):
    pass


class ExecBase:
    def __init__(self, fi: FuncInfo, contract: Any, registry: Dict[str, Any]):
        self.fi = fi
        self.contract = contract
        self.registry = registry
        self.obligations: List[Obligation] = []
        self.ct = class_table()
        self.infeasible_paths = 0
        self.assumptions_used: List[str] = []
        self._const_refs: Dict[int, int] = {}
        self._const_objs: Dict[int, Any] = {}

    # ---------------------------------------------------------------------------------------------
    # fresh symbolic values
    # ---------------------------------------------------------------------------------------------
    def fresh(self, ty: Ty, name: str, st: Optional[State], constrain: bool = True) -> V:
        v, cons = self._fresh(ty, fresh_name(name))
        if constrain and st is not None:
            st.pc.extend(cons)
        return v

    def fresh_in(self, ty: Ty, name: str, st: State) -> Tuple[V, State]:
        v, cons = self._fresh(ty, fresh_name(name))
        return v, st.assume(*cons)

    def _fresh(self, ty: Ty, name: str) -> Tuple[V, List[Any]]:
        k = ty.kind
        if k == "int":
            return VInt(z3.Int(name)), []
        if k == "bool":
            return VBool(z3.Bool(name)), []
        if k == "str":
            return VStr(z3.String(name)), []
        if k == "none":
            return VNone(), []
        if k == "ref":
            cls = _resolve_cls(ty.cls)
            t = z3.Int(name)
            v = VRef(t, cls, self)
            return v, [self.type_constraint(v)]
        if k == "refu":
            t = z3.Int(name)
            v = from_term(t, ty, self)
            return v, [t > 0, t < ALLOC0, z3.Or([g for g, _ in v.alts])]
        if k == "enum":
            cls = _resolve_cls(ty.cls)
            t = z3.Int(name)
            v = VEnum(cls, t)
            return v, [self.type_constraint(v)]
        if k == "rec":
            cls = _resolve_cls(ty.cls)
            fs = {}
            cons: List[Any] = []
            for n, ft in dataclass_field_types(cls):
                fv, c = self._fresh(ft, f"{name}.{n}")
                fs[n] = fv
                cons += c
            return VRec(cls, fs), cons
        if k == "tuple":
            items = []
            cons = []
            for i, it in enumerate(ty.items):
                iv, c = self._fresh(it, f"{name}.{i}")
                items.append(iv)
                cons += c
            return VTuple(items), cons
        if k == "union":
            alts = []
            cons = []
            guards = []
            for i, at in enumerate(ty.alts):
                av, c = self._fresh(at, f"{name}.alt{i}")
                g = z3.Bool(f"{name}.is{i}")
                guards.append(g)
                alts.append((g, av))
                cons += [z3.Implies(g, x) for x in c]
            cons.append(z3.PbEq([(g, 1) for g in guards], 1))
            return VUnion(alts), cons
        if k == "set":
            return VSet(ty.elem, z3.Const(name, z3.ArraySort(sort_of(ty.elem), z3.BoolSort()))), []
        if k == "list":
            t = z3.Int(name)
            return VList(ty.elem, ty.view, t), [t > 0, t < ALLOC0]
        if k == "abs":
            return VAbs(ty.sort_name, z3.Const(name, abs_sort(ty.sort_name))), []
        if k == "cls":
            base = _resolve_cls(ty.base)
            t = z3.Int(name)
            subs = self.ct.subclasses(base)
            return VClass(None, t, base), [z3.Or([z3.And(t == self.ct.lo[c], CLS_LO(t) == self.ct.lo[c],
                                                         CLS_HI(t) == self.ct.hi[c]) for c in subs])]
        if k == "dict":
            t = z3.Int(name)
            return VDict(ty.key, ty.val, t, getattr(ty, "default", False)), [t > 0, t < ALLOC0]
        if k == "callable":
            # an arbitrary *pure* function of its arguments: an uninterpreted function symbol
            fn = z3.Function(name, *[sort_of(a) for a in ty.args], sort_of(ty.ret))

            def sym(ex: Any, args: List[V], kwargs: Dict[str, V], st: State, fn=fn, ty=ty):
                res = from_term(fn(*[to_term(a, t) for a, t in zip(args, ty.args)]), ty.ret, ex)
                yield res, st
            vf = VFunc("sym", name=name, sym=sym)
            vf.fn = fn
            vf.ty = ty
            return vf, []
        raise Unsupported(f"cannot create a fresh value of type {ty!r}")

    def type_constraint(self, v: V) -> Any:
        if isinstance(v, VUnion) and v.alts and all(isinstance(a, VRef) for _, a in v.alts):
            t = v.alts[0][1].term
            return z3.And(t > 0, t < ALLOC0, z3.Or([g for g, _ in v.alts]))
        if isinstance(v, VRef):
            lo, hi = self.ct.lo[v.cls], self.ct.hi[v.cls]
            return z3.And(v.term > 0, v.term < ALLOC0, TYPEOF(v.term) >= lo, TYPEOF(v.term) < hi)
        if isinstance(v, VEnum):
            vals = sorted({m.value for m in v.cls})
            return z3.Or([v.term == x for x in vals])
        if isinstance(v, VClass) and v.pycls is None:
            return z3.And(v.term >= self.ct.lo[v.base], v.term < self.ct.hi[v.base])
        return z3.BoolVal(True)

    def term_of(self, v: V) -> Any:
        if isinstance(v, (VInt, VBool, VStr, VRef, VEnum, VAbs, VSet)):
            return v.term
        if isinstance(v, (VList, VDict)):
            return v.ref
        raise Unsupported(f"no single term for {v!r}")

    # ---------------------------------------------------------------------------------------------
    # lifting Python objects
    # ---------------------------------------------------------------------------------------------
    def lift(self, obj: Any, st: State) -> Tuple[V, State]:
        if isinstance(obj, V):
            return obj, st
        if obj is None:
            return VNone(), st
        if isinstance(obj, bool):
            return VBool(obj), st
        if isinstance(obj, int):
            return VInt(obj), st
        if isinstance(obj, str):
            return VStr(obj), st
        if isinstance(obj, enum.Enum):
            return VEnum(type(obj), obj.value), st
        if inspect.isclass(obj):
            return VClass(obj), st
        if isinstance(obj, tuple):
            items = []
            for o in obj:
                v, st = self.lift(o, st)
                items.append(v)
            return VTuple(items), st
        if isinstance(obj, list):
            return self.lift_const_list(obj, st)
        if isinstance(obj, (dict, types.ModuleType)):
            return VPy(obj), st
        if isinstance(obj, (set, frozenset)):
            elems = []
            for o in obj:
                v, st = self.lift(o, st)
                elems.append(v)
            return self.make_set(elems, None), st
        if inspect.isfunction(obj) or inspect.isbuiltin(obj) or isinstance(obj, (staticmethod, types.MethodType)):
            return self.lift_callable(obj), st
        if is_dataclass(obj) and not inspect.isclass(obj):
            fs = {}
            for f in dc_fields(obj):
                v, st = self.lift(getattr(obj, f.name), st)
                fs[f.name] = v
            return VRec(type(obj), fs), st
        if callable(obj):
            return self.lift_callable(obj), st
        raise Unsupported(f"cannot lift Python object {obj!r} of type {type(obj).__name__}")

    def lift_callable(self, obj: Any, self_val: Optional[V] = None, owner: Optional[type] = None) -> VFunc:
        raw = loader._unwrap(obj)
        if is_tealer_function(raw):
            return VFunc("repo", fi=funcinfo_of(raw, owner), self_val=self_val, pyobj=raw)
        return VFunc("builtin", pyobj=obj, name=getattr(obj, "__name__", repr(obj)))

    def elem_type_of_values(self, vs: Sequence[V]) -> Ty:
        for v in vs:
            if isinstance(v, VInt):
                return T.Int
            if isinstance(v, VStr):
                return T.Str
            if isinstance(v, VEnum):
                return T.Enum(v.cls)
            if isinstance(v, VRef):
                return T.Ref(self.ct.root(v.cls))
            if isinstance(v, VBool):
                return T.Bool
        raise Unsupported("cannot infer element type of an empty/heterogeneous constant collection")

    def make_set(self, elems: Sequence[V], elem_ty: Optional[Ty]) -> VSet:
        if elem_ty is None:
            elem_ty = self.elem_type_of_values(elems)
        arr = z3.K(sort_of(elem_ty), z3.BoolVal(False))
        for e in elems:
            arr = z3.Store(arr, to_term(e, elem_ty), z3.BoolVal(True))
        return VSet(elem_ty, arr)

    def lift_const_list(self, obj: list, st: State) -> Tuple[V, State]:
        """A module-level list: an object that exists before the call, at a fixed negative address, whose
        contents *at function entry* are the import-time contents (assumption recorded for C14)."""
        oid = id(obj)
        if oid not in self._const_refs:
            self._const_refs[oid] = -(1000 + len(self._const_refs))
            self._const_objs[oid] = obj
        ref = z3.IntVal(self._const_refs[oid])
        elems = []
        for o in obj:
            v, st = self.lift(o, st)
            elems.append(v)
        if elems and all(isinstance(e, VTuple) for e in elems):
            # a module-level table of tuples (rule tables): its import-time rows, as an immutable sequence (same assumption)
            return VTuple(elems), st
        ety = self.elem_type_of_values(elems) if elems else T.Int
        lv = VList(ety, "seq", ref)
        if oid not in st.lifted:
            st = st.copy()
            st.lifted = st.lifted + (oid,)
            st.lens = {**st.lens, ref.get_id(): len(elems)}
            es = sort_of(ety)
            len0 = State().harr("L.len", z3.IntSort(), z3.IntSort())
            el0 = State().harr(f"L.elem:{es}", z3.IntSort(), z3.ArraySort(z3.IntSort(), es))
            st.pc.append(z3.Select(len0, ref) == len(elems))
            for i, e in enumerate(elems):
                st.pc.append(z3.Select(z3.Select(el0, ref), i) == to_term(e, ety))
        return lv, st

    # ---------------------------------------------------------------------------------------------
    # allocation and list objects (heap)
    # ---------------------------------------------------------------------------------------------
    def alloc(self, st: State) -> Tuple[Any, State]:
        st = st.copy()
        ref = st.alloc_ptr()
        st.nalloc += 1
        return ref, st

    def _len_arr(self, st: State) -> Any:
        return st.harr("L.len", z3.IntSort(), z3.IntSort())

    def _elem_arr(self, st: State, ety: Ty) -> Tuple[str, Any]:
        es = sort_of(ety)
        key = f"L.elem:{es}"
        return key, st.harr(key, z3.IntSort(), z3.ArraySort(z3.IntSort(), es))

    def _bag_arr(self, st: State, ety: Ty) -> Tuple[str, Any]:
        es = sort_of(ety)
        key = f"L.bag:{es}"
        return key, st.harr(key, z3.IntSort(), z3.ArraySort(es, z3.IntSort()))

    def list_len(self, l: VList, st: State) -> VInt:
        if l.view != "seq":
            raise Unsupported("len() of a bag-view list")
        return VInt(z3.Select(self._len_arr(st), l.ref))

    def list_get(self, l: VList, i: Any, st: State) -> V:
        if l.view != "seq":
            raise Unsupported("indexing a bag-view list")
        _, el = self._elem_arr(st, l.elem)
        return from_term(z3.Select(z3.Select(el, l.ref), _i(i)), l.elem, self)

    def new_list(self, ety: Ty, view: str, st: State, elems: Sequence[V] = ()) -> Tuple[VList, State]:
        ref, st = self.alloc(st)
        l = VList(ety, view, ref)
        if view == "seq":
            st.lens = {**st.lens, ref.get_id(): len(elems)}
            st = st.hset("L.len", z3.Store(self._len_arr(st), ref, z3.IntVal(len(elems))))
            key, el = self._elem_arr(st, ety)
            inner = z3.Select(el, ref)
            for i, e in enumerate(elems):
                inner = z3.Store(inner, i, to_term(e, ety))
            st = st.hset(key, z3.Store(el, ref, inner))
        else:
            key, bg = self._bag_arr(st, ety)
            inner = z3.K(sort_of(ety), z3.IntVal(0))
            for e in elems:
                t = to_term(e, ety)
                inner = z3.Store(inner, t, z3.Select(inner, t) + 1)
            st = st.hset(key, z3.Store(bg, ref, inner))
        return l, st

    def list_bag(self, l: VList, st: State) -> Any:
        """Multiset view (elem -> count) of a list.  For a seq-view list only constants/short lists convert."""
        if l.view == "bag":
            _, bg = self._bag_arr(st, l.elem)
            return z3.Select(bg, l.ref)
        n = self.known_len(l, st)
        if n is None:
            raise Unsupported("bag of a seq-view list of symbolic length")
        _, el = self._elem_arr(st, l.elem)
        inner = z3.K(sort_of(l.elem), z3.IntVal(0))
        for i in range(n):
            t = z3.Select(z3.Select(el, l.ref), i)
            inner = z3.Store(inner, t, z3.Select(inner, t) + 1)
        return inner

    def known_len(self, l: VList, st: State) -> Optional[int]:
        k = st.lens.get(l.ref.get_id())
        if k is not None:
            return k
        return self._concrete_int(z3.Select(self._len_arr(st), l.ref), st)

    def forget_len(self, l: VList, st: State) -> State:
        if l.ref.get_id() in st.lens:
            st = st.copy()
            st.lens = {k: v for k, v in st.lens.items() if k != l.ref.get_id()}
        return st

    # ---- dict objects -------------------------------------------------------------------------------------
    def _dmap(self, st: State, kt: Ty, vt: Ty) -> Tuple[str, Any]:
        ks, vs = sort_of(kt), sort_of(vt)
        key = f"D.map:{ks}->{vs}"
        return key, st.harr(key, z3.IntSort(), z3.ArraySort(ks, vs))

    def _ddom(self, st: State, kt: Ty) -> Tuple[str, Any]:
        ks = sort_of(kt)
        key = f"D.dom:{ks}"
        return key, st.harr(key, z3.IntSort(), z3.ArraySort(ks, z3.BoolSort()))

    def dict_dom(self, d: VDict, st: State) -> Any:
        return z3.Select(self._ddom(st, d.key)[1], d.ref)

    def dict_map(self, d: VDict, st: State) -> Any:
        return z3.Select(self._dmap(st, d.key, d.val)[1], d.ref)

    def new_dict(self, kt: Ty, vt: Ty, st: State, items: Sequence[Tuple[V, V]] = (), default: bool = False) -> Tuple[VDict, State]:
        ref, st = self.alloc(st)
        d = VDict(kt, vt, ref, default)
        kd, dom = self._ddom(st, kt)
        inner_dom = z3.K(sort_of(kt), z3.BoolVal(False))
        km, mp = self._dmap(st, kt, vt)
        inner = z3.Select(mp, ref)
        for k, v in items:
            inner_dom = z3.Store(inner_dom, to_term(k, kt), z3.BoolVal(True))
            inner = z3.Store(inner, to_term(k, kt), to_term(v, vt))
        st = st.hset(kd, z3.Store(dom, ref, inner_dom))
        st = st.hset(km, z3.Store(mp, ref, inner))
        return d, st

    def dict_read(self, d: VDict, k: V, st: State) -> Tuple[V, State]:
        v = from_term(z3.Select(self.dict_map(d, st), to_term(k, d.key)), d.val, self)
        if isinstance(v, (VRef, VEnum, VUnion)):
            st = st.assume(self.type_constraint(v))
        if isinstance(v, (VList, VDict)):
            st = st.assume(self.term_of(v) < st.alloc_ptr())
        return v, st

    def dict_write(self, d: VDict, k: V, v: V, st: State) -> State:
        kt = to_term(k, d.key)
        kd, dom = self._ddom(st, d.key)
        st = st.hset(kd, z3.Store(dom, d.ref, z3.Store(z3.Select(dom, d.ref), kt, z3.BoolVal(True))))
        km, mp = self._dmap(st, d.key, d.val)
        return st.hset(km, z3.Store(mp, d.ref, z3.Store(z3.Select(mp, d.ref), kt, to_term(v, d.val))))

    def _concrete_int(self, term: Any, st: State) -> Optional[int]:
        term = z3.simplify(term)
        if z3.is_int_value(term):
            return term.as_long()
        # ask the path condition
        s = z3.Solver()
        s.set("timeout", 8000)
        s.add(*st.pc)
        if s.check() != z3.sat:
            return None
        val = s.model().eval(term, model_completion=True)
        if not z3.is_int_value(val):
            return None
        s.add(term != val)
        if s.check() == z3.unsat:
            return val.as_long()
        return None

    def contains(self, coll: V, x: V, st: State) -> VBool:
        if isinstance(coll, VSet):
            return coll.contains(x)
        if isinstance(coll, VTuple):
            return VBool(z3.Or([veq(x, e).term for e in coll.items]) if coll.items else z3.BoolVal(False))
        if isinstance(coll, VList):
            if coll.view == "bag":
                return VBool(z3.Select(self.list_bag(coll, st), to_term(x, coll.elem)) > 0)
            n = self.known_len(coll, st)
            _, el = self._elem_arr(st, coll.elem)
            inner = z3.Select(el, coll.ref)
            xt = to_term(x, coll.elem)
            if n is not None:
                return VBool(z3.Or([z3.Select(inner, i) == xt for i in range(n)]) if n else z3.BoolVal(False))
            j = z3.Int(fresh_name("j"))
            ln = z3.Select(self._len_arr(st), coll.ref)
            return VBool(z3.Exists([j], z3.And(j >= 0, j < ln, z3.Select(inner, j) == xt)))
        if isinstance(coll, VDict):
            return VBool(z3.Select(self.dict_dom(coll, st), to_term(x, coll.key)))
        if isinstance(coll, VPy) and isinstance(coll.obj, dict):
            key = self.concrete(x)
            return VBool(key in coll.obj)
        raise Unsupported(f"`in` on {coll!r}")

    def concrete(self, v: V) -> Any:
        """Python value of a syntactically concrete symbolic value (else Unsupported)."""
        if isinstance(v, VPy):
            return v.obj
        if isinstance(v, VNone):
            return None
        if isinstance(v, VClass) and v.pycls is not None:
            return v.pycls
        if isinstance(v, VTuple):
            return tuple(self.concrete(i) for i in v.items)
        if isinstance(v, VEnum):
            t = z3.simplify(v.term)
            if z3.is_int_value(t):
                for m in v.cls:
                    if m.value == t.as_long():
                        return m
        if isinstance(v, (VInt, VBool, VStr)):
            t = z3.simplify(v.term)
            if z3.is_int_value(t):
                return t.as_long()
            if z3.is_true(t):
                return True
            if z3.is_false(t):
                return False
            if z3.is_string_value(t):
                return t.as_string()
        raise Unsupported(f"value {v!r} is not concrete")

    def is_concrete(self, v: V) -> bool:
        try:
            self.concrete(v)
            return True
        except Unsupported:
            return False

    # ---------------------------------------------------------------------------------------------
    # isinstance
    # ---------------------------------------------------------------------------------------------
    def isinstance_v(self, x: V, classes: Sequence[Any]) -> VBool:
        parts = []
        for c in classes:
            parts.append(self._isinstance1(x, c))
        return VBool(z3.Or([p.term for p in parts]) if len(parts) != 1 else parts[0].term)

    def _isinstance1(self, x: V, c: Any) -> VBool:
        if isinstance(c, VClass):
            if c.pycls is not None:
                c = c.pycls
            else:
                # symbolic class: isinstance(x, C)  <=>  C's interval contains typeof(x); needs lo/hi functions
                if not isinstance(x, VRef):
                    return VBool(False)
                return VBool(z3.And(CLS_LO(c.term) <= TYPEOF(x.term), TYPEOF(x.term) < CLS_HI(c.term)))
        if isinstance(x, VUnion):
            return VBool(z3.Or([z3.And(g, self._isinstance1(v, c).term) for g, v in x.alts]))
        if c is int:
            return VBool(isinstance(x, (VInt, VBool)))
        if c is str:
            return VBool(isinstance(x, VStr))
        if c is bool:
            return VBool(isinstance(x, VBool))
        if c is type(None):
            return VBool(isinstance(x, VNone))
        if isinstance(x, VRef):
            if c not in self.ct.lo:
                return VBool(False)
            if self.ct.is_sub(x.cls, c):
                return VBool(True)
            if not self.ct.is_sub(c, x.cls):
                return VBool(False)
            return VBool(z3.And(TYPEOF(x.term) >= self.ct.lo[c], TYPEOF(x.term) < self.ct.hi[c]))
        if isinstance(x, VRec):
            return VBool(inspect.isclass(c) and issubclass(x.cls, c))
        if isinstance(x, VEnum):
            return VBool(inspect.isclass(c) and issubclass(x.cls, c))
        if isinstance(x, (VInt, VBool, VStr, VNone, VTuple, VSet, VList)):
            if c in (tuple,):
                return VBool(isinstance(x, VTuple))
            if c in (list,):
                return VBool(isinstance(x, VList))
            if c in (set,):
                return VBool(isinstance(x, VSet))
            return VBool(False)
        raise Unsupported(f"isinstance({x!r}, {c!r})")

    # ---------------------------------------------------------------------------------------------
    # attribute access on references
    # ---------------------------------------------------------------------------------------------
    def field_type(self, definer: type, attr: str) -> Ty:
        key = (definer.__name__, attr)
        over = getattr(getattr(self, "contract", None), "field_types", None)
        if over and key in over:
            return over[key]        # per-contract view of a field (e.g. the value type of the engine's tables in one domain)
        if key in FIELD_TYPES:
            return FIELD_TYPES[key]
        # derive from __init__ annotations
        fi = funcinfo_of(vars(definer)["__init__"], definer)
        import ast
        selfname = fi.argnames[0]
        param_ann = {a.arg: a.annotation for a in fi.node.args.args}
        for n in ast.walk(fi.node):
            if isinstance(n, ast.AnnAssign) and isinstance(n.target, ast.Attribute) and n.target.attr == attr \
                    and isinstance(n.target.value, ast.Name) and n.target.value.id == selfname:
                t = ty_from_ast(n.annotation, fi.globals)
                if t is not None:
                    return t
            if isinstance(n, ast.Assign):
                for tg in n.targets:
                    if isinstance(tg, ast.Attribute) and tg.attr == attr and isinstance(tg.value, ast.Name) \
                            and tg.value.id == selfname and isinstance(n.value, ast.Name) and n.value.id in param_ann:
                        t = ty_from_ast(param_ann[n.value.id], fi.globals)
                        if t is not None:
                            return t
        for n in ast.walk(fi.node):
            if isinstance(n, ast.Assign) and isinstance(n.value, ast.Constant):
                for tg in n.targets:
                    if isinstance(tg, ast.Attribute) and tg.attr == attr and isinstance(tg.value, ast.Name) \
                            and tg.value.id == selfname:
                        cv = n.value.value
                        if isinstance(cv, bool):
                            return T.Bool
                        if isinstance(cv, int):
                            return T.Int
                        if isinstance(cv, str):
                            return T.Str
        raise Unsupported(f"no type known for field {definer.__name__}.{attr} (add it to the schema)")

    def field_key(self, definer: type, attr: str) -> str:
        return f"F:{definer.__name__}.{attr}"

    def read_field(self, ref: VRef, definer: type, attr: str, st: State) -> Tuple[V, State]:
        ty = self.field_type(definer, attr)
        return self._read_typed(self.field_key(definer, attr), ref.term, ty, st)

    def _read_typed(self, key: str, ref_term: Any, ty: Ty, st: State) -> Tuple[V, State]:
        k = ty.kind
        if k == "union":
            # encoded as a tag field plus one field per alternative
            tag = z3.Select(st.harr(key + "#tag", z3.IntSort(), z3.IntSort()), ref_term)
            alts = []
            for i, at in enumerate(ty.alts):
                av, st = self._read_typed(f"{key}#{i}", ref_term, at, st)
                alts.append((tag == i, av))
            st = st.assume(z3.And(tag >= 0, tag < len(ty.alts)))
            return VUnion(alts), st
        if k == "none":
            return VNone(), st
        arr = st.harr(key, z3.IntSort(), sort_of(ty))
        term = z3.Select(arr, ref_term)
        v = from_term(term, ty, self)
        if k in ("ref", "enum"):
            st = st.assume(self.type_constraint(v))
        if k == "refu":
            st = st.assume(term > 0, term < ALLOC0, z3.Or([g for g, _ in v.alts]))
        if k in ("list", "dict"):
            st = st.assume(term < st.alloc_ptr())   # a stored container exists already (never a not-yet-allocated address)
            # the entry heap is closed: a container stored in an object that exists at entry exists at entry too
            h0 = initial_heap_array(key, z3.IntSort(), sort_of(ty))
            tag = ("closed", key)
            if tag not in st.touched:
                st = st.copy()
                st.touched = st.touched + (tag,)
                r_ = z3.Int("r!closed")
                st.pc.append(z3.ForAll([r_], z3.Implies(z3.And(r_ > 0, r_ < ALLOC0), z3.Select(h0, r_) < ALLOC0),
                                       patterns=[z3.Select(h0, r_)]))
        if k == "list":
            st = st.assume(z3.Select(self._len_arr(st), term) >= 0)   # lengths are non-negative
        return v, st

    def write_field(self, ref: VRef, definer: type, attr: str, val: V, st: State) -> State:
        ty = self.field_type(definer, attr)
        return self._write_typed(self.field_key(definer, attr), ref.term, ty, val, st)

    def _write_typed(self, key: str, ref_term: Any, ty: Ty, val: V, st: State) -> State:
        if ty.kind == "union":
            for i, at in enumerate(ty.alts):
                if self._fits(val, at):
                    st = st.hset(key + "#tag", z3.Store(st.harr(key + "#tag", z3.IntSort(), z3.IntSort()), ref_term, i))
                    if at.kind != "none":
                        st = self._write_typed(f"{key}#{i}", ref_term, at, val, st)
                    return st
            raise Unsupported(f"value {val!r} fits no alternative of {ty!r}")
        arr = st.harr(key, z3.IntSort(), sort_of(ty))
        return st.hset(key, z3.Store(arr, ref_term, to_term(val, ty)))

    def _fits(self, v: V, ty: Ty) -> bool:
        k = ty.kind
        return ((k == "none" and isinstance(v, VNone)) or (k == "int" and isinstance(v, VInt))
                or (k == "str" and isinstance(v, VStr)) or (k == "bool" and isinstance(v, VBool))
                or (k == "ref" and isinstance(v, VRef)) or (k == "enum" and isinstance(v, VEnum))
                or (k == "list" and isinstance(v, VList)) or (k == "rec" and isinstance(v, VRec))
                or (k == "dict" and isinstance(v, VDict))
                or (k == "set" and isinstance(v, VSet)))

    def touch(self, ref: VRef, st: State) -> State:
        """Instantiate the class axioms of `ref` (once per path and term)."""
        key = (ref.cls.__name__, ref.term.get_id())
        if key in st.touched:
            return st
        st = st.copy()
        st.touched = st.touched + (key,)
        for k in ref.cls.__mro__:
            for fn in ON_TOUCH.get(k.__name__, []):
                st.pc.extend(fn(self, st, ref))
        return st

    def contract_getattr(self, ref: VRef, name: str) -> Any:
        """Attribute access inside contract clauses: fields and trivial properties only (no forking)."""
        from .dsl import current
        ctx = current()
        for k in ref.cls.__mro__:
            if (k.__name__, name) in NAMED_PROPS:
                v, st2 = self._read_typed(f"V:{k.__name__}.{name}", ref.term, NAMED_PROPS[(k.__name__, name)], ctx.st)
                ctx.st.pc[:] = st2.pc
                return v
        outs = list(self.getattr_v(ref, name, ctx.st))
        if len(outs) != 1:
            raise Unsupported(f"attribute {name} forks inside a contract clause")
        v, st2 = outs[0]
        # keep assumptions produced by the read (typing, axioms)
        ctx.st.pc[:] = st2.pc
        ctx.st.touched = st2.touched
        return v

    def getattr_v(self, obj: V, name: str, st: State) -> Iterator[Tuple[V, State]]:
        raise NotImplementedError


CLS_LO = z3.Function("cls_lo", z3.IntSort(), z3.IntSort())
CLS_HI = z3.Function("cls_hi", z3.IntSort(), z3.IntSort())


def _term_of_refu(self, x):
    from .values import TRefU
    return to_term(x, TRefU())


ExecBase.term_of_refu = _term_of_refu
