"""Native (run-time) evaluation of a sidecar contract around the real function: the bounded stand-in form of a contract
(DESIGN.md §4).  The same clause text that is proved symbolically is evaluated here on real objects."""
from __future__ import annotations

from typing import Any, Dict, List, Optional, Tuple

from .loader import lookup, materialize


def native_check(contract: Any, args: Dict[str, Any], ghost: Optional[Dict[str, Any]] = None) -> Tuple[str, List[str], Any]:
    """returns (status, failed clause labels, result); status: 'skip' (requires false), 'ok', 'fail', 'raised:<exc>'"""
    fi = lookup(contract.target)
    ns = dict(args)
    ns.update(ghost or {})
    for cl in contract.requires:
        try:
            if not bool(cl.fn(*[ns[a] for a in cl.argnames])):
                return "skip", [cl.label], None
        except Exception as e:
            return "skip", [f"{cl.label}: {type(e).__name__}"], None
    try:
        res = materialize(fi)(*[args[a] for a in fi.argnames])
    except Exception as e:
        allowed = {r[0] for r in contract.raises}
        if type(e).__name__ in allowed:
            return "ok", [], None
        return f"raised:{type(e).__name__}: {e}", [], None
    ns["result"] = res
    failed = []
    for cl in contract.ensures:
        try:
            if not bool(cl.fn(*[ns[a] for a in cl.argnames])):
                failed.append(cl.label)
        except Exception as e:
            failed.append(f"{cl.label}: {type(e).__name__}: {e}")
    return ("fail" if failed else "ok"), failed, res
