"""Type expressions and symbolic values of pyvc (see DESIGN.md §2.2).

Symbolic values overload Python operators so that contract clauses (plain Python lambdas in the sidecar
files) can be evaluated both symbolically (on V objects, giving z3 terms) and natively (on the real
objects, for replay and bounded stand-ins).  `and`/`or`/`not` cannot be overloaded: contracts use the
polymorphic helpers of pyvc.dsl (And, Or, Not, Implies, If, forall, exists ...).
"""
from __future__ import annotations

import itertools
from typing import Any, Callable, Dict, List, Optional, Sequence, Tuple

import z3

# ------------------------------------------------------------------------------------------------
# type expressions
# ------------------------------------------------------------------------------------------------


class Ty:
    kind = "?"

    def __repr__(self) -> str:
        return self.kind


class _Simple(Ty):
    def __init__(self, kind: str):
        self.kind = kind


class TRef(Ty):
    kind = "ref"

    def __init__(self, cls: Any):
        self.cls = cls  # python class or class name (resolved lazily)

    def __repr__(self) -> str:
        return f"Ref({getattr(self.cls, '__name__', self.cls)})"


class TRec(Ty):
    kind = "rec"

    def __init__(self, cls: Any):
        self.cls = cls

    def __repr__(self) -> str:
        return f"Rec({getattr(self.cls, '__name__', self.cls)})"


class TEnum(Ty):
    kind = "enum"

    def __init__(self, cls: Any):
        self.cls = cls

    def __repr__(self) -> str:
        return f"Enum({getattr(self.cls, '__name__', self.cls)})"


class TOpt(Ty):
    kind = "union"

    def __init__(self, *alts: Ty):
        self.alts = list(alts)

    def __repr__(self) -> str:
        return "Union(" + ",".join(map(repr, self.alts)) + ")"


class TRefU(Ty):
    """Reference to an instance of one of several unrelated classes (e.g. Known|UnknownStackValue): one address term,
    the alternative is decided by typeof."""
    kind = "refu"

    def __init__(self, *classes: Any):
        self.classes = list(classes)

    def __repr__(self) -> str:
        return "RefU(" + ",".join(getattr(c, "__name__", str(c)) for c in self.classes) + ")"


class TTuple(Ty):
    kind = "tuple"

    def __init__(self, *items: Ty):
        self.items = list(items)

    def __repr__(self) -> str:
        return "Tuple(" + ",".join(map(repr, self.items)) + ")"


class TSet(Ty):
    kind = "set"

    def __init__(self, elem: Ty):
        self.elem = elem

    def __repr__(self) -> str:
        return f"Set({self.elem!r})"


class TList(Ty):
    kind = "list"

    def __init__(self, elem: Ty, view: str = "seq"):
        self.elem = elem
        self.view = view

    def __repr__(self) -> str:
        return f"List[{self.view}]({self.elem!r})"


class TDict(Ty):
    kind = "dict"

    def __init__(self, key: Ty, val: Ty, default: bool = False):
        self.key = key
        self.val = val
        self.default = default   # collections.defaultdict(dict): a missing key is created with an empty dict on read

    def __repr__(self) -> str:
        return f"Dict({self.key!r},{self.val!r})"


class TCls(Ty):
    kind = "cls"

    def __init__(self, base: Any):
        self.base = base


class TAbs(Ty):
    """Value of an uninterpreted sort (abstract-domain element, concrete field value, visit ...)."""
    kind = "abs"

    def __init__(self, sort_name: str):
        self.sort_name = sort_name

    def __repr__(self) -> str:
        return f"Abs({self.sort_name})"


class TCallable(Ty):
    kind = "callable"

    def __init__(self, args: Sequence[Ty], ret: Ty, name: str = ""):
        self.args = list(args)
        self.ret = ret
        self.name = name


class T:
    Int = _Simple("int")
    Bool = _Simple("bool")
    Str = _Simple("str")
    NoneT = _Simple("none")
    Any = _Simple("any")
    Ref = TRef
    RefU = TRefU
    Rec = TRec
    Enum = TEnum
    Tuple = TTuple
    Set = TSet
    List = TList
    Dict = TDict
    Cls = TCls
    Abs = TAbs
    Callable = TCallable

    @staticmethod
    def Opt(t: Ty) -> Ty:
        return TOpt(t, T.NoneT)

    @staticmethod
    def Union(*alts: Ty) -> Ty:
        return TOpt(*alts)


_abs_sorts: Dict[str, z3.SortRef] = {}


def abs_sort(name: str) -> z3.SortRef:
    if name not in _abs_sorts:
        _abs_sorts[name] = z3.DeclareSort(name)
    return _abs_sorts[name]


_rec_sorts: Dict[Any, Any] = {}


def rec_sort(cls: type) -> Tuple[Any, Any, List[Tuple[str, Ty, Any]]]:
    """z3 tuple datatype for a dataclass (used only when records live inside containers)."""
    from .typing_hints import dataclass_field_types
    if cls not in _rec_sorts:
        fts = dataclass_field_types(cls)
        dt = z3.Datatype(f"Rec_{cls.__name__}")
        dt.declare(f"mk_{cls.__name__}", *[(f"{cls.__name__}__{n}", sort_of(t)) for n, t in fts])
        s = dt.create()
        ctor = s.constructor(0)
        accs = [(n, t, s.accessor(0, i)) for i, (n, t) in enumerate(fts)]
        _rec_sorts[cls] = (s, ctor, accs)
    return _rec_sorts[cls]


_tuple_sorts: Dict[str, Any] = {}


def tuple_sort(items: Sequence[Ty]) -> Any:
    key = ",".join(str(sort_of(t)) for t in items)
    if key not in _tuple_sorts:
        n = len(_tuple_sorts)
        dt = z3.Datatype(f"Tup{n}")
        dt.declare(f"mk_tup{n}", *[(f"tup{n}_{i}", sort_of(t)) for i, t in enumerate(items)])
        _tuple_sorts[key] = dt.create()
    return _tuple_sorts[key]


def sort_of(t: Ty) -> z3.SortRef:
    k = t.kind
    if k in ("int", "ref", "enum", "cls", "list", "refu", "dict"):
        return z3.IntSort()
    if k == "bool":
        return z3.BoolSort()
    if k == "str":
        return z3.StringSort()
    if k == "abs":
        return abs_sort(t.sort_name)
    if k == "rec":
        return rec_sort(_resolve_cls(t.cls))[0]
    if k == "set":
        return z3.ArraySort(sort_of(t.elem), z3.BoolSort())
    if k == "tuple":
        return tuple_sort(t.items)
    if k == "union":
        # only Optional[X] with X int-like is stored in containers: encoded by the caller
        raise Unsupported(f"no container sort for {t!r}")
    raise Unsupported(f"no sort for type {t!r}")


def _resolve_cls(c: Any) -> type:
    if isinstance(c, str):
        from .loader import class_table
        return class_table().cls(c)
    return c


class Unsupported(Exception):
    """Construct outside the accepted subset: the function is *undecided*, never passed or failed."""


# ------------------------------------------------------------------------------------------------
# symbolic values
# ------------------------------------------------------------------------------------------------

_fresh_counter = itertools.count()


def fresh_name(prefix: str) -> str:
    return f"{prefix}!{next(_fresh_counter)}"


def _b(x: Any) -> z3.BoolRef:
    if isinstance(x, VBool):
        return x.term
    if isinstance(x, bool):
        return z3.BoolVal(x)
    if isinstance(x, z3.BoolRef):
        return x
    if isinstance(x, VUnion):
        return x.truthy().term
    if isinstance(x, V):
        return x.truthy().term
    raise Unsupported(f"not a boolean: {x!r}")


def _i(x: Any) -> z3.ArithRef:
    if isinstance(x, VInt):
        return x.term
    if isinstance(x, bool):
        return z3.IntVal(1 if x else 0)
    if isinstance(x, int):
        return z3.IntVal(x)
    if isinstance(x, VBool):
        return z3.If(x.term, z3.IntVal(1), z3.IntVal(0))
    if isinstance(x, z3.ArithRef):
        return x
    raise Unsupported(f"not an integer: {x!r}")


class V:
    ty: Ty = T.Any

    def truthy(self) -> "VBool":
        raise Unsupported(f"truth value of {self!r}")

    def __bool__(self) -> bool:
        raise Unsupported(f"Python-level truth test on symbolic value {self!r}: use pyvc.dsl helpers")

    def eq(self, other: Any) -> "VBool":
        raise Unsupported(f"== on {self!r}")

    def __eq__(self, other: Any) -> "VBool":  # type: ignore[override]
        return veq(self, other)

    def __ne__(self, other: Any) -> "VBool":  # type: ignore[override]
        return VBool(z3.Not(veq(self, other).term))

    def __hash__(self) -> int:
        return id(self)


class VNone(V):
    ty = T.NoneT

    def truthy(self) -> "VBool":
        return VBool(z3.BoolVal(False))

    def __repr__(self) -> str:
        return "VNone"


class VBool(V):
    ty = T.Bool

    def __init__(self, term: Any):
        self.term = z3.BoolVal(term) if isinstance(term, bool) else term

    def truthy(self) -> "VBool":
        return self

    def __and__(self, o: Any) -> "VBool":
        return VBool(z3.And(self.term, _b(o)))

    __rand__ = __and__

    def __or__(self, o: Any) -> "VBool":
        return VBool(z3.Or(self.term, _b(o)))

    __ror__ = __or__

    def __invert__(self) -> "VBool":
        return VBool(z3.Not(self.term))

    def __repr__(self) -> str:
        return f"VBool({self.term})"


class VInt(V):
    ty = T.Int

    def __init__(self, term: Any):
        self.term = z3.IntVal(term) if isinstance(term, int) else term

    def truthy(self) -> VBool:
        return VBool(self.term != 0)

    def __add__(self, o: Any) -> "VInt":
        return VInt(self.term + _i(o))

    __radd__ = __add__

    def __sub__(self, o: Any) -> "VInt":
        return VInt(self.term - _i(o))

    def __rsub__(self, o: Any) -> "VInt":
        return VInt(_i(o) - self.term)

    def __mul__(self, o: Any) -> "VInt":
        return VInt(self.term * _i(o))

    __rmul__ = __mul__

    def __neg__(self) -> "VInt":
        return VInt(-self.term)

    def __lt__(self, o: Any) -> VBool:
        return VBool(self.term < _i(o))

    def __le__(self, o: Any) -> VBool:
        return VBool(self.term <= _i(o))

    def __gt__(self, o: Any) -> VBool:
        return VBool(self.term > _i(o))

    def __ge__(self, o: Any) -> VBool:
        return VBool(self.term >= _i(o))

    def __lshift__(self, o: Any) -> "VInt":
        if isinstance(o, int):
            return VInt(self.term * (1 << o))
        raise Unsupported("<< with symbolic shift")

    def __repr__(self) -> str:
        return f"VInt({self.term})"

    __hash__ = V.__hash__


class VStr(V):
    ty = T.Str

    def __init__(self, term: Any):
        self.term = z3.StringVal(term) if isinstance(term, str) else term

    def truthy(self) -> VBool:
        return VBool(z3.Length(self.term) > 0)

    def __add__(self, o: Any) -> "VStr":
        return VStr(z3.Concat(self.term, _s(o)))

    def __radd__(self, o: Any) -> "VStr":
        return VStr(z3.Concat(_s(o), self.term))

    def startswith(self, p: Any) -> VBool:
        return VBool(z3.PrefixOf(_s(p), self.term))

    def __repr__(self) -> str:
        return f"VStr({self.term})"

    __hash__ = V.__hash__


def _s(x: Any) -> Any:
    if isinstance(x, VStr):
        return x.term
    if isinstance(x, str):
        return z3.StringVal(x)
    raise Unsupported(f"not a string: {x!r}")


class VTuple(V):
    def __init__(self, items: Sequence[V]):
        self.items = list(items)
        self.ty = TTuple(*[getattr(i, "ty", T.Any) for i in self.items])

    def truthy(self) -> VBool:
        return VBool(len(self.items) > 0)

    def __getitem__(self, i: int) -> V:
        return self.items[i]

    def __len__(self) -> int:
        return len(self.items)

    def __iter__(self):
        return iter(self.items)

    def __repr__(self) -> str:
        return f"VTuple{tuple(self.items)!r}"


class VRef(V):
    """Object with identity.  term: z3 Int (address); cls: static upper bound (python class)."""

    def __init__(self, term: Any, cls: type, ex: Any = None):
        self.term = term
        self.cls = cls
        self.ty = TRef(cls)
        self._ex = ex  # executor, for attribute access in contracts

    def truthy(self) -> VBool:
        return VBool(True)

    def __getattr__(self, name: str) -> Any:
        if name.startswith("__"):
            raise AttributeError(name)
        ex = object.__getattribute__(self, "_ex")
        if ex is None:
            raise Unsupported(f"attribute {name} of {self!r} outside an executor context")
        return ex.contract_getattr(self, name)

    def __repr__(self) -> str:
        return f"VRef<{self.cls.__name__}>({self.term})"


class VRec(V):
    def __init__(self, cls: type, fields: Dict[str, V]):
        object.__setattr__(self, "cls", cls)
        object.__setattr__(self, "fields", dict(fields))
        object.__setattr__(self, "ty", TRec(cls))

    def truthy(self) -> VBool:
        return VBool(True)

    def __getattr__(self, name: str) -> Any:
        f = object.__getattribute__(self, "fields")
        if name in f:
            return f[name]
        raise AttributeError(name)

    def __repr__(self) -> str:
        return f"VRec<{self.cls.__name__}>({self.fields})"


class VEnum(V):
    def __init__(self, cls: type, term: Any):
        self.cls = cls
        self.term = z3.IntVal(term) if isinstance(term, int) else term
        self.ty = TEnum(cls)

    def truthy(self) -> VBool:
        return VBool(True)

    @property
    def value(self) -> VInt:
        return VInt(self.term)

    def __repr__(self) -> str:
        return f"VEnum<{self.cls.__name__}>({self.term})"


class VSet(V):
    def __init__(self, elem: Ty, term: Any):
        self.elem = elem
        self.term = term
        self.ty = TSet(elem)

    def contains(self, x: Any) -> VBool:
        return VBool(z3.Select(self.term, to_term(x, self.elem)))

    def truthy(self) -> VBool:
        e = z3.K(sort_of(self.elem), z3.BoolVal(False))
        return VBool(self.term != e)

    def __or__(self, o: "VSet") -> "VSet":
        return VSet(self.elem, z3.SetUnion(self.term, o.term))

    def __and__(self, o: "VSet") -> "VSet":
        return VSet(self.elem, z3.SetIntersect(self.term, o.term))

    def __sub__(self, o: "VSet") -> "VSet":
        return VSet(self.elem, z3.SetDifference(self.term, o.term))

    def __repr__(self) -> str:
        return f"VSet[{self.elem!r}]({self.term})"


class VList(V):
    """A list object: `ref` is its address; contents live in the executor state's heap (len/elem or bag)."""

    def __init__(self, elem: Ty, view: str, ref: Any):
        self.elem = elem
        self.view = view
        self.ref = ref
        self.ty = TList(elem, view)

    def __getitem__(self, i: Any) -> V:
        from .dsl import current
        ctx = current()
        return ctx.ex.list_get(self, i, ctx.st)

    def length(self) -> "VInt":
        from .dsl import current
        ctx = current()
        return ctx.ex.list_len(self, ctx.st)

    def __repr__(self) -> str:
        return f"VList[{self.view},{self.elem!r}]@{self.ref}"


class VDict(V):
    """A dict object: `ref` is its address; contents (map + domain) live in the executor state's heap."""

    def __init__(self, key: Ty, val: Ty, ref: Any, default: bool = False):
        self.key = key
        self.val = val
        self.ref = ref
        self.default = default
        self.ty = TDict(key, val, default)

    def __repr__(self) -> str:
        return f"VDict[{self.key!r}->{self.val!r}]@{self.ref}"


class VUnion(V):
    """Guarded alternatives; exactly one guard holds (asserted where the union is created)."""

    def __init__(self, alts: Sequence[Tuple[Any, V]]):
        self.alts = list(alts)
        self.ty = TOpt(*[getattr(v, "ty", T.Any) for _, v in self.alts])

    def truthy(self) -> VBool:
        return VBool(z3.Or([z3.And(g, v.truthy().term) for g, v in self.alts]))

    def guard_of(self, pred: Callable[[V], bool]) -> Any:
        gs = [g for g, v in self.alts if pred(v)]
        return z3.Or(gs) if gs else z3.BoolVal(False)

    def is_none(self) -> VBool:
        return VBool(self.guard_of(lambda v: isinstance(v, VNone)))

    def is_int(self) -> VBool:
        return VBool(self.guard_of(lambda v: isinstance(v, VInt)))

    def is_str(self) -> VBool:
        return VBool(self.guard_of(lambda v: isinstance(v, VStr)))

    def as_int(self) -> VInt:
        for g, v in self.alts:
            if isinstance(v, VInt):
                return v
        raise Unsupported("union has no int alternative")

    def as_str(self) -> VStr:
        for g, v in self.alts:
            if isinstance(v, VStr):
                return v
        raise Unsupported("union has no str alternative")

    def __repr__(self) -> str:
        return f"VUnion({self.alts})"


class VClass(V):
    """A class object. Concrete (`pycls`) or symbolic (`term` = class id, subclass of `base`)."""

    def __init__(self, pycls: Optional[type] = None, term: Any = None, base: Optional[type] = None):
        self.pycls = pycls
        self.term = term
        self.base = base if base is not None else pycls

    def truthy(self) -> VBool:
        return VBool(True)

    def __repr__(self) -> str:
        return f"VClass({self.pycls.__name__ if self.pycls else self.term})"


class VAbs(V):
    def __init__(self, sort_name: str, term: Any):
        self.sort_name = sort_name
        self.term = term
        self.ty = TAbs(sort_name)

    def __repr__(self) -> str:
        return f"VAbs<{self.sort_name}>({self.term})"


class VPy(V):
    """Opaque concrete Python object (module, builtin ...)."""

    def __init__(self, obj: Any):
        self.obj = obj

    def truthy(self) -> VBool:
        return VBool(bool(self.obj))

    def __repr__(self) -> str:
        return f"VPy({self.obj!r})"


class VFunc(V):
    """Callable: repo function (fi), bound method (fi + self), builtin (pyobj), closure (fi + env), spec (callable)."""

    def __init__(self, kind: str, fi: Any = None, self_val: Optional[V] = None, pyobj: Any = None,
                 env: Optional[Dict[str, Any]] = None, name: str = "", sym: Any = None):
        self.kind = kind
        self.fi = fi
        self.self_val = self_val
        self.pyobj = pyobj
        self.env = env
        self.name = name
        self.sym = sym

    def truthy(self) -> VBool:
        return VBool(True)

    def __repr__(self) -> str:
        return f"VFunc({self.kind},{self.name or (self.fi.qualname if self.fi else self.pyobj)})"


# ------------------------------------------------------------------------------------------------
# conversions value <-> z3 term of the container sort
# ------------------------------------------------------------------------------------------------

def to_term(x: Any, t: Ty) -> Any:
    k = t.kind
    if k == "int":
        return _i(x)
    if k == "bool":
        return _b(x)
    if k == "str":
        return _s(x)
    if k == "ref":
        if isinstance(x, VRef):
            return x.term
    if k == "refu":
        if isinstance(x, VRef):
            return x.term
        if isinstance(x, VUnion):
            alts = [(g, v) for g, v in x.alts if isinstance(v, VRef)]
            if len(alts) == len(x.alts) and alts:
                t = alts[-1][1].term
                for g, v in reversed(alts[:-1]):
                    t = z3.If(g, v.term, t)
                return t
    if k == "enum":
        if isinstance(x, VEnum):
            return x.term
        import enum
        if isinstance(x, enum.Enum):
            return z3.IntVal(x.value)
    if k == "cls":
        if isinstance(x, VClass):
            if x.pycls is not None:
                from .loader import class_table
                return z3.IntVal(class_table().lo[x.pycls])
            return x.term
    if k == "abs":
        if isinstance(x, VAbs):
            return x.term
    if k == "set":
        if isinstance(x, VSet):
            return x.term
    if k == "list":
        if isinstance(x, VList):
            return x.ref
    if k == "rec":
        if isinstance(x, VRec):
            s, ctor, accs = rec_sort(_resolve_cls(t.cls))
            return ctor(*[to_term(x.fields[n], ft) for n, ft, _ in accs])
    if k == "tuple":
        if isinstance(x, VTuple):
            s = tuple_sort(t.items)
            return s.constructor(0)(*[to_term(v, it) for v, it in zip(x.items, t.items)])
    if k == "dict":
        if isinstance(x, VDict):
            return x.ref
    raise Unsupported(f"cannot convert {x!r} to a term of type {t!r}")


def from_term(term: Any, t: Ty, ex: Any = None) -> V:
    k = t.kind
    if k == "int":
        return VInt(term)
    if k == "bool":
        return VBool(term)
    if k == "str":
        return VStr(term)
    if k == "ref":
        return VRef(term, _resolve_cls(t.cls), ex)
    if k == "refu":
        from .execbase import TYPEOF
        from .loader import class_table
        ct = class_table()
        alts = []
        for c in t.classes:
            c = _resolve_cls(c)
            alts.append((z3.And(TYPEOF(term) >= ct.lo[c], TYPEOF(term) < ct.hi[c]), VRef(term, c, ex)))
        return VUnion(alts)
    if k == "enum":
        return VEnum(_resolve_cls(t.cls), term)
    if k == "abs":
        return VAbs(t.sort_name, term)
    if k == "set":
        return VSet(t.elem, term)
    if k == "list":
        return VList(t.elem, t.view, term)
    if k == "dict":
        return VDict(t.key, t.val, term, getattr(t, "default", False))
    if k == "cls":
        return VClass(None, term, _resolve_cls(t.base))
    if k == "rec":
        s, ctor, accs = rec_sort(_resolve_cls(t.cls))
        return VRec(_resolve_cls(t.cls), {n: from_term(acc(term), ft, ex) for n, ft, acc in accs})
    if k == "tuple":
        s = tuple_sort(t.items)
        return VTuple([from_term(s.accessor(0, i)(term), it, ex) for i, it in enumerate(t.items)])
    raise Unsupported(f"cannot read a value of type {t!r} from a term")


def veq(a: Any, b: Any) -> VBool:
    """Python `==` on symbolic values (structural for values, identity for references)."""
    import enum
    if isinstance(a, VUnion) or isinstance(b, VUnion):
        if not isinstance(a, VUnion):
            a, b = b, a
        parts = []
        for g, v in a.alts:
            if isinstance(b, VUnion):
                for g2, v2 in b.alts:
                    parts.append(z3.And(g, g2, veq(v, v2).term))
            else:
                parts.append(z3.And(g, veq(v, b).term))
        return VBool(z3.Or(parts) if parts else z3.BoolVal(False))
    if isinstance(a, VNone) or a is None:
        return VBool(isinstance(b, VNone) or b is None)
    if isinstance(b, VNone) or b is None:
        return VBool(False)
    if isinstance(a, (VInt, VBool)) or isinstance(a, (int, bool)):
        if isinstance(b, (VInt, VBool, int, bool)):
            if isinstance(a, (VBool, bool)) and isinstance(b, (VBool, bool)):
                return VBool(_b(a) == _b(b))
            return VBool(_i(a) == _i(b))
        return VBool(False)
    if isinstance(a, (VStr, str)):
        if isinstance(b, (VStr, str)):
            return VBool(_s(a) == _s(b))
        return VBool(False)
    if isinstance(a, VEnum) or isinstance(a, enum.Enum):
        if isinstance(b, (VEnum, enum.Enum)):
            return VBool(to_term(a, T.Enum(object)) == to_term(b, T.Enum(object)))
        return VBool(False)
    if isinstance(a, VRef):
        if isinstance(b, VRef):
            return VBool(a.term == b.term)
        return VBool(False)
    if isinstance(a, VClass):
        if isinstance(b, VClass):
            return VBool(to_term(a, TCls(object)) == to_term(b, TCls(object)))
        return VBool(False)
    if isinstance(a, VRec):
        if isinstance(b, VRec) and a.cls is b.cls:
            return VBool(z3.And([veq(a.fields[n], b.fields[n]).term for n in a.fields]))
        return VBool(False)
    if isinstance(a, VTuple):
        if isinstance(b, VTuple) and len(a.items) == len(b.items):
            return VBool(z3.And([veq(x, y).term for x, y in zip(a.items, b.items)]) if a.items else z3.BoolVal(True))
        return VBool(False)
    if isinstance(a, VSet):
        if isinstance(b, VSet):
            return VBool(a.term == b.term)
        return VBool(False)
    if isinstance(a, VAbs):
        if isinstance(b, VAbs) and a.sort_name == b.sort_name:
            return VBool(a.term == b.term)
        return VBool(False)
    if isinstance(a, VList):
        raise Unsupported("== on lists")
    raise Unsupported(f"== between {a!r} and {b!r}")
