"""Self-test of /verif/spec/avm.py (hand-checked cases) and /verif/bounded/gen.py (smoke test).

Run:  /verif/.venv/bin/python /verif/bounded/test_avm_gen.py [limit]
"""

from __future__ import annotations

import base64
import collections
import hashlib
import os
import sys

sys.path.insert(0, os.path.dirname(os.path.dirname(os.path.abspath(__file__))))
from spec import avm  # noqa: E402
from bounded import gen  # noqa: E402

FAILS = []


def check(name: str, got, want) -> None:
    if got != want:
        FAILS.append(name)
        print(f"FAIL {name}: got {got!r}, want {want!r}")


def run(src: str, group=None, idx: int = 0, **kw) -> avm.RunResult:
    return avm.run(avm.parse(src), group or avm.Group([avm.Txn()]), idx, **kw)


def interpreter_cases() -> None:
    # 1. operand order: `A B <` is A < B with A pushed first
    check("lt-true", run("int 1\nint 2\n<").accepted, True)
    check("lt-false", run("int 2\nint 1\n<").accepted, False)
    check("ge-order", run("int 1000\ntxn Fee\n>=", avm.Group([avm.Txn(Fee=1001)])).accepted, False)
    check("ge-order2", run("int 1000\ntxn Fee\n>=", avm.Group([avm.Txn(Fee=1000)])).accepted, True)
    # 2. gtxn beyond the group fails; inside it reads that member
    check("gtxn-beyond", run("#pragma version 3\ngtxn 1 Fee\npop\nint 1").accepted, False)
    two = avm.Group([avm.Txn(Fee=5), avm.Txn(Fee=7)])
    check("gtxn-ok", run("gtxn 1 Fee\nint 7\n==", two).accepted, True)
    check("gtxns-beyond", run("#pragma version 3\nint 2\ngtxns Fee\npop\nint 1", two).accepted, False)
    check("gtxns-rel", run("#pragma version 3\ntxn GroupIndex\nint 1\n-\ngtxns Fee\nint 5\n==", two, 1).accepted, True)
    check("gtxns-rel-underflow", run("#pragma version 3\ntxn GroupIndex\nint 1\n-\ngtxns Fee\nint 5\n==", two, 0).reason,
          "- would result negative")
    check("groupindex", run("gtxn 1 GroupIndex\ntxn GroupIndex\n==", two, 1).accepted, True)
    # 3. callsub / retsub, trace and blocks
    src = "#pragma version 4\nint 5\ncallsub f\nint 6\n==\nreturn\nf:\nint 1\n+\nretsub\n"
    res = run(src)
    check("callsub-accept", res.accepted, True)
    check("callsub-lines", res.lines, [1, 2, 3, 7, 8, 9, 10, 4, 5, 6])
    prog = avm.parse(src)
    check("leaders", avm.leaders(prog), [0, 3, 6])
    check("block-trace", avm.block_trace(prog, res), [0, 6, 3])
    check("block-of", avm.block_of(prog)[8], 6)
    check("retsub-empty", run("#pragma version 4\nretsub").reason, "retsub with empty call stack")
    # 4. return inside a subroutine stops the program at once
    src = "#pragma version 4\ncallsub f\nerr\nf:\nint 1\nreturn\n"
    check("return-in-sub", run(src).accepted, True)
    check("return-in-sub-lines", run(src).lines, [1, 2, 4, 5, 6])
    check("return-zero", run("#pragma version 2\nint 7\nint 0\nreturn").accepted, False)
    check("return-ignores-rest", run("#pragma version 2\nint 0\nint 7\nreturn").accepted, True)
    # 5. falling off the end: exactly one non-zero uint64
    check("end-one", run("int 1").accepted, True)
    check("end-zero", run("int 0").accepted, False)
    check("end-two", run("int 1\nint 1").accepted, False)
    check("end-empty", run("int 1\npop").accepted, False)
    check("end-bytes", run('byte "x"').accepted, False)
    # 6. switch: jump to L_i when i < count, else fall through
    sw = "#pragma version 8\nint %d\nswitch a b\nint 10\nreturn\na:\nint 0\nreturn\nb:\nint 1\nreturn\n"
    check("switch-0", run(sw % 0).accepted, False)
    check("switch-1", run(sw % 1).accepted, True)
    check("switch-2", (run(sw % 2).accepted, run(sw % 2).lines[-1]), (True, 5))
    # 7. match: stack [A1 A2 B]; first Ai == B wins; no match falls through; other type no match
    ma = "#pragma version 8\nint 5\nint 6\nint %d\nmatch a b\nint 1\nreturn\na:\nerr\nb:\nint 1\nreturn\n"
    check("match-a", run(ma % 5).reason, "err at line 9")
    check("match-b", run(ma % 6).lines[-1], 12)
    check("match-none", run(ma % 7).lines[-1], 7)
    check("match-type", run('#pragma version 8\nbyte "x"\nint 6\nint 6\nmatch a b\nerr\na:\nerr\nb:\nint 1').accepted, True)
    # 8. arithmetic limits
    check("add-overflow", run("int 0xffffffffffffffff\nint 1\n+\npop\nint 1").reason, "+ overflowed")
    check("add-max", run("int 18446744073709551614\nint 1\n+\nint 18446744073709551615\n==").accepted, True)
    check("sub-underflow", run("int 1\nint 2\n-\npop\nint 1").accepted, False)
    check("div-zero", run("int 1\nint 0\n/").accepted, False)
    check("octal-hex", run("int 010\nint 0x8\n==").accepted, True)
    check("named", run("int appl\nint 6\n==\nint UpdateApplication\nint 4\n==\n&&").accepted, True)
    # 9. types
    check("type-error", run("#pragma version 2\ntxn RekeyTo\nint 1\n+").reason, "type error: + needs uint64")
    check("eq-mixed", run("#pragma version 2\ntxn RekeyTo\nint 1\n==").accepted, False)
    check("zero-addr", run("#pragma version 2\ntxn RekeyTo\nglobal ZeroAddress\n==").accepted, True)
    check("zero-addr-lit", run(f"#pragma version 2\naddr {avm.ZERO_ADDRESS}\nglobal ZeroAddress\n==").accepted, True)
    check("lookalike", run(f"#pragma version 2\naddr {avm.LOOKALIKE_ZERO_ADDRESS}\nglobal ZeroAddress\n==").accepted, False)
    check("creator", run("#pragma version 3\ntxn Sender\nglobal CreatorAddress\n==",
                         avm.Group([avm.Txn(Sender="C")], creator="C")).accepted, True)
    # 10. stack ops
    check("dig", run("#pragma version 3\nint 7\nint 8\ndig 1\nint 7\n==\nassert\npop\npop\nint 1").accepted, True)
    check("cover", run("#pragma version 5\nint 1\nint 2\nint 3\ncover 2\nint 2\n==\nassert\nint 1\n==\nassert\nint 3\n==").accepted, True)
    check("uncover", run("#pragma version 5\nint 1\nint 2\nint 3\nuncover 2\nint 1\n==\nassert\nint 3\n==\nassert\nint 2\n==").accepted, True)
    check("select-1", run("#pragma version 3\nint 10\nint 20\nint 1\nselect\nint 20\n==").accepted, True)
    check("select-0", run("#pragma version 3\nint 10\nint 20\nint 0\nselect\nint 10\n==").accepted, True)
    check("swap", run("#pragma version 3\nint 1\nint 2\nswap\n-").accepted, True)
    check("bury", run("#pragma version 8\nint 1\nint 2\nint 3\nbury 2\npop\nint 3\n==").accepted, True)
    check("scratch", run("load 7\nint 1\n==", unrelated={7: 1}).accepted, True)
    check("scratch0", run("load 7\nint 0\n==").accepted, True)
    check("store-load", run("int 9\nstore 3\nload 3\nint 9\n==").accepted, True)
    check("intc", run("intcblock 5 6 7\nintc_1\nintc 2\n<").accepted, True)
    check("underflow", run("pop\nint 1").reason, "stack underflow")
    # 11. branches and comments
    check("bnz", run("#pragma version 2\nint 1\nbnz ok\nerr\nok: // label\nint 1 // c\n").accepted, True)
    check("bz", run("#pragma version 2\nint 1\nbz bad\nint 1\nreturn\nbad:\nerr").accepted, True)
    check("comment-in-quotes", run('#pragma version 2\nbyte "a//b" // c\nbyte 0x612f2f62\n==').accepted, True)
    check("loop", run("#pragma version 4\nint 0\nstore 1\nl:\nload 1\nint 1\n+\ndup\nstore 1\nint 3\n<\nbnz l\nload 1\nint 3\n==").accepted, True)
    check("call-depth", run("#pragma version 4\nf:\ncallsub f").reason, "call stack overflow")
    check("step-limit", run("#pragma version 4\nl:\nb l").reason, "step limit exceeded")
    # 12. outside the fragment
    for bad in ("#pragma version 8\nproto 1 1", "sha256", "#pragma version 8\nint 1\nframe_dig 0"):
        try:
            run(bad)
            check("unsupported " + bad, "no exception", "Unsupported")
        except avm.Unsupported:
            pass
    try:
        avm.parse("b nowhere")
        check("unknown label", "no exception", "ParseError")
    except avm.ParseError:
        pass
    # block visits: re-entering the same block by a jump is a new visit
    src = "#pragma version 4\nint 0\nstore 1\nl:\nload 1\nint 1\n+\ndup\nstore 1\nint 2\n<\nbnz l\nint 1\n"
    prog = avm.parse(src)
    check("revisit", avm.block_trace(prog, avm.run(prog, avm.Group([avm.Txn()]), 0)), [0, 3, 3, 12])


def address_checks() -> None:
    def encode(pk: bytes) -> str:
        chk = hashlib.new("sha512_256", pk).digest()[-4:]
        return base64.b32encode(pk + chk).decode().rstrip("=")

    try:
        hashlib.new("sha512_256", b"")
    except ValueError:
        print("sha512_256 unavailable: address checksums not re-verified")
        return
    check("zero address", encode(bytes(32)), avm.ZERO_ADDRESS)
    check("lookalike is pk 10**10", encode((10**10).to_bytes(32, "big")), avm.LOOKALIKE_ZERO_ADDRESS)
    check("ADDR_X", encode(bytes([1]) * 32), gen.ADDR_X)
    check("ADDR_Y", encode(bytes([2]) * 32), gen.ADDR_Y)


def smoke(limit: int) -> None:
    from tealer.teal.parse_teal import parse_teal  # validity check of the generated text only

    per_family = collections.Counter()
    shapes = collections.Counter()
    acc5 = rej5 = acc_all = both_all = 0
    tealer_rejects = []
    version_bad = []
    unsupported = []
    total = 0
    names = set()
    for p in gen.programs(k=2, limit=limit):
        total += 1
        names.add(p["name"])
        per_family[p["family"]] += 1
        shapes[p["meta"]["shape"]] += 1
        prog = avm.parse(p["src"])
        probs = avm.version_problems(prog)
        if probs:
            version_bad.append((p["name"], probs))
        try:
            parse_teal(p["src"])
        except BaseException as exc:  # pylint: disable=broad-except
            tealer_rejects.append((p["name"], type(exc).__name__, str(exc), p["src"]))
        a5 = r5 = a_all = r_all = False
        try:
            for n, (group, idx, unrelated) in enumerate(gen.inputs_for(p["src"])):
                res = avm.run(prog, group, idx, unrelated)
                if res.reason == "step limit exceeded":
                    unsupported.append((p["name"], "step limit"))
                if res.accepted:
                    a_all = True
                    a5 = a5 or n < 5
                else:
                    r_all = True
                    r5 = r5 or n < 5
                if n >= 4 and a_all and r_all:
                    break
        except avm.Unsupported as exc:
            unsupported.append((p["name"], str(exc)))
        acc5 += a5
        rej5 += r5
        acc_all += a_all
        both_all += a_all and r_all
    print(f"programs: {total} (distinct names {len(names)})")
    print("per family:", dict(per_family))
    print("per shape:", dict(shapes))
    print(f"first 5 inputs: accepted-some {acc5}  rejected-some {rej5}")
    print(f"all inputs (<=400): accepted-some {acc_all} ({100.0 * acc_all / total:.1f}%)  "
          f"accepted-and-rejected {both_all}")
    print(f"version problems: {len(version_bad)}  unsupported by avm: {len(unsupported)}  "
          f"rejected by tealer's parser: {len(tealer_rejects)}")
    for item in version_bad[:5] + unsupported[:5]:
        print("  ", item)
    for name, exc, msg, src in tealer_rejects[:5]:
        print(f"--- tealer {exc}: {msg} [{name}]\n{src}")
    check("distinct names", len(names), total)
    check("no version problems", len(version_bad), 0)
    check("nothing unsupported", len(unsupported), 0)
    check("accepted > 90%", acc_all * 10 > total * 9, True)


if __name__ == "__main__":
    interpreter_cases()
    address_checks()
    smoke(int(sys.argv[1]) if len(sys.argv) > 1 else 3000)
    print("FAILED: " + ", ".join(FAILS) if FAILS else "all checks passed")
    sys.exit(1 if FAILS else 0)
