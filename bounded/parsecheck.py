"""Bounded stand-ins for C16 (lines parse to the instruction they denote, and print back) and C20 (regex engine).

C16  `lines_parse_and_print_back`
     (a) every key of the REAL `parser_rules` table (+ the byte/label special cases of `parse_line`) is exercised with
         source lines written from the TEAL v1-v8 grammar (this file's own tables, not tealer's), in every integer
         spelling / byte-literal form / whitespace+comment decoration; the parsed instruction is observed through its
         printed form `str(ins)`, which is decoded again by THIS file's reader (own lexer, own integer reader, CPython
         `base64`/`binascii` for byte literals) and compared with the values the line was built from;
         then the idempotent round trip `parse_line(str(ins))`.
     (b) unknown opcodes (incl. every rule key extended by one letter) stay UnsupportedInstruction, verbatim.
     (c) `parse_teal`: Instruction.line is the 1-based source line under random blank/comment/indent decoration.
     (d) exhaustive tokeniser comparison over {a, space, ", \\, /}^{<=6|7} against the reference lexer below.
C20  `regex_engine`
     `match_regex(parse_teal(src), parse_regex("<label> =>\\n<lines>"))` (what `tealer regex` does) against an
     independent reachability / straight-line-occurrence computation over Instruction.next.

Both are *bounded*: never counted as proved.
"""
from __future__ import annotations

import base64
import binascii
import itertools
import multiprocessing as mp
import random
import sys
import time
import traceback
from collections import Counter
from typing import Any, Dict, Iterable, Iterator, List, Optional, Sequence, Set, Tuple

from bounded.registry import standin

# class of a violation -> listed finding it is an instance of (DESIGN.md §9)
CLASS_TO_FINDING: Dict[str, str] = {
    # fixed defects stay mapped: a fixed id is never in `known`, so a re-occurrence is reported
    "print-capitalised-mnemonic": "D16",
    "method-quotes-lost": "D17",
    "regex-covered-incomplete": "D10",
    "comment-glued-to-token": "D26",
    "tokeniser-drops-token-before-glued-comment": "D26",
    "base64-double-slash-taken-as-comment": "D27",
    "string-literal-ending-in-escaped-backslash": "D28",
    "tokeniser-string-ending-in-escaped-backslash": "D28",
    "empty-immediate-list": "D29",
    "unknown-opcode-extending-rule-key": "D30",
    "regex-recursion-on-long-program": "D32",
}

MAX_REPORTED = 5

# ---------------------------------------------------------------------------------------------------------------------
# Reference lexer (TEAL lexical rules, written from the language description - not from tealer)
# ---------------------------------------------------------------------------------------------------------------------

WS = " \t"


class Ambiguous(Exception):
    """the input is outside the part of the lexical grammar this reference commits to (unbalanced quotes, text glued to a
    closing quote): never compared"""


def ref_tokens(line: str) -> Tuple[List[str], Optional[str]]:
    toks, comment, _ = ref_lex(line)
    return toks, comment


def ref_lex(line: str) -> Tuple[List[str], Optional[str], int]:
    """tokens = maximal runs of non-space characters; a token that STARTS with `"` is a string literal running to the next
    unescaped `"` (a backslash escapes the following character) and may contain spaces and `//`; `//` outside a string
    literal starts a comment reaching to the end of the line, also directly after a token - except inside `base64(...)`
    /`b64(...)` and in the token following a bare `base64`/`b64`, where `/` is a base64 digit.
    Returns (tokens, comment-or-None, index where the comment starts or -1); the comment is returned stripped."""
    toks: List[str] = []
    n = len(line)
    i = 0
    while i < n:
        if line[i] in WS or line[i] in "\r\n\x0b\x0c":
            i += 1
            continue
        in_b64_arg = bool(toks) and toks[-1] in ("base64", "b64")
        if line.startswith("//", i) and not in_b64_arg:
            return toks, line[i:].strip(), i
        if line[i] == '"':
            j = i + 1
            while j < n and line[j] != '"':
                j += 2 if line[j] == "\\" else 1
            if j >= n:
                raise Ambiguous("unbalanced quote")
            j += 1
            if j < n and line[j] not in WS and not line.startswith("//", j):
                raise Ambiguous("text glued to closing quote")
            if line[j - 2] == "\\" and line[j:].strip():
                # `...\\" more`: the reference assembler itself decides "escaped quote" by looking one character back, so a
                # literal ending in an escaped backslash is only unambiguous when it ends the line
                raise Ambiguous("escaped backslash before the closing quote, followed by more text")
            toks.append(line[i:j])
            i = j
            continue
        j = i
        paren = False
        while j < n and line[j] not in WS:
            if line.startswith("//", j) and not paren and not in_b64_arg:
                break
            if line[j] == "(" and line[i:j] in ("base64", "b64"):
                paren = True
            elif line[j] == ")":
                paren = False
            j += 1
        toks.append(line[i:j])
        i = j
    return toks, None, -1


NAMED_INTS = {"unknown": 0, "pay": 1, "keyreg": 2, "acfg": 3, "axfer": 4, "afrz": 5, "appl": 6,
              "NoOp": 0, "OptIn": 1, "CloseOut": 2, "ClearState": 3, "UpdateApplication": 4, "DeleteApplication": 5}


class Undecodable(Exception):
    pass


def ref_int(tok: str, named: bool = False) -> int:
    """decimal, 0x hexadecimal, 0-prefixed octal (and a leading '-' for the int8 immediates of frame_dig/frame_bury)"""
    if named and tok in NAMED_INTS:
        return NAMED_INTS[tok]
    neg = tok.startswith("-")
    body = tok[1:] if neg else tok
    if body.startswith("0x") and len(body) > 2 and all(c in "0123456789abcdefABCDEF" for c in body[2:]):
        v = int(body[2:], 16)
    elif len(body) > 1 and body.startswith("0") and all(c in "01234567" for c in body):
        v = int(body, 8)
    elif body.isascii() and body.isdigit() and (body == "0" or not body.startswith("0")):
        v = int(body, 10)
    else:
        raise Undecodable(f"not a TEAL integer: {tok!r}")
    return -v if neg else v


def ref_unescape(lit: str) -> bytes:
    if len(lit) < 2 or lit[0] != '"' or lit[-1] != '"':
        raise Undecodable(f"not a string literal: {lit!r}")
    s = lit[1:-1]
    out = bytearray()
    i = 0
    while i < len(s):
        c = s[i]
        if c != "\\":
            if c == '"':
                raise Undecodable(f"bare quote inside literal: {lit!r}")
            out += c.encode("utf8")
            i += 1
            continue
        if i + 1 >= len(s):
            raise Undecodable(f"dangling backslash: {lit!r}")
        e = s[i + 1]
        if e in 'nrt\\"':
            out.append({"n": 10, "r": 13, "t": 9, "\\": 92, '"': 34}[e])
            i += 2
        elif e == "x":
            hx = s[i + 2:i + 4]
            if len(hx) != 2:
                raise Undecodable(f"short \\x escape: {lit!r}")
            out.append(int(hx, 16))
            i += 4
        else:
            raise Undecodable(f"unknown escape \\{e}: {lit!r}")
    return bytes(out)


def _b32(s: str) -> bytes:
    s = s.rstrip("=")
    return base64.b32decode(s + "=" * (-len(s) % 8))


def ref_bytes(toks: Sequence[str], pos: int) -> Tuple[bytes, int]:
    """one byte literal starting at toks[pos] in any of the ten spellings -> (bytes, next position)"""
    if pos >= len(toks):
        raise Undecodable("missing byte literal")
    t = toks[pos]
    try:
        if t in ("base64", "b64"):
            return base64.b64decode(toks[pos + 1], validate=True), pos + 2
        if t in ("base32", "b32"):
            return _b32(toks[pos + 1]), pos + 2
        if (t.startswith("base64(") or t.startswith("b64(")) and t.endswith(")"):
            return base64.b64decode(t[t.index("(") + 1:-1], validate=True), pos + 1
        if (t.startswith("base32(") or t.startswith("b32(")) and t.endswith(")"):
            return _b32(t[t.index("(") + 1:-1]), pos + 1
        if t.startswith("0x"):
            return binascii.unhexlify(t[2:]), pos + 1
        if t.startswith('"'):
            return ref_unescape(t), pos + 1
    except (binascii.Error, ValueError, IndexError) as e:
        raise Undecodable(f"bad byte literal {t!r}: {e}") from e
    raise Undecodable(f"not a byte literal: {t!r}")


# ---------------------------------------------------------------------------------------------------------------------
# TEAL v1-v8 vocabulary (own tables)
# ---------------------------------------------------------------------------------------------------------------------

TXN_SCALAR = """Sender Fee FirstValid FirstValidTime LastValid Note Lease Receiver Amount CloseRemainderTo VotePK SelectionPK
VoteFirst VoteLast VoteKeyDilution Type TypeEnum XferAsset AssetAmount AssetSender AssetReceiver AssetCloseTo GroupIndex TxID
ApplicationID OnCompletion NumAppArgs NumAccounts ApprovalProgram ClearStateProgram RekeyTo ConfigAsset ConfigAssetTotal
ConfigAssetDecimals ConfigAssetDefaultFrozen ConfigAssetUnitName ConfigAssetName ConfigAssetURL ConfigAssetMetadataHash
ConfigAssetManager ConfigAssetReserve ConfigAssetFreeze ConfigAssetClawback FreezeAsset FreezeAssetAccount FreezeAssetFrozen
NumAssets NumApplications GlobalNumUint GlobalNumByteSlice LocalNumUint LocalNumByteSlice ExtraProgramPages Nonparticipation
NumLogs CreatedAssetID CreatedApplicationID LastLog StateProofPK NumApprovalProgramPages NumClearStateProgramPages""".split()
TXN_ARRAY = "ApplicationArgs Accounts Assets Applications Logs ApprovalProgramPages ClearStateProgramPages".split()
ITXN_SETTABLE = """Sender Fee Note Receiver Amount CloseRemainderTo VotePK SelectionPK VoteFirst VoteLast VoteKeyDilution Type
TypeEnum XferAsset AssetAmount AssetSender AssetReceiver AssetCloseTo ApplicationID OnCompletion ApplicationArgs Accounts
ApprovalProgram ClearStateProgram RekeyTo ConfigAsset ConfigAssetTotal ConfigAssetDecimals ConfigAssetDefaultFrozen
ConfigAssetUnitName ConfigAssetName ConfigAssetURL ConfigAssetMetadataHash ConfigAssetManager ConfigAssetReserve
ConfigAssetFreeze ConfigAssetClawback FreezeAsset FreezeAssetAccount FreezeAssetFrozen Assets Applications GlobalNumUint
GlobalNumByteSlice LocalNumUint LocalNumByteSlice ExtraProgramPages Nonparticipation StateProofPK ApprovalProgramPages
ClearStateProgramPages""".split()
GLOBAL_FIELDS = """MinTxnFee MinBalance MaxTxnLife ZeroAddress GroupSize LogicSigVersion Round LatestTimestamp CurrentApplicationID
CreatorAddress CurrentApplicationAddress GroupID OpcodeBudget CallerApplicationID CallerApplicationAddress""".split()
ASSET_HOLDING = "AssetBalance AssetFrozen".split()
ASSET_PARAMS = """AssetTotal AssetDecimals AssetDefaultFrozen AssetUnitName AssetName AssetURL AssetMetadataHash AssetManager
AssetReserve AssetFreeze AssetClawback AssetCreator""".split()
APP_PARAMS = """AppApprovalProgram AppClearStateProgram AppGlobalNumUint AppGlobalNumByteSlice AppLocalNumUint
AppLocalNumByteSlice AppExtraProgramPages AppCreator AppAddress""".split()
ACCT_PARAMS = """AcctBalance AcctMinBalance AcctAuthAddr AcctTotalNumUint AcctTotalNumByteSlice AcctTotalExtraAppPages
AcctTotalAppsCreated AcctTotalAppsOptedIn AcctTotalAssetsCreated AcctTotalAssets AcctTotalBoxes AcctTotalBoxBytes""".split()
BLOCK_FIELDS = "BlkSeed BlkTimestamp".split()
JSON_TYPES = "JSONString JSONUint64 JSONObject".split()
B64_ENCODINGS = "URLEncoding StdEncoding".split()
ECDSA_CURVES = "Secp256k1 Secp256r1".split()
VRF_STANDARDS = ["VrfAlgorand"]

NO_IMMEDIATE = """err sha256 keccak256 sha512_256 ed25519verify + - / * < > <= >= && || == != ! len itob btoi % | & ^ ~ mulw
intc_0 intc_1 intc_2 intc_3 bytec_0 bytec_1 bytec_2 bytec_3 arg_0 arg_1 arg_2 arg_3 pop dup
addw return dup2 concat substring3 balance app_opted_in app_local_get app_local_get_ex app_global_get app_global_get_ex
app_local_put app_global_put app_local_del app_global_del
assert swap select getbit setbit getbyte setbyte min_balance
divmodw gaids retsub shl shr sqrt bitlen exp expw b+ b- b/ b* b< b> b<= b>= b== b!= b% b| b& b^ b~ bzero
extract3 extract_uint16 extract_uint32 extract_uint64 loads stores log itxn_begin itxn_submit args
bsqrt divw gloadss itxn_next
replace3 ed25519verify_bare sha3_256
box_create box_extract box_replace box_del box_len box_get box_put""".split()
ONE_UINT8 = "load store gloads gaid dig cover uncover intc bytec arg popn dupn bury replace2".split()
ONE_INT8 = "frame_dig frame_bury".split()
TWO_UINT8 = "gload extract substring proto".split()
ALL_MNEMONICS: Set[str] = set(NO_IMMEDIATE) | set(ONE_UINT8) | set(ONE_INT8) | set(TWO_UINT8) | set(
    """int pushint pushints byte pushbytes pushbytess method addr intcblock bytecblock txn txna gtxn gtxna gtxns gtxnsa txnas
    gtxnas gtxnsas itxn itxna itxnas gitxn gitxna gitxnas itxn_field global asset_holding_get asset_params_get
    app_params_get acct_params_get ecdsa_verify ecdsa_pk_decompress ecdsa_pk_recover base64_decode json_ref vrf_verify block
    b bz bnz callsub switch match replace""".split())

ZERO_ADDR = "AAAAAAAAAAAAAAAAAAAAAAAAAAAAAAAAAAAAAAAAAAAAAAAAAAAAY5HFKQ"
ADDR_X = "AEAQCAIBAEAQCAIBAEAQCAIBAEAQCAIBAEAQCAIBAEAQCAIBAEA5RCDXMI"

U8 = [0, 1, 8, 255]
U64 = [0, 1, 9, 2 ** 32, 2 ** 64 - 1]


def int_spellings(v: int) -> List[Tuple[str, str]]:
    if v < 0:
        return [("dec", str(v))]
    out = [("dec", str(v)), ("hex", "0x%x" % v), ("HEX", "0x%X" % v), ("hex0", "0x0%x" % v)]
    out.append(("oct", "0%o" % v))
    return out


def _escape(payload: bytes) -> str:
    out = ['"']
    for b in payload:
        if b == 34:
            out.append('\\"')
        elif b == 92:
            out.append("\\\\")
        elif b == 10:
            out.append("\\n")
        elif b == 13:
            out.append("\\r")
        elif b == 9:
            out.append("\\t")
        elif 32 <= b < 127:
            out.append(chr(b))
        else:
            out.append("\\x%02x" % b)
    out.append('"')
    return "".join(out)


def byte_spellings(p: bytes) -> List[Tuple[str, str]]:
    b64 = base64.b64encode(p).decode()
    b32 = base64.b32encode(p).decode()
    out = [("hex", "0x" + p.hex()), ("HEX", "0x" + p.hex().upper()),
           ("base64 X", "base64 " + b64), ("b64 X", "b64 " + b64), ("base64(X)", f"base64({b64})"), ("b64(X)", f"b64({b64})"),
           ("base32 X", "base32 " + b32), ("b32 X", "b32 " + b32), ("base32(X)", f"base32({b32})"), ("b32(X)", f"b32({b32})"),
           ("base32 X nopad", "base32 " + b32.rstrip("=")), ("b32(X) nopad", f"b32({b32.rstrip('=')})"),
           ("quoted", _escape(p))]
    # an empty base64/base32 argument as a separate token is not writable
    return [(k, s) for k, s in out if p or k in ("hex", "base64(X)", "b64(X)", "base32(X)", "b32(X)", "quoted")]


BYTE_PAYLOADS: List[bytes] = [
    b"", b"\x00", b"abc", b"abcdef", b"a b", b"a // b", b'say "hi" now', b"tab\there\nnl", b"back\\slash", b"\xff\xfe\x00\x01",
    bytes(range(32)), b"\xff\xff\xfe",      # base64 '///+' : contains '//'
    b"endbackslash\\",                      # "...\\" : the closing quote is preceded by a backslash
    b"x//",                                  # quoted literal ending in //
]


class Case:
    __slots__ = ("mnemonic", "text", "schema", "values", "tag")

    def __init__(self, mnemonic: Optional[str], text: str, schema: str, values: List[Any], tag: str = ""):
        self.mnemonic, self.text, self.schema, self.values, self.tag = mnemonic, text, schema, values, tag


def build_cases(tier: str) -> List[Case]:
    """schema letters: i int, n int-or-named-constant, f verbatim name (field, curve, label, address), b one byte literal,
    q verbatim string literal (method), I rest-of-line ints, B rest-of-line byte literals, F rest-of-line verbatim names"""
    C: List[Case] = []
    add = C.append
    for m in NO_IMMEDIATE:
        add(Case(m, m, "", []))
    u8 = U8 if tier == "quick" else U8 + [7, 16, 64, 127, 128, 200]
    u64 = U64 if tier == "quick" else U64 + [255, 256, 2 ** 31, 2 ** 63, 2 ** 64 - 2, 1000000]
    for m in ONE_UINT8:
        for v in u8:
            for k, s in int_spellings(v):
                add(Case(m, f"{m} {s}", "i", [v], k))
    for m in ONE_INT8:
        for v in [0, 1, 127, -1, -128]:
            for k, s in int_spellings(v):
                add(Case(m, f"{m} {s}", "i", [v], k))
    for m in TWO_UINT8:
        for v, w in [(0, 0), (1, 8), (255, 255), (8, 1)]:
            for (k1, s1), (k2, s2) in itertools.product(int_spellings(v), int_spellings(w)):
                if k1 == k2 or "dec" in (k1, k2):
                    add(Case(m, f"{m} {s1} {s2}", "ii", [v, w], f"{k1}/{k2}"))
    for m in ("int", "pushint"):
        for v in u64:
            for k, s in int_spellings(v):
                add(Case(m, f"{m} {s}", "n", [v], k))
    for name, v in NAMED_INTS.items():
        add(Case("int", f"int {name}", "n", [v], "named"))
    for m in ("intcblock", "pushints"):
        add(Case(m, m, "I", [], "empty list"))
        add(Case(m, f"{m} 7", "I", [7], "one"))
        add(Case(m, f"{m} 0 1 0x10 010 18446744073709551615 0xffffffffffffffff 01777777777777777777777", "I",
                 [0, 1, 16, 8, 2 ** 64 - 1, 2 ** 64 - 1, 2 ** 64 - 1], "mixed spellings"))
    # byte literals
    for m in ("byte", "pushbytes"):
        for p in BYTE_PAYLOADS:
            for k, s in byte_spellings(p):
                add(Case(m, f"{m} {s}", "b", [p], k))
    for m in ("bytecblock", "pushbytess"):
        add(Case(m, m, "B", [], "empty list"))
        add(Case(m, f'{m} 0x01 "a b" base64 AA== b32(MFRGG===) b64(YWJj) base32 MFRGGZDFMY 0xAbCd "q\\"//"', "B",
                 [b"\x01", b"a b", b"\x00", b"abc", b"abc", b"abcdef", b"\xab\xcd", b'q"//'], "mixed spellings"))
        for p in BYTE_PAYLOADS[:6]:
            for k, s in byte_spellings(p):
                add(Case(m, f"{m} 0x00 {s} 0x01", "B", [b"\x00", p, b"\x01"], k))
    for sig in ('"add(uint64,uint64)uint64"', '"a()void"', '"optin(account,asset)void"'):
        add(Case("method", f"method {sig}", "q", [sig]))
    for a in (ZERO_ADDR, ADDR_X):
        add(Case("addr", f"addr {a}", "f", [a]))
    # transaction-field families
    few_scalar = ["Sender", "Fee", "TypeEnum", "RekeyTo", "NumApprovalProgramPages", "Assets 1", "ApplicationArgs 0"]
    idx = [(0, "0"), (1, "1"), (15, "15"), (15, "0xf"), (8, "010"), (255, "255")]
    for f in TXN_SCALAR:
        add(Case("txn", f"txn {f}", "f", [f]))
    for f in TXN_ARRAY:
        for m in ("txn", "txna", "gtxnsa", "itxna"):
            for v in (0, 1, 255):
                for k, s in int_spellings(v):
                    add(Case(m, f"{m} {f} {s}", "fi", [f, v], k))
        for m in ("txnas", "gtxnsas", "itxnas"):
            add(Case(m, f"{m} {f}", "f", [f]))
        for m in ("gtxna", "gitxna", "gtxn"):
            for (t, ts), (v, vs) in [(idx[0], idx[1]), (idx[3], idx[4]), (idx[5], idx[5]), (idx[1], idx[0])]:
                add(Case(m, f"{m} {ts} {f} {vs}", "ifi", [t, f, v]))
        for m in ("gtxnas", "gitxnas"):
            for t, ts in idx:
                add(Case(m, f"{m} {ts} {f}", "if", [t, f]))
    for f in (TXN_SCALAR if tier != "quick" else TXN_SCALAR[::4] + ["RekeyTo", "TypeEnum"]):
        for m in ("gtxns", "itxn"):
            add(Case(m, f"{m} {f}", "f", [f]))
        for m in ("gtxn", "gitxn"):
            for t, ts in idx:
                add(Case(m, f"{m} {ts} {f}", "if", [t, f]))
    for f in ITXN_SETTABLE:
        add(Case("itxn_field", f"itxn_field {f}", "f", [f]))
    for m, fields in (("global", GLOBAL_FIELDS), ("asset_holding_get", ASSET_HOLDING), ("asset_params_get", ASSET_PARAMS),
                      ("app_params_get", APP_PARAMS), ("acct_params_get", ACCT_PARAMS), ("block", BLOCK_FIELDS),
                      ("json_ref", JSON_TYPES), ("base64_decode", B64_ENCODINGS), ("vrf_verify", VRF_STANDARDS),
                      ("ecdsa_verify", ECDSA_CURVES), ("ecdsa_pk_decompress", ECDSA_CURVES),
                      ("ecdsa_pk_recover", ECDSA_CURVES)):
        for f in fields:
            add(Case(m, f"{m} {f}", "f", [f]))
    # labels and branches; label names that look like opcodes are legal
    labels = ["main", "loop_1", "L", "b", "err", "dup", "int", "bz", "label.with-odd_chars9"]
    for lab in labels:
        add(Case(None, f"{lab}:", "label", [lab]))
        for m in ("b", "bz", "bnz", "callsub"):
            add(Case(m, f"{m} {lab}", "f", [lab]))
    for m in ("switch", "match"):
        add(Case(m, m, "F", [], "empty list"))
        add(Case(m, f"{m} L", "F", ["L"]))
        add(Case(m, f"{m} a b c main b err", "F", ["a", "b", "c", "main", "b", "err"]))
    for v in u8:
        for k, s in int_spellings(v):
            add(Case("replace", f"replace {s}", "i", [v], k))
    add(Case("replace", "replace", "", []))
    add(Case("#pragma", "#pragma version 8", "fi", ["version", 8]))
    for v in range(1, 9):
        add(Case("#pragma", f"#pragma version {v}", "fi", ["version", v]))
    return C


def decorations(core: str, rnd: random.Random) -> List[Tuple[str, str]]:
    tabbed = "\t".join(ref_tokens(core)[0]) if '"' not in core else core
    if core.endswith('\\\\"'):
        return [("plain", core), ("indent+trailing", "  \t " + core + " \t  ")]
    return [("plain", core),
            ("indent+trailing", "  \t " + core + " \t  "),
            ("tabs between tokens", "\t" + tabbed),
            ("trailing comment", core + " // comment"),
            ("indent+comment with quotes and slashes", "    " + core + '\t// c "q // again'),
            ("comment glued to last token", core + "//glued")]


def decode_printed(text: str, case: Case) -> Optional[str]:
    """None if `text` denotes exactly the instruction of `case`, else a description"""
    try:
        toks, comment = ref_tokens(text)
    except Ambiguous as e:
        return f"printed form is not lexically valid TEAL: {e}"
    if comment is not None:
        return "printed form contains a comment"
    if case.schema == "label":
        return None if toks == [case.values[0] + ":"] else f"expected label `{case.values[0]}:`"
    if not toks:
        return "printed form is empty"
    want = case.mnemonic
    if want == "#pragma":
        if toks[0] != "#pragma":
            return "expected #pragma"
    elif toks[0] != want:
        return f"mnemonic `{toks[0]}` instead of `{want}`"
    pos = 1
    got: List[Any] = []
    try:
        for s in case.schema:
            if s in "in":
                got.append(ref_int(toks[pos], named=(s == "n")))
                pos += 1
            elif s in "fq":
                got.append(toks[pos])
                pos += 1
            elif s == "b":
                v, pos = ref_bytes(toks, pos)
                got.append(v)
            elif s == "I":
                got += [ref_int(t) for t in toks[pos:]]
                pos = len(toks)
            elif s == "F":
                got += toks[pos:]
                pos = len(toks)
            elif s == "B":
                while pos < len(toks):
                    v, pos = ref_bytes(toks, pos)
                    got.append(v)
    except IndexError:
        return f"operands missing in printed form {text!r}"
    except Undecodable as e:
        return f"operand not decodable: {e}"
    if pos != len(toks):
        return f"extra operands {toks[pos:]}"
    if got != case.values:
        return f"operands {got!r} instead of {case.values!r}"
    return None


def _quiet():
    from bounded.harness import quiet
    return quiet()


class Collector:
    def __init__(self, prop: str, standin_name: str, known: Any):
        self.prop, self.name, self.known = prop, standin_name, set(known or [])
        self.failures = 0
        self.by_class: Counter = Counter()
        self.attributed: Counter = Counter()
        self.first: Dict[str, Dict[str, Any]] = {}
        self.example: Dict[str, str] = {}

    def add(self, cls: str, failure: str, **data: Any) -> None:
        self.by_class[cls] += 1
        self.example.setdefault(cls, failure[:300])
        fid = CLASS_TO_FINDING.get(cls)
        if fid and fid in self.known:
            self.attributed[fid] += 1
            return
        self.failures += 1
        if cls not in self.first:
            self.first[cls] = {"property": self.prop, "standin": self.name, "class": cls, "failure": failure, **data}

    def result(self, summary: Dict[str, Any]) -> Dict[str, Any]:
        summary["failures"] = self.failures
        summary["by_class"] = dict(self.by_class)
        summary["example_by_class"] = dict(self.example)
        summary["attributed_to_listed_findings"] = dict(self.attributed)
        viol = [{"file": f"{self.name}_{cls}.json", "data": d} for cls, d in list(self.first.items())[:MAX_REPORTED]]
        summary["classes_not_shown"] = list(self.first)[MAX_REPORTED:]
        return {"summary": summary, "violations": viol, "known_lines": []}


# ---------------------------------------------------------------------------------------------------------------------
# C16
# ---------------------------------------------------------------------------------------------------------------------

D16_MNEMONICS = {"gtxns", "gtxnsa", "gtxnas", "gitxnas"}


def _classify_print(case: Case, printed: str, why: str) -> str:
    first = printed.split(" ")[0] if printed else ""
    if case.mnemonic and first != case.mnemonic and first.lower() == case.mnemonic:
        return "print-capitalised-mnemonic"
    if case.mnemonic == "method" and printed == "method " + case.values[0][1:-1]:
        return "method-quotes-lost"
    if first.startswith("UNSUPPORTED"):
        return "valid-line-unsupported"
    if why.startswith("mnemonic"):
        return "opcode-confusion"
    return "print-denotes-other-instruction"


def _slashes_in_b64(line: str) -> bool:
    try:
        toks, _ = ref_tokens(line)
    except Ambiguous:
        return False
    return any("//" in t for t in toks if not t.startswith('"'))


def _check_lines(C: Collector, tier: str, seed: int) -> Tuple[int, Dict[str, Any]]:
    from tealer.teal.instructions import parse_instruction as PI
    from tealer.teal.instructions.instructions import UnsupportedInstruction
    rnd = random.Random(seed)
    cases = build_cases(tier)
    evals = 0
    # coverage of the real rule table
    have = {c.mnemonic for c in cases}
    rule_keys = [k for k, _ in PI.parser_rules]
    uncovered = [k for k in rule_keys if (k.strip() if not k.startswith("#pragma") else "#pragma") not in have]
    not_in_table = sorted(m for m in have if m and m != "#pragma" and not any(k.strip() == m for k in rule_keys)
                          and m not in ("byte", "pushbytes", "method", "bytecblock", "pushbytess"))
    class_of: Dict[str, Set[str]] = {}
    for case in cases:
        plain: Optional[Tuple[str, str]] = None
        for deco, line in decorations(case.text, rnd):
            evals += 1
            ctx = {"line": line, "decoration": deco, "core": case.text, "spelling": case.tag,
                   "expected": {"mnemonic": case.mnemonic, "operands": repr(case.values)}}
            try:
                with _quiet():
                    ins = PI.parse_line(line)
                if ins is None:
                    raise AssertionError("parse_line returned None")
                printed = str(ins)
            except BaseException as e:  # noqa: BLE001  (tealer calls sys.exit in places)
                cls = "valid-line-rejected"
                if deco == "comment glued to last token":
                    cls = "comment-glued-to-token"
                elif _slashes_in_b64(case.text):
                    cls = "base64-double-slash-taken-as-comment"
                elif '\\\\"' in line:
                    cls = "string-literal-ending-in-escaped-backslash"
                elif case.tag == "empty list":
                    cls = "empty-immediate-list"
                C.add(cls, f"parse_line raises {type(e).__name__}: {e}", observed=f"{type(e).__name__}: {e}", **ctx)
                continue
            why = decode_printed(printed, case)
            if why is not None:
                cls = _classify_print(case, printed, why)
                if deco == "comment glued to last token" and plain is not None and (type(ins).__name__, printed) != plain:
                    cls = "comment-glued-to-token"
                elif cls in ("valid-line-unsupported", "print-denotes-other-instruction", "opcode-confusion"):
                    if _slashes_in_b64(case.text):
                        cls = "base64-double-slash-taken-as-comment"
                    elif case.tag == "empty list":
                        cls = "empty-immediate-list"
                C.add(cls, f"`{line}` is read/printed as `{printed}` ({type(ins).__name__}): {why}", observed=printed,
                      observed_class=type(ins).__name__, **ctx)
                if cls not in ("print-capitalised-mnemonic", "method-quotes-lost"):
                    continue
            if deco == "plain":
                plain = (type(ins).__name__, printed)
                if case.mnemonic and not isinstance(ins, UnsupportedInstruction):
                    class_of.setdefault(type(ins).__name__, set()).add(case.mnemonic)
            elif plain is not None and (type(ins).__name__, printed) != plain:
                C.add("decoration-changes-instruction", f"`{line}` gives {type(ins).__name__} `{printed}`, undecorated gives {plain}",
                      observed=printed, **ctx)
                continue
            # idempotent round trip of the printed form
            if deco != "plain":
                continue
            evals += 1
            try:
                with _quiet():
                    again = PI.parse_line(printed)
                back = (type(again).__name__, str(again))
            except BaseException as e:  # noqa: BLE001
                back = ("raises", f"{type(e).__name__}: {e}")
            if back != (type(ins).__name__, printed):
                cls = _classify_print(case, printed, "round trip")
                if cls not in ("print-capitalised-mnemonic", "method-quotes-lost"):
                    cls = "print-not-reparsable"
                elif why is not None:
                    continue  # already counted for this line
                C.add(cls, f"str(parse_line(`{line}`)) = `{printed}` parses back to {back}", observed=printed, reparsed=list(back), **ctx)
    for cls_name, ms in class_of.items():
        evals += 1
        if len(ms) > 1:
            C.add("opcode-confusion", f"mnemonics {sorted(ms)} are all parsed to class {cls_name}", mnemonics=sorted(ms))
    return evals, {"cases": len(cases), "rule_keys": len(rule_keys), "rule_keys_without_a_case": uncovered,
                   "v1_v8_mnemonics_without_a_rule": not_in_table}


def _check_unknown(C: Collector) -> int:
    from tealer.teal.instructions import parse_instruction as PI
    from tealer.teal.instructions.instructions import UnsupportedInstruction
    lines = ["frobnicate 1 2", "foo", "errx", "returnx", "dupe", "assertion", "swapper", "cover1", "uncover2", "logger 1",
             "ec_add BN254g1", "box_splice", "sumhash512", "int_ 1", "byte_ 0x00", "pushbytesx 0x00", "methodx \"a()void\""]
    for key, _ in PI.parser_rules:
        k = key.strip()
        if k.startswith("#"):
            continue
        for suffix in ("x", "_q"):
            name = k + suffix
            if name in ALL_MNEMONICS:
                continue
            lines.append(name + (" 1" if key.endswith(" ") else ""))
    n = 0
    for line in dict.fromkeys(lines):
        for deco, text in (("plain", line), ("decorated", "  \t" + line.replace(" ", "   ") + "  // c")):
            n += 1
            try:
                with _quiet():
                    ins = PI.parse_line(text)
                obs = (type(ins).__name__, str(ins), getattr(ins, "verbatim_line", None))
            except BaseException as e:  # noqa: BLE001
                C.add("unknown-opcode-extending-rule-key" if line.split()[0][:-1] in ALL_MNEMONICS or line.split()[0][:-2] in ALL_MNEMONICS
                      else "unknown-opcode-crash", f"unknown opcode line `{text}` raises {type(e).__name__}: {e}", line=text,
                      expected="UnsupportedInstruction, verbatim", observed=f"{type(e).__name__}: {e}")
                continue
            if not isinstance(ins, UnsupportedInstruction):
                C.add("unknown-opcode-extending-rule-key", f"unknown opcode line `{text}` is read as {obs[0]} `{obs[1]}`", line=text,
                      expected="UnsupportedInstruction, verbatim", observed=list(obs))
            elif obs[2] != line or obs[1] != "UNSUPPORTED " + line:
                C.add("unknown-opcode-not-verbatim", f"`{text}` kept as {obs[2]!r}, printed {obs[1]!r}", line=text, observed=list(obs))
    return n


BODY_POOL = ["int 1", "int 0x10", "pop", "byte \"a b // c\"", "byte base64 AA==", "dup", "dup2", "pop", "pop", "txn Fee", "global GroupSize",
             "gtxn 0 Amount", "+", "==", "!", "addr " + ZERO_ADDR, "len", "itob", "btoi", "pushint 7", "pushbytes 0x0102", "bytec_0",
             "intc_1", "load 3", "store 3", "swap", "select", "assert", "log"]


def _decorate_file(lines: List[str], rnd: random.Random, eol: str) -> Tuple[str, Dict[int, int]]:
    """returns the decorated text and the map original 1-based line -> decorated 1-based line"""
    out: List[str] = []
    where: Dict[int, int] = {}
    for k, core in enumerate(lines, 1):
        if k > 1 or rnd.random() < 0.5:
            for _ in range(rnd.choice([0, 0, 1, 1, 2, 3])):
                out.append(rnd.choice(["", "   ", "\t", "// a comment", "   // indented comment", "\t//int 1", "//", "// \"unbalanced quote",
                                       "  // b L"]))
        text = rnd.choice(["", " ", "    ", "\t", "\t\t  "]) + core + rnd.choice(["", "", " ", "\t", " // trailing", "\t// pop", "   //"])
        out.append(text)
        where[k] = len(out)
    for _ in range(rnd.choice([0, 1, 2])):
        out.append(rnd.choice(["", "// end", "  "]))
    return eol.join(out) + rnd.choice(["", eol]), where


def _check_line_numbers(C: Collector, tier: str, seed: int) -> int:
    from tealer.teal.parse_teal import parse_teal
    from bounded import gen
    rnd = random.Random(seed * 7919 + 16)
    n_rand, n_gen = (30, 60) if tier == "quick" else (2000, 6000)
    sources: List[List[str]] = []
    for _ in range(n_rand):
        body = ["#pragma version 8"] if rnd.random() < 0.8 else []
        for k in range(rnd.randint(1, 25)):
            body.append(rnd.choice(BODY_POOL))
            if rnd.random() < 0.1:
                body.append(f"lab{k}:")
        sources.append(body + ["int 1", "return"])
    progs = list(gen.programs(2, seed=seed, limit=n_gen * 5))
    rnd.shuffle(progs)
    for p in progs[:n_gen]:
        sources.append([l for l in p["src"].splitlines() if l.strip()])
    n = 0
    for lines in sources:
        n += 1
        plain_src = "\n".join(lines) + "\n"
        deco_src, where = _decorate_file(lines, rnd, rnd.choice(["\n", "\n", "\r\n"]))
        try:
            with _quiet():
                t0 = parse_teal(plain_src)
                t1 = parse_teal(deco_src)
        except BaseException as e:  # noqa: BLE001
            C.add("parse_teal-crash-on-decorated-file", f"parse_teal raises {type(e).__name__}: {e}", teal=deco_src, plain=plain_src,
                  trace=traceback.format_exc()[-500:])
            continue
        a = [(i.line, type(i).__name__, str(i)) for i in t0.instructions]
        b = [(i.line, type(i).__name__, str(i)) for i in t1.instructions]
        # (1) undecorated: every recorded line is the 1-based index of the line the instruction was written on
        bad = None
        for ln, cn, s in a:
            if not (1 <= ln <= len(lines)):
                bad = f"line {ln} outside the file"
                break
            with _quiet():
                from tealer.teal.instructions.parse_instruction import parse_line
                ref = parse_line(lines[ln - 1])
            if ref is None or (type(ref).__name__, str(ref)) != (cn, s):
                bad = f"instruction `{s}` recorded at line {ln}, which reads `{lines[ln - 1]}`"
                break
        if bad is None and len({ln for ln, _, _ in a}) != len(a):
            bad = "two instructions share a line number"
        if bad:
            C.add("line-number-wrong", bad, teal=plain_src, observed=a[:40])
            continue
        # (2) decorated: same instructions, at the mapped lines
        want = [(where[ln], cn, s) for ln, cn, s in a]
        if b != want:
            diff = next((x, y) for x, y in itertools.zip_longest(b, want) if x != y)
            C.add("line-number-wrong-under-decoration", f"decorated file: observed {diff[0]}, expected {diff[1]}", teal=deco_src,
                  observed=b[:40], expected=want[:40])
    return n


def _check_tokeniser(C: Collector, tier: str) -> int:
    from tealer.teal.instructions import parse_instruction as PI
    alphabet = 'a "\\/'
    maxlen = 6 if tier == "quick" else 9
    n = 0
    for L in range(0, maxlen + 1):
        for tup in itertools.product(alphabet, repeat=L):
            s = "".join(tup)
            try:
                toks, comment, cpos = ref_lex(s)
            except Ambiguous:
                continue
            n += 1
            want = toks + ([comment] if comment is not None else [])
            try:
                got: Any = PI._split_instruction_into_tokens(s)  # pylint: disable=protected-access
            except PI.ParseError as e:
                got = f"ParseError: {e}"
            except Exception as e:  # noqa: BLE001
                got = f"{type(e).__name__}: {e}"
            if got != want:
                if cpos > 0 and s[cpos - 1] not in WS and isinstance(got, list) and got == toks[:-1] + [comment]:
                    cls = "tokeniser-drops-token-before-glued-comment"
                elif isinstance(got, str) and got.startswith("ParseError") and '\\\\"' in s:
                    cls = "tokeniser-string-ending-in-escaped-backslash"
                else:
                    cls = "tokeniser-other"
                C.add(cls, f"_split_instruction_into_tokens({s!r}) = {got!r}, reference {want!r}", input=s, observed=got, expected=want)
    return n


@standin("C16")
def lines_parse_and_print_back(tier: str = "quick", seed: int = 0, known: Any = None) -> Dict[str, Any]:
    t0 = time.time()
    C = Collector("C16", "lines_parse_and_print_back", known)
    n_lines, info = _check_lines(C, tier, seed)
    n_unknown = _check_unknown(C)
    n_files = _check_line_numbers(C, tier, seed)
    n_tok = _check_tokeniser(C, tier)
    maxlen = 6 if tier == "quick" else 9
    summary = {
        "function": "parse_instruction.parse_line / _split_instruction_into_tokens / _parse_byte_arguments / parser_rules, "
                    "Instruction.__str__ of every class, parse_teal.first_pass (line numbers)",
        "contract": "a valid TEAL line is parsed to the instruction it denotes (observed through str(ins), decoded by an independent "
                    "reader), prints back idempotently; unknown opcodes stay verbatim UnsupportedInstruction; Instruction.line is the "
                    "1-based source line; the tokeniser agrees with the TEAL lexical rules",
        "bound": f"{info['cases']} lines covering all {info['rule_keys']} parser_rules keys + byte/label special cases x 6 "
                 f"whitespace/comment decorations; {n_unknown} unknown-opcode lines; {n_files} decorated files (seed {seed}); "
                 f"all strings of length <= {maxlen} over {{a,space,\",\\,/}} with balanced quotes ({n_tok})",
        "evaluations": n_lines + n_unknown + n_files + n_tok, "exhaustive": False,
        "lines_evaluations": n_lines, "unknown_opcode_evaluations": n_unknown, "files": n_files, "tokeniser_inputs": n_tok,
        "tokeniser_exhaustive_to_length": maxlen, **info,
    }
    summary["seconds"] = round(time.time() - t0, 2)
    return C.result(summary)


# ---------------------------------------------------------------------------------------------------------------------
# C20
# ---------------------------------------------------------------------------------------------------------------------

HAND_PROGRAMS: List[Tuple[str, str]] = [
    ("diamond", "#pragma version 8\nint 1\nbnz c\nint 5\nb d\nc:\nint 6\nd:\nint 7\npop\nint 1\nreturn\n"),
    ("diamond-match-in-both-arms", "#pragma version 8\ntxn Fee\nbz c\nint 7\npop\nb d\nc:\nint 7\npop\nd:\nint 7\npop\nint 1\nreturn\n"),
    ("loop", "#pragma version 8\nint 0\nstore 0\nloop:\nload 0\nint 1\n+\ndup\nstore 0\nint 5\n<\nbnz loop\nint 7\npop\nint 1\nreturn\n"),
    ("loop-match-inside", "#pragma version 8\nint 0\nloop:\nint 1\n+\ndup\nint 5\n<\nbnz loop\npop\nint 1\nreturn\n"),
    ("nested-loops", "#pragma version 8\nint 0\nouter:\nint 1\n+\ninner:\nint 1\n+\ndup\nint 9\n<\nbnz inner\ndup\nint 20\n<\nbnz outer\npop\nint 1\nreturn\n"),
    ("join-of-three", "#pragma version 8\ntxn Fee\nswitch a b\nint 1\nb j\na:\nint 2\nb j\nb:\nint 3\nj:\nint 4\n+\npop\nint 1\nreturn\n"),
    ("overlap", "#pragma version 8\nint 1\nint 1\nint 1\nint 1\n+\n+\n+\nreturn\n"),
    ("overlap-aba", "#pragma version 8\nint 1\npop\nint 1\npop\nint 1\npop\nint 1\nreturn\n"),
    ("across-unconditional-branch", "#pragma version 8\nint 1\nb L\ndead:\nint 9\nL:\nint 2\n+\nreturn\n"),
    ("across-fallthrough-label", "#pragma version 8\ntxn Fee\nbz L\nint 1\npop\nL:\nint 2\nreturn\n"),
    ("pattern-ends-in-branch", "#pragma version 8\nint 1\nbnz L\nint 0\nreturn\nL:\nint 1\nbnz M\nerr\nM:\nint 1\nreturn\n"),
    ("branch-to-next-line", "#pragma version 8\nint 1\nbz n\nn:\nint 2\nreturn\n"),
    ("subroutine", "#pragma version 8\nint 1\ncallsub f\npop\nint 1\nreturn\nf:\nint 7\n+\nretsub\n"),
    ("two-call-sites", "#pragma version 8\ncallsub f\ncallsub f\nint 1\nreturn\nf:\nint 7\npop\nretsub\n"),
    ("match-at-entry", "#pragma version 8\nint 1\nreturn\n"),
    ("no-pragma", "int 1\nint 2\n+\nreturn\n"),
    ("self-loop", "#pragma version 8\nint 1\nL:\nb L\n"),
    ("match-reaches-match", "#pragma version 8\nint 7\npop\nint 3\npop\nint 7\npop\ntxn Fee\nbz e\nint 7\npop\ne:\nint 1\nreturn\n"),
    ("switch-duplicate-targets", "#pragma version 8\ntxn Fee\nswitch a a\nint 1\nreturn\na:\nint 2\nreturn\n"),
    ("d16-text", "#pragma version 8\nint 0\ngtxns Fee\npop\nint 0\ngtxnsa Accounts 0\npop\nmethod \"a()void\"\npop\nint 1\nreturn\n"),
]
ABSENT = ["int 987654", "byte \"zz absent\"", "frobnicate", "absent_label:", "txn Lease", "b+"]


def _core_of(line: str) -> str:
    toks, _ = ref_tokens(line)
    return " ".join(toks)


def _patterns(teal: Any, src: str, maxlen: int, rnd: random.Random, cap: int) -> List[List[Tuple[str, Any, str]]]:
    """patterns as lists of (source text of the line, class, printed text); absent entries have class None"""
    lines = src.splitlines()
    ins = sorted(teal.instructions, key=lambda i: i.line)
    ent = [(_core_of(lines[i.line - 1]), type(i), str(i)) for i in ins if not type(i).__name__ == "Pragma"]
    printed = {e[2] for e in ent}
    absent = [(a, None, a) for a in ABSENT if a not in printed and a.rstrip(":") + ":" not in printed]
    pats: Dict[Tuple[str, ...], List[Tuple[str, Any, str]]] = {}

    def put(p: List[Tuple[str, Any, str]]) -> None:
        pats.setdefault(tuple(e[0] for e in p), p)
    for L in range(1, maxlen + 1):
        for k in range(0, len(ent) - L + 1):
            put(ent[k:k + L])
    base = list(pats.values())
    for p in base:
        if absent and rnd.random() < 0.15:
            q = list(p)
            q[rnd.randrange(len(q))] = rnd.choice(absent)
            put(q)
    for _ in range(10):
        if ent:
            put([rnd.choice(ent) for _ in range(rnd.randint(1, maxlen))])
    for a in absent[:2]:
        put([a])
    allp = list(pats.values())
    if len(allp) > cap:
        rnd.shuffle(allp)
        allp = allp[:cap]
    return allp


def _oracle(start: Any, pat: List[Tuple[str, Any, str]], text_of: Dict[int, str]) -> Tuple[Set[int], Set[int], Set[int], Set[int], Dict[int, List[int]]]:
    """-> (sure match starts, ambiguous starts, covered lower bound, covered upper bound, match instruction lists), by line number.
    Independent of regex.py: plain worklist reachability over Instruction.next."""
    reach: Dict[int, Any] = {}
    todo = [start]
    while todo:
        u = todo.pop()
        if id(u) in reach:
            continue
        reach[id(u)] = u
        todo.extend(u.next)
    sure: Set[int] = set()
    amb: Set[int] = set()
    lists: Dict[int, List[int]] = {}
    for u in reach.values():
        cur = u
        seq: List[int] = []
        verdict = True
        for k, (_, cls, text) in enumerate(pat):
            if cur is None or cls is None or type(cur) is not cls or text_of[id(cur)] != text:
                verdict = False
                break
            seq.append(cur.line)
            if k < len(pat) - 1:
                nx = cur.next
                if len(nx) == 1:
                    cur = nx[0]
                elif len(nx) > 1 and len({id(x) for x in nx}) == 1:
                    verdict = None  # both edges of a conditional branch coincide: "straight-line" is debatable
                    break
                else:
                    cur = None
        if verdict is True:
            sure.add(u.line)
            lists[u.line] = seq
        elif verdict is None:
            amb.add(u.line)
    # backward reachability from match starts inside the reachable part
    preds: Dict[int, List[Any]] = {}
    for u in reach.values():
        for v in u.next:
            preds.setdefault(id(v), []).append(u)

    def back(starts: Set[int]) -> Tuple[Set[int], Set[int]]:
        """(nodes with a non-empty path to a start, nodes with a possibly empty path)"""
        strict: Dict[int, Any] = {}
        todo2 = [u for u in reach.values() if u.line in starts]
        seen0 = {id(u) for u in todo2}
        while todo2:
            v = todo2.pop()
            for p in preds.get(id(v), []):
                if id(p) not in strict:
                    strict[id(p)] = p
                    todo2.append(p)
        s = {p.line for p in strict.values()}
        return s, s | {reach[i].line for i in seen0}
    lower, _ = back(sure)
    _, upper = back(sure | amb)
    if any(len(ps) > 1 for ps in preds.values()) or preds.get(id(start)):   # the entry edge into `start` counts as one
        lists[-1] = []      # marker: the reachable part has a join (diamond / loop), the only shape in which D10 can show
    return sure, amb, lower, upper, lists


def _regex_program(args: Tuple[str, str, int, int, int]) -> Dict[str, Any]:
    name, src, maxlen, seed, cap = args
    from tealer.teal.parse_teal import parse_teal
    from tealer.teal.instructions.instructions import Label
    from tealer.utils.regex.regex import match_regex, parse_regex
    out: Dict[str, Any] = {"name": name, "evals": 0, "viol": [], "skipped_labels": 0}
    rnd = random.Random(f"{seed}/{name}")
    try:
        with _quiet():
            teal = parse_teal(src)
    except BaseException as e:  # noqa: BLE001
        out["viol"].append(("program-rejected", f"parse_teal raises {type(e).__name__}: {e}", {"teal": src}))
        return out
    text_of = {id(i): str(i) for i in teal.instructions}
    for i in list(teal.instructions):
        for v in i.next:
            text_of.setdefault(id(v), str(v))
    by_line = {i.line: i for i in teal.instructions}
    starts: List[Tuple[str, Any]] = [("*", teal.instructions[0])]
    src_labels = [l.strip()[:-1] for l in src.splitlines() if l.strip().endswith(":")]
    for lab in src_labels:
        found = [i for i in teal.instructions if isinstance(i, Label) and i.label == lab]
        if len(found) == 1:
            starts.append((lab, found[0]))
        else:
            out["skipped_labels"] += 1
    starts.append(("no_such_label", None))
    for pat in _patterns(teal, src, maxlen, rnd, cap):
        body = "\n".join(rnd.choice(["", " ", "   ", "\t"]) + e[0] + rnd.choice(["", "", " // c"]) for e in pat)
        for lab, start in starts:
            out["evals"] += 1
            rtext = f"{lab} =>\n{body}" if rnd.random() < 0.7 else f"\n  {lab}   =>   \n{body}\n"
            data = {"teal": src, "program": name, "regex": rtext}
            try:
                with _quiet():
                    rx = parse_regex(rtext)
                    matches, covered = match_regex(teal, rx)
            except BaseException as e:  # noqa: BLE001
                out["viol"].append(("regex-crash", f"match_regex raises {type(e).__name__}: {e}", {**data, "trace": traceback.format_exc()[-400:]}))
                continue
            got_lists = sorted([i.line for i in m] for m in matches)
            cov = {i.line for i in covered}
            if start is None:
                if got_lists or cov:
                    out["viol"].append(("regex-matches-wrong", "unknown label yields matches", {**data, "observed": got_lists}))
                continue
            sure, amb, lower, upper, lists = _oracle(start, pat, text_of)
            got_starts = [m[0] for m in got_lists]
            bad = None
            if len(set(got_starts)) != len(got_starts):
                bad = f"a match start is reported twice: {got_lists}"
            elif not (sure <= set(got_starts) <= sure | amb):
                bad = f"match starts (lines) {sorted(got_starts)}, expected {sorted(sure)}" + (f" (+ optional {sorted(amb)})" if amb else "")
            else:
                for m in got_lists:
                    if m[0] in lists and m != lists[m[0]]:
                        bad = f"match at line {m[0]} lists lines {m}, expected {lists[m[0]]}"
                        break
                    if any(by_line.get(l) is None for l in m):
                        bad = f"match lists an instruction that is not in the contract: {m}"
                        break
            if bad:
                out["viol"].append(("regex-matches-wrong", bad, {**data, "observed_matches": got_lists, "expected_match_starts": sorted(sure)}))
                continue
            if not lower <= cov:
                out["viol"].append(("regex-covered-incomplete" if -1 in lists else "regex-covered-incomplete-without-join",
                                    f"covered misses lines {sorted(lower - cov)} that lie on a path from `{lab}` to a match start",
                                    {**data, "observed_covered": sorted(cov), "expected_at_least": sorted(lower), "match_starts": sorted(sure)}))
            elif not cov <= upper:
                out["viol"].append(("regex-covered-unsound",
                                    f"covered contains lines {sorted(cov - upper)} that are on no path from `{lab}` to a match",
                                    {**data, "observed_covered": sorted(cov), "expected_at_most": sorted(upper), "match_starts": sorted(sure)}))
    return out


def _oracle_selftest() -> None:
    """hand-computed cases for the oracle itself (a failure here is a bug of this file, raised, never reported as a violation)"""
    class N:
        def __init__(self, line: int, text: str):
            self.line, self.text, self.next = line, text, []
    # 1:a -> 2:bnz -> {3:x -> 5:m, 4:y -> 5:m} ; 5:m -> 6:n
    n = {k: N(k, t) for k, t in [(1, "a"), (2, "br"), (3, "x"), (4, "y"), (5, "m"), (6, "n")]}
    n[1].next = [n[2]]
    n[2].next = [n[3], n[4]]
    n[3].next = [n[5]]
    n[4].next = [n[5]]
    n[5].next = [n[6]]
    text_of = {id(v): v.text for v in n.values()}
    pat = [("m", N, "m"), ("n", N, "n")]
    sure, amb, lower, upper, lists = _oracle(n[1], pat, text_of)
    assert (sure, amb, lower, upper, lists) == ({5}, set(), {1, 2, 3, 4}, {1, 2, 3, 4, 5}, {5: [5, 6], -1: []}), (sure, amb, lower, upper, lists)
    sure, amb, lower, upper, lists = _oracle(n[1], [("br", N, "br"), ("x", N, "x")], text_of)
    assert sure == set() and lower == set() and upper == set()
    sure, amb, lower, upper, lists = _oracle(n[4], [("a", N, "a")], text_of)
    assert sure == set()
    # loop 1 -> 2 -> 3 -> 1, 3 -> 4 ; pattern at 2
    m = {k: N(k, t) for k, t in [(1, "h"), (2, "p"), (3, "br"), (4, "e")]}
    m[1].next = [m[2]]
    m[2].next = [m[3]]
    m[3].next = [m[1], m[4]]
    text_of = {id(v): v.text for v in m.values()}
    sure, amb, lower, upper, lists = _oracle(m[1], [("p", N, "p")], text_of)
    assert (sure, lower, upper) == ({2}, {1, 2, 3}, {1, 2, 3}), (sure, lower, upper)
    assert ref_tokens('a "s tring //" // "comment"') == (["a", '"s tring //"'], '// "comment"')
    assert ref_tokens('  int 1//c ') == (["int", "1"], "//c")
    assert ref_tokens('byte base64 //8= // x') == (["byte", "base64", "//8="], "// x")
    assert ref_tokens('byte b64(//8=)//x') == (["byte", "b64(//8=)"], "//x")
    assert ref_tokens('byte "a\\\\"  ') == (["byte", '"a\\\\"'], None)
    try:
        ref_tokens('byte "a\\\\" // x')
        raise AssertionError("expected Ambiguous")
    except Ambiguous:
        pass
    assert ref_unescape('"a\\\\"') == b"a\\" and ref_unescape('"\\x41\\n\\""') == b'A\n"'
    assert ref_int("0x10") == 16 and ref_int("010") == 8 and ref_int("10") == 10 and ref_int("0") == 0 and ref_int("-1") == -1
    assert ref_bytes(["base32", "MFRGGZDFMY"], 0) == (b"abcdef", 2) and ref_bytes(["b64(YWJj)"], 0) == (b"abc", 1)


def random_cfg_programs(seed: int, n: int) -> List[str]:
    """random small control-flow graphs with joins, re-converging fall-through paths, loops and repeated short instruction
    texts, so that occurrences of a pattern lie behind different routes (a successor already explored through one route,
    another occurrence reachable only through a later successor)"""
    import random as _r
    rnd = _r.Random(seed * 7919 + 17)
    out = []
    for _ in range(n):
        nb = rnd.randint(4, 9)
        lines = ["#pragma version 8"]
        for b in range(nb):
            if b > 0:
                lines.append(f"L{b}:")
            k = rnd.randint(0, 3)
            body = rnd.choice([[f"int {k}", "pop"], [f"int {k}", "pop", f"int {rnd.randint(0, 3)}", "pop"], ["txn Fee", "pop"], []])
            lines += body
            last = b == nb - 1
            kind = rnd.choice(["fall", "b", "bz", "bnz", "bnz", "ret"]) if not last else rnd.choice(["ret", "b"])
            tgt = rnd.randint(1, nb - 1)
            if kind == "b":
                lines.append(f"b L{tgt}")
            elif kind in ("bz", "bnz"):
                lines += ["txn NumAppArgs", f"{kind} L{tgt}"]
            elif kind == "ret":
                lines += [f"int {rnd.randint(0, 1)}", "return"]
        if lines[-1] != "return" and not lines[-1].startswith("b "):
            lines += ["int 0", "return"]
        out.append("\n".join(lines) + "\n")
    return out


@standin("C20")
def regex_engine(tier: str = "quick", seed: int = 0, known: Any = None) -> Dict[str, Any]:
    from bounded import gen
    t0 = time.time()
    _oracle_selftest()
    C = Collector("C20", "regex_engine", known)
    limit, maxlen, cap = (400, 3, 60) if tier == "quick" else (10000, 4, 150)
    jobs = [(f"hand/{n}", s, maxlen, seed, 10 ** 6) for n, s in HAND_PROGRAMS]
    jobs += [(p["name"], p["src"], maxlen, seed, cap) for p in gen.programs(2, seed=seed, limit=limit)]
    jobs += [(f"randcfg/{k}", s, maxlen, seed, cap) for k, s in enumerate(random_cfg_programs(seed, 2500 if tier == "quick" else 30000))]
    # a long straight-line contract: the engine is recursive
    long_src = "#pragma version 8\n" + "int 1\npop\n" * 700 + "int 7\nreturn\n"
    with mp.get_context("fork").Pool(16) as pool:
        results = pool.map(_regex_program, jobs, chunksize=4)
    evals = sum(r["evals"] for r in results)
    for r in results:
        for cls, failure, data in r["viol"]:
            C.add(cls, failure, **data)
    # long program, one pattern, in-process
    evals += 1
    from tealer.teal.parse_teal import parse_teal
    from tealer.utils.regex.regex import match_regex, parse_regex
    teal = None
    try:
        with _quiet():
            teal = parse_teal(long_src)
    except BaseException:  # noqa: BLE001   (a parse_teal problem on long files belongs to C17, not to this stand-in)
        pass
    if teal is not None:
        long_desc = "'#pragma version 8\\n' + 'int 1\\npop\\n' * 700 + 'int 7\\nreturn\\n'"
        try:
            with _quiet():
                matches, covered = match_regex(teal, parse_regex("* =>\nint 7\nreturn"))
            if [[i.line for i in m] for m in matches] != [[1402, 1403]] or {i.line for i in covered} != set(range(1, 1402)):
                C.add("regex-matches-wrong", "long straight-line program: wrong result", regex="* =>\nint 7\nreturn",
                      teal=long_desc, observed=[[i.line for i in m] for m in matches])
        except BaseException as e:  # noqa: BLE001
            C.add("regex-recursion-on-long-program", f"match_regex raises {type(e).__name__} on a 1403-line straight-line program "
                  "(_find_instructions recurses once per instruction)", regex="* =>\nint 7\nreturn", teal=long_desc,
                  observed=f"{type(e).__name__}: {str(e)[:100]}")
    summary = {
        "function": "tealer.utils.regex.regex.parse_regex / match_regex (_find_label, _find_instructions, _is_match, _is_equal)",
        "contract": "matches == exactly the reachable straight-line occurrences (each listed in order); covered == instructions on a "
                    "path from the label to a match start (lower bound: non-empty path; upper bound: incl. the match starts)",
        "bound": f"{len(HAND_PROGRAMS)} hand-written graphs (all windows) + gen.programs(2, seed={seed}, limit={limit}) x every label + `*` "
                 f"+ an unknown label x <= {cap} patterns of 1..{maxlen} lines (all source windows, 15% with an absent line, random "
                 f"combinations) + one 1403-instruction straight-line program",
        "evaluations": evals, "programs": len(jobs) + 1, "exhaustive": False,
        "labels_skipped_not_in_contract": sum(r["skipped_labels"] for r in results),
    }
    summary["seconds"] = round(time.time() - t0, 2)
    return C.result(summary)


if __name__ == "__main__":
    import json
    tier_ = sys.argv[1] if len(sys.argv) > 1 else "quick"
    known_ = set(sys.argv[2].split(",")) if len(sys.argv) > 2 else None
    for fn in (lines_parse_and_print_back, regex_engine):
        r_ = fn(tier_, 0, known_)
        print("=" * 100)
        print(fn.__name__, json.dumps(r_["summary"], indent=1, default=str))
        for v_ in r_["violations"]:
            d_ = dict(v_["data"])
            for k_ in ("teal", "observed_covered", "expected_at_least", "trace"):
                if k_ in d_ and len(str(d_[k_])) > 300:
                    d_[k_] = str(d_[k_])[:300] + "..."
            print("-" * 60)
            print(v_["file"], json.dumps(d_, indent=1, default=str))
