"""Exhaustive (over classes) native comparison of the immediates-independent table columns with spec/avm_ops.py and with
pyteal's independent tables (C19 version/mode, C11/C19 defaults inherited from Instruction, field versions)."""
from __future__ import annotations

import time
import types
from typing import Any, Dict

from bounded.registry import standin

CLASS_TO_FINDING = {"pushes:frame_bury": "D14"}


def _run(pid: str, known: Any) -> Dict[str, Any]:
    t0 = time.time()
    from spec.avm_ops import OPS, static_cost, effect
    from contracts.tables import class_of, SAMPLES
    from tealer.teal.basic_blocks import BasicBlock
    from tealer.utils.teal_enums import ExecutionMode
    known = set(known or [])
    evals = 0
    bad = []
    attributed: Dict[str, int] = {}
    MODE = {"any": ExecutionMode.ANY, "sig": ExecutionMode.STATELESS, "app": ExecutionMode.STATEFUL}

    def report(cls_, msg):
        fid = CLASS_TO_FINDING.get(cls_)
        if fid in known:
            attributed[fid] = attributed.get(fid, 0) + 1
        else:
            bad.append((cls_, msg))
    for mn, (pops, pushes, ver, mode, cost) in OPS.items():
        try:
            cls, ins = class_of(mn)
        except Exception as e:
            report(f"parse:{mn}", f"sample line for {mn} does not parse: {e!r}")
            continue
        if type(ins).__name__ == "UnsupportedInstruction":
            report(f"parse:{mn}", f"{mn} is parsed as UnsupportedInstruction")
            continue
        evals += 1
        if pid == "C19":
            if ins.version != ver:
                report(f"version:{mn}", f"{mn}: version {ins.version}, AVM {ver}")
            if ins.mode != MODE[mode]:
                report(f"mode:{mn}", f"{mn}: mode {ins.mode}, AVM {mode}")
            bb = BasicBlock()
            ins.bb = bb
            for v in range(ver, 9):
                bb._teal = types.SimpleNamespace(version=v)  # type: ignore
                for curve in (["Secp256k1", "Secp256r1"] if isinstance(cost, dict) and "curve" in cost else [None]):
                    if curve:
                        from tealer.teal.instructions.parse_instruction import parse_line
                        i2 = parse_line(f"{mn} {curve}")
                        i2.bb = bb
                    else:
                        i2 = ins
                    want = static_cost(mn, v, curve or "Secp256k1")
                    evals += 1
                    if i2.cost != want:
                        report(f"cost:{mn}", f"{mn} {curve or ''} at version {v}: cost {i2.cost}, AVM {want}")
        else:
            # classes that define the property themselves are proved for all immediates (contracts/tables.py); the
            # inherited default (0) is compared here
            from tealer.teal.instructions.instructions import Instruction as _I
            for prop, want in (("stack_pop_size", pops), ("stack_push_size", pushes)):
                definer = next((k for k in cls.__mro__ if prop in vars(k)), None)
                if definer is _I:
                    if not isinstance(want, int) or getattr(ins, prop) != want:
                        report(f"{'pops' if 'pop' in prop else 'pushes'}:{mn}", f"{SAMPLES.get(mn, mn)}: inherits {prop} = "
                               f"{getattr(ins, prop)}, AVM {want}")
    if pid == "C19":
        # independent cross-read: pyteal's opcode and field tables
        try:
            import pyteal
            for op in pyteal.Op:
                mn = op.value.value if hasattr(op.value, "value") else str(op.value)
                if mn in OPS and mn not in ("method",):
                    evals += 1
                    if max(op.min_version, 2) != max(OPS[mn][2], 2):
                        bad.append((f"spec-vs-pyteal:{mn}", f"spec says {mn} is v{OPS[mn][2]}, pyteal v{op.min_version} (table conflict: not a tealer finding)"))
            from tealer.teal.instructions.parse_transaction_field import TX_FIELD_TXT_TO_OBJECT
            for f in pyteal.TxnField:
                nm = f.arg_name
                c = TX_FIELD_TXT_TO_OBJECT.get(nm)
                if c is None:
                    continue
                evals += 1
                tv = c().version if not _needs_arg(c) else c(0).version
                if max(tv, 2) != max(f.min_version, 2):
                    report(f"field-version:{nm}", f"txn field {nm}: tealer v{tv}, pyteal v{f.min_version}")
        except ImportError:
            pass
    res: Dict[str, Any] = {"summary": {"function": "Instruction subclasses: version/mode/cost (C19) or default stack effect (C11)",
                                       "contract": "equal to the row of spec/avm_ops.py (and to pyteal's tables for versions)",
                                       "bound": f"{len(OPS)} mnemonics x versions 1..8 (x curves)", "evaluations": evals,
                                       "exhaustive": True, "failures": len(bad), "attributed_to_listed_findings": attributed,
                                       "seconds": round(time.time() - t0, 2)}, "violations": [], "known_lines": []}
    real = [b for b in bad if not b[0].startswith("spec-vs-pyteal")]
    res["summary"]["spec_table_conflicts"] = [b[1] for b in bad if b[0].startswith("spec-vs-pyteal")]
    for i, (cls_, msg) in enumerate(real[:5]):
        res["violations"].append({"file": f"table_{pid}_{i}.json", "data": {"property": pid, "standin": "tablecheck", "class": cls_,
                                                                                  "failure": msg}})
    res["summary"]["failures"] = len(real)
    return res


def _needs_arg(c: Any) -> bool:
    import inspect
    try:
        return len(inspect.signature(c.__init__).parameters) > 1
    except Exception:
        return False


@standin("C19")
def tables_c19(tier: str = "quick", seed: int = 0, known: Any = None) -> Dict[str, Any]:
    return _run("C19", known)


@standin("C11")
def tables_c11(tier: str = "quick", seed: int = 0, known: Any = None) -> Dict[str, Any]:
    return _run("C11", known)


if __name__ == "__main__":
    import json
    for f in (tables_c19, tables_c11):
        r = f(known={"D14"})
        print(json.dumps(r["summary"])[:900])
        for v in r["violations"]:
            print("  ", v["data"]["failure"])


@standin("C19")
def verify_version_exhaustive(tier: str = "quick", seed: int = 0, known: Any = None) -> Dict[str, Any]:
    """_verify_version on every (field-carrying instruction x field of its kind x declared version), and on two-instruction
    lists for the mixed-mode flag: exhaustive over the finite space (complete)."""
    import contextlib
    import io
    import inspect
    t0 = time.time()
    from tealer.teal.parse_teal import _verify_version
    from tealer.teal.instructions import instructions as I
    from tealer.teal.instructions import transaction_field as TF
    from tealer.teal import global_field as GF
    from tealer.teal.instructions import asset_holding_field as AH, asset_params_field as AP, app_params_field as APP, \
        acct_params_field as AC
    from tealer.utils.teal_enums import ExecutionMode

    def fields(mod, base):
        out = []
        for n, c in vars(mod).items():
            if inspect.isclass(c) and issubclass(c, base) and c is not base and c.__module__ == mod.__name__:
                try:
                    out.append(c() if len(inspect.signature(c.__init__).parameters) <= 1 else c(0))
                except Exception:
                    pass
        return out
    kinds = {
        "txn": (lambda f: I.Txn(f), fields(TF, TF.TransactionField)),
        "gtxn": (lambda f: I.Gtxn(0, f), fields(TF, TF.TransactionField)),
        "itxn_field": (lambda f: I.Itxn_field(f) if hasattr(I, 'Itxn_field') else I.ItxnField(f), fields(TF, TF.TransactionField)),
        "global": (lambda f: I.Global(f), fields(GF, GF.GlobalField)),
        "asset_holding_get": (lambda f: I.AssetHoldingGet(f), fields(AH, AH.AssetHoldingField)),
        "asset_params_get": (lambda f: I.AssetParamsGet(f), fields(AP, AP.AssetParamsField)),
        "app_params_get": (lambda f: I.AppParamsGet(f), fields(APP, APP.AppParamsField)),
        "acct_params_get": (lambda f: I.AcctParamsGet(f), fields(AC, AC.AcctParamsField)),
    }
    evals = 0
    bad = []
    harness_notes: list = []
    for kname, (mk, fl) in kinds.items():
        for f in fl:
            try:
                ins = mk(f)
            except Exception as e:
                harness_notes.append(f"cannot build {kname} instruction: {e!r}")   # a harness problem is never a violation
                break
            for pv in range(1, 9):
                evals += 1
                want = pv < ins.version or pv < f.version
                with contextlib.redirect_stderr(io.StringIO()):
                    got = _verify_version([ins], pv)
                if bool(got) != want:
                    bad.append((f"verify-version:{kname}", f"`{ins}` with #pragma version {pv}: flagged={got}, AVM (instruction v{ins.version}, "
                                                             f"field v{f.version}) says {want}"))
    # mixed modes
    any_i, sig_i, app_i = I.Int(1), I.Arg(0), I.Balance()
    for lst, want in (([any_i], False), ([sig_i], False), ([app_i], False), ([sig_i, app_i], True), ([app_i, any_i, sig_i], True)):
        evals += 1
        with contextlib.redirect_stderr(io.StringIO()):
            got = _verify_version(lst, 8)
        if bool(got) != want:
            bad.append(("verify-version:mixed-mode", f"{[str(x) for x in lst]}: flagged={got}, expected {want}"))
    res: Dict[str, Any] = {"summary": {"function": "parse_teal._verify_version", "contract": "flag <=> instruction or field introduced after the declared "
                                       "version, or both modes present", "bound": "every field class of 8 field-carrying opcodes x versions 1..8 + mode lists",
                                       "evaluations": evals, "exhaustive": True, "failures": len(bad), "harness_notes": harness_notes,
                                       "seconds": round(time.time() - t0, 2)},
                           "violations": [], "known_lines": []}
    seen = set()
    for cls_, msg in bad:
        if cls_ in seen or len(res["violations"]) >= 5:
            continue
        seen.add(cls_)
        res["violations"].append({"file": f"verify_version_{len(seen)}.json", "data": {"property": "C19", "standin": "verify_version_exhaustive",
                                                                                          "class": cls_, "failure": msg}})
    return res


@standin("C19")
def mode_classification(tier: str = "quick", seed: int = 0, known: Any = None) -> Dict[str, Any]:
    """The program-level half of C19: a program is Stateful (Stateless) exactly when it *uses* an application-only
    (signature-only) opcode -- wherever in the text, reachable or not, as the AVM checks opcodes over the whole program --
    and that classification decides application vs logic signature.  Every mode-specific mnemonic of the AVM table
    (spec/avm_ops.py) x placements (live, after `return`, after `err`, after `b`, inside an uncalled subroutine)."""
    import logging
    logging.disable(logging.CRITICAL)
    t0 = time.time()
    from spec.avm_ops import OPS
    from contracts.tables import SAMPLES
    from tealer.teal.parse_teal import parse_teal
    from tealer.utils.teal_enums import ExecutionMode
    from tealer.utils.command_line.common import init_tealer_from_single_contract
    want_of = {"app": ExecutionMode.STATEFUL, "sig": ExecutionMode.STATELESS, "any": ExecutionMode.ANY}
    placements = {
        "live": lambda line, pre, post: f"{pre}{line}\n{post}int 1\nreturn\n",
        "after-return": lambda line, pre, post: f"int 1\nreturn\n{pre}{line}\n{post}",
        "after-err": lambda line, pre, post: f"int 1\nbnz ok\nerr\n{pre}{line}\n{post}ok:\nint 1\nreturn\n",
        "after-b": lambda line, pre, post: f"b end\n{pre}{line}\n{post}end:\nint 1\nreturn\n",
        "uncalled-subroutine": lambda line, pre, post: f"int 1\nreturn\nsub:\n{pre}{line}\n{post}retsub\n",
    }
    evals = 0
    bad: list = []
    notes: list = []
    for mn, (pops, pushes, ver, mode, cost) in sorted(OPS.items()):
        if mode == "any" and mn not in ("int", "txn", "global", "sha256"):
            continue
        line = SAMPLES.get(mn, mn)
        if any(x in line.split() for x in ("l", "l1", "l2")):
            continue
        npop = pops if isinstance(pops, int) else 3
        npush = pushes if isinstance(pushes, int) else 3
        pre = "int 1\n" * npop
        post = "pop\n" * npush
        for pname, mk in placements.items():
            src = f"#pragma version 8\n" + mk(line, pre, post)
            evals += 1
            try:
                teal = parse_teal(src)
            except Exception as e:  # pylint: disable=broad-except
                notes.append(f"{mn}/{pname}: parse_teal raised {type(e).__name__}")   # C17's business
                continue
            if teal.mode != want_of[mode]:
                bad.append((f"mode:{pname}", f"`{line}` ({mode}-only, placement {pname}): classified {teal.mode}, expected {want_of[mode]}", src))
    # routing: the classification decides application vs logic signature
    for mn, line, is_app in (("app_global_get", "byte 0x00\napp_global_get\npop", True), ("arg", "arg 0\npop", False)):
        for pname in ("live", "after-return"):
            src = "#pragma version 8\n" + placements[pname](line, "", "")
            evals += 1
            try:
                tealer = init_tealer_from_single_contract(src, "f")
            except Exception as e:  # pylint: disable=broad-except
                notes.append(f"routing {mn}/{pname}: {type(e).__name__}")
                continue
            got_app = tealer.contracts["f"].contract_type.name != "LogicSig" if hasattr(tealer.contracts["f"], "contract_type") else None
            if got_app is not None and got_app != is_app:
                bad.append((f"routing:{pname}", f"`{mn}` ({pname}): analysed as {'application' if got_app else 'logic signature'}", src))
    res: Dict[str, Any] = {"summary": {"function": "parse_teal.parse_teal (_detect_execution_mode) / init_tealer_from_single_contract",
                                       "contract": "mode == Stateful/Stateless <=> an app-only / sig-only opcode occurs anywhere in the program text; "
                                                   "the mode decides application vs logic signature",
                                       "bound": "every mode-specific mnemonic of the AVM table x 5 placements (live and 4 unreachable ones) + 4 any-mode controls",
                                       "evaluations": evals, "exhaustive": False, "failures": len(bad), "harness_notes": notes[:5],
                                       "seconds": round(time.time() - t0, 2)},
                           "violations": [], "known_lines": []}
    seen = set()
    for cls_, msg, src in bad:
        if cls_ in seen or len(res["violations"]) >= 5:
            continue
        seen.add(cls_)
        res["violations"].append({"file": f"mode_classification_{len(seen)}.json",
                                  "data": {"property": "C19", "standin": "mode_classification (bounded)", "class": cls_, "failure": msg, "teal": src}})
    return res
