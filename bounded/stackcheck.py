"""Bounded stand-in for C11 (Stack.pop_n_values / push_n_values / construct_stack_ast): straight-line instruction sequences are
parsed by the real parser into one basic block, the real construct_stack_ast reconstructs the operands, and an independent
*provenance machine* driven by the AVM table (spec/avm_ops.py) says which earlier instruction really pushed each operand."""
from __future__ import annotations

import itertools
import random
import time
from typing import Any, Dict, List, Optional, Tuple

from bounded.registry import standin

# opcodes with diverse stack effects (incl. 3+-pop, multi-push and shuffling ones); (text, mnemonic, n, len)
POOL: List[Tuple[str, str, int, int]] = [
    ("int 1", "int", 0, 0), ("txn Fee", "txn", 0, 0), ("pop", "pop", 0, 0), ("dup", "dup", 0, 0), ("dup2", "dup2", 0, 0),
    ("swap", "swap", 0, 0), ("+", "+", 0, 0), ("==", "==", 0, 0), ("!", "!", 0, 0), ("select", "select", 0, 0),
    ("setbit", "setbit", 0, 0), ("mulw", "mulw", 0, 0), ("addw", "addw", 0, 0), ("divmodw", "divmodw", 0, 0),
    ("dig 1", "dig", 1, 0), ("dig 2", "dig", 2, 0), ("cover 2", "cover", 2, 0), ("uncover 2", "uncover", 2, 0),
    ("bury 1", "bury", 1, 0), ("popn 2", "popn", 2, 0), ("dupn 2", "dupn", 2, 0), ("pushints 1 2 3", "pushints", 0, 3),
    ("extract3", "extract3", 0, 0), ("gtxns Fee", "gtxns", 0, 0), ("store 1", "store", 0, 0), ("load 1", "load", 0, 0),
    ("app_local_get_ex", "app_local_get_ex", 0, 0), ("frame_dig 1", "frame_dig", 1, 0), ("assert", "assert", 0, 0),
]
CLASS_TO_FINDING = {"operand-mismatch-after:frame_bury": "D14"}


def machine(seq: List[Tuple[str, str, int, int]]) -> List[List[Optional[Tuple[int, int]]]]:
    """for each instruction the provenance of its operands, first-pushed first: (producer position, output index) or None
    for a value from before the block"""
    from spec.avm_ops import effect
    stack: List[Optional[Tuple[int, int]]] = []
    out = []
    for pos, (_, mn, n, ln) in enumerate(seq):
        pops, pushes = effect(mn, n=n, length=ln)
        ops: List[Optional[Tuple[int, int]]] = []
        for _ in range(pops):
            ops.append(stack.pop() if stack else None)
        ops.reverse()
        out.append(ops)
        for k in range(pushes):
            stack.append((pos, k))
    return out


def check_sequence(seq: List[Tuple[str, str, int, int]]) -> Optional[str]:
    from tealer.teal.parse_teal import parse_teal
    from tealer.analyses.utils.stack_ast_builder import construct_stack_ast, KnownStackValue
    src = "#pragma version 8\n" + "\n".join(t for t, *_ in seq) + "\n"
    teal = parse_teal(src)
    construct_stack_ast.cache_clear()
    bb = teal.bbs[0]
    inss = [i for i in bb.instructions][1:]      # skip #pragma
    if len(teal.bbs) != 1 or len(inss) != len(seq):
        return None
    res = construct_stack_ast(bb)
    want = machine(seq)
    pos_of = {id(i): k for k, i in enumerate(inss)}
    for k, ins in enumerate(inss):
        sv = res[ins]
        got = []
        for a in sv.args:
            if isinstance(a, KnownStackValue):
                got.append((pos_of.get(id(a.instruction), -1), a.ins_out_values_index))
            else:
                got.append(None)
        if got != want[k]:
            return (f"`{seq[k][0]}` (position {k}) operands: tealer {got}, AVM {want[k]}  in: " + "; ".join(t for t, *_ in seq))
    return None


def _work(args: Any) -> Tuple[int, List[str]]:
    seqs = args
    fails = []
    for s in seqs:
        try:
            r = check_sequence(list(s))
        except Exception as e:  # a crash of the real code
            r = f"crash {type(e).__name__}: {e} in: " + "; ".join(t for t, *_ in s)
        if r:
            fails.append(r)
    return len(seqs), fails


@standin("C11")
def stack_reconstruction(tier: str = "quick", seed: int = 0, known: Any = None) -> Dict[str, Any]:
    import multiprocessing as mp
    t0 = time.time()
    known = set(known or [])
    rnd = random.Random(seed)
    seqs: List[Tuple[Any, ...]] = []
    small = POOL[:14]
    for n in (1, 2, 3):
        seqs += list(itertools.product(POOL if n < 3 else small, repeat=n))
    nrand = 20000 if tier == "quick" else 400000
    for _ in range(nrand):
        seqs.append(tuple(rnd.choice(POOL) for _ in range(rnd.randint(4, 9))))
    chunks = [seqs[i::64] for i in range(64)]
    with mp.get_context("fork").Pool(16) as pool:
        res = pool.map(_work, chunks)
    evals = sum(r[0] for r in res)
    fails = [f for r in res for f in r[1]]
    attributed: Dict[str, int] = {}
    real = []
    for f in fails:
        cls = "operand-mismatch-after:frame_bury" if "frame_bury" in f else "operand-mismatch"
        fid = CLASS_TO_FINDING.get(cls)
        if fid in known:
            attributed[fid] = attributed.get(fid, 0) + 1
        else:
            real.append((cls, f))
    out: Dict[str, Any] = {"summary": {"function": "stack_ast_builder.Stack.pop_n_values/push_n_values, construct_stack_ast",
                                       "contract": "reconstructed operand producers == provenance machine driven by the AVM stack-effect table",
                                       "bound": f"all sequences of <= 2 over {len(POOL)} opcodes, <= 3 over {len(small)}, {nrand} random sequences of 4..9 (seed {seed})",
                                       "evaluations": evals, "exhaustive": False, "failures": len(real),
                                       "attributed_to_listed_findings": attributed, "seconds": round(time.time() - t0, 1)},
                           "violations": [], "known_lines": []}
    for i, (cls, f) in enumerate(sorted(real, key=lambda x: len(x[1]))[:5]):
        out["violations"].append({"file": f"stack_{i}.json", "data": {"property": "C11", "standin": "stack_reconstruction",
                                                                              "class": cls, "failure": f}})
    return out


if __name__ == "__main__":
    import json
    r = stack_reconstruction()
    print(json.dumps(r["summary"])[:600])
    for v in r["violations"]:
        print(v["data"]["failure"][:300])
