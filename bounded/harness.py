"""BS-PROG: the bounded stand-in shared by C01, C02, C06-C10 (DESIGN.md §4, Appendix C).

Every generated program is run through the real tealer pipeline and through the independent reference interpreter
(spec/avm.py) on the region-representative inputs (bounded/gen.inputs_for).  The top-level contracts of the properties
are evaluated on the pair.  Labelled *bounded*: never counted as proved.
"""
from __future__ import annotations

import contextlib
import io
import logging
import os
import sys
import time
from typing import Any, Dict, Iterator, List, Optional, Tuple

from spec import avm
from bounded import gen

ATTACKER = gen.ATTACKER
MAX_COST = 272000

PATH_DETECTORS = ["rekey-to", "can-close-account", "can-close-asset", "missing-fee-check", "is-updatable", "is-deletable",
                  "unprotected-updatable", "unprotected-deletable", "group-size-check"]


@contextlib.contextmanager
def quiet():
    logging.disable(logging.CRITICAL)
    try:
        with contextlib.redirect_stdout(io.StringIO()), contextlib.redirect_stderr(io.StringIO()):
            yield
    finally:
        logging.disable(logging.NOTSET)


class Analysed:
    """tealer's view of one program"""

    def __init__(self, src: str):
        from tealer.utils.command_line.common import init_tealer_from_single_contract
        from tealer.detectors.all_detectors import __dict__ as dets  # noqa
        import tealer.detectors.all_detectors as all_det
        import inspect
        from tealer.detectors.abstract_detector import AbstractDetector
        self.src = src
        with quiet():
            self.tealer = init_tealer_from_single_contract(src, "p")
            self.teal = self.tealer.contracts["p"]
            self.function = self.teal.functions["p"]
            self.paths: Dict[str, List[List[Any]]] = {}
            classes = [c for c in vars(all_det).values() if inspect.isclass(c) and issubclass(c, AbstractDetector)
                       and c is not AbstractDetector]
            for c in classes:
                if c.NAME in PATH_DETECTORS:
                    self.tealer.register_detector(c)
            for d, out in zip(self.tealer.detectors, self.tealer.run_detectors()):
                ps: List[List[Any]] = []
                for eo in out:
                    ps += list(eo.paths)
                self.paths[d.NAME] = ps
        self.line_block: Dict[int, Any] = {}
        for b in self.function.blocks:
            for ins in b.instructions:
                self.line_block[ins.line] = b

    def ctx(self, block: Any) -> Any:
        return self.function.transaction_context(block)


def dangerous(det: str, g: avm.Group, i: int, res: avm.RunResult, prog: avm.Program) -> bool:
    t = g.txns[i]
    ty, oc = t.get("TypeEnum"), t.get("OnCompletion")
    if det == "rekey-to":
        return t.get("RekeyTo") == ATTACKER
    if det == "can-close-account":
        return ty == 1 and t.get("CloseRemainderTo") == ATTACKER
    if det == "can-close-asset":
        return ty == 4 and t.get("AssetCloseTo") == ATTACKER
    if det == "missing-fee-check":
        return t.get("Fee") > MAX_COST
    if det == "is-updatable":
        return ty == 6 and oc == 4
    if det == "is-deletable":
        return ty == 6 and oc == 5
    if det == "unprotected-updatable":
        return ty == 6 and oc == 4 and t.get("Sender") == ATTACKER
    if det == "unprotected-deletable":
        return ty == 6 and oc == 5 and t.get("Sender") == ATTACKER
    if det == "group-size-check":
        return g.size == 16 and reads_absolute(prog, res)
    return False


def reads_absolute(prog: avm.Program, res: avm.RunResult) -> bool:
    """the run executes gtxn/gtxna/gtxnas, or gtxns/gtxnsa whose index was pushed by an int literal instruction"""
    prev_op = None
    for k in res.trace:
        ins = prog.instrs[k]
        if ins.op in ("gtxn", "gtxna", "gtxnas"):
            return True
        if ins.op in ("gtxns", "gtxnsa") and prev_op in ("int", "pushint", "intc", "intc_0", "intc_1", "intc_2", "intc_3"):
            return True
        if ins.op not in ("label:",):
            prev_op = ins.op
    return False


KIND_LABEL = {1: "Pay", 4: "Axfer"}


def admits(ctx: Any, t: avm.Txn, creator: str, what: str) -> Optional[str]:
    """None if the per-block context admits transaction t, else a description of the first exclusion (C06-C09 relation)."""
    from tealer.utils.teal_enums import TealerTransactionType as L
    ty, oc = t.get("TypeEnum"), t.get("OnCompletion")
    need = None
    if ty == 1:
        need = L.Pay
    elif ty == 4:
        need = L.Axfer
    elif ty == 6 and oc == 4:
        need = L.ApplUpdateApplication
    elif ty == 6 and oc == 5:
        need = L.ApplDeleteApplication
    if need is not None and need not in ctx.transaction_types:
        return f"C07 {what}: kind {need} not in {ctx.transaction_types}"
    for fld, attr in (("RekeyTo", "rekeyto"), ("CloseRemainderTo", "closeto"), ("AssetCloseTo", "assetcloseto"), ("Sender", "sender")):
        a = t.get(fld)
        if a == avm.ZERO_ADDRESS:
            continue
        av = getattr(ctx, attr)
        if av.any_addr or a in av.possible_addr or (a == creator and "CREATOR_ADDRESS" in av.possible_addr):
            continue
        return f"C08 {what}: {fld}={a} not admitted by any={av.any_addr} no={av.no_addr} possible={av.possible_addr}"
    if not ctx.max_fee_unknown and t.get("Fee") > ctx.max_fee:
        return f"C09 {what}: Fee={t.get('Fee')} > max_fee={ctx.max_fee}"
    return None


def check_program(src: str, cap_inputs: int = 400) -> Dict[str, Any]:
    """returns {"violations": [..], "inputs": n, "accepted": n, "error": str|None}"""
    out: Dict[str, Any] = {"violations": [], "inputs": 0, "accepted": 0, "error": None, "crash": None}
    try:
        prog = avm.parse(src)
    except avm.Unsupported as e:
        out["error"] = f"avm: {e}"
        return out
    try:
        A = Analysed(src)
    except Exception as e:
        import traceback
        out["crash"] = f"{type(e).__name__}: {e} :: {traceback.format_exc()[-600:]}"
        return out
    danger_seen: Dict[str, Any] = {}
    viol_seen = set()
    for g, i, unrel in gen.inputs_for(src, cap=cap_inputs):
        out["inputs"] += 1
        try:
            res = avm.run(prog, g, i, unrelated=unrel)
        except avm.Unsupported as e:
            out["error"] = f"avm: {e}"
            return out
        if not res.accepted:
            continue
        out["accepted"] += 1
        desc = {"size": g.size, "idx": i, "txn": {k: v for k, v in g.txns[i].fields.items()} if hasattr(g.txns[i], "fields") else str(g.txns[i]),
                "unrelated": unrel}
        for det in PATH_DETECTORS:
            if det not in danger_seen and dangerous(det, g, i, res, prog):
                danger_seen[det] = desc
        # C06-C10 soundness along the trace
        blocks = []
        for ln in res.lines:
            b = A.line_block.get(ln)
            if b is not None and (not blocks or blocks[-1] is not b):
                blocks.append(b)
        for b in blocks:
            ctx = A.ctx(b)
            key = None
            msg = None
            if g.size not in ctx.group_sizes:
                msg = f"C06 size {g.size} not in {sorted(ctx.group_sizes)}"
            elif i not in ctx.group_indices:
                msg = f"C06 index {i} not in {sorted(ctx.group_indices)}"
            else:
                msg = admits(ctx, g.txns[i], g.creator, "own")
                if msg is None:
                    m2 = admits(ctx.gtxn_context(i), g.txns[i], g.creator, f"gtxn_context({i})")
                    msg = m2.replace("C0", "C10/C0", 1) if m2 else None
                if msg is None:
                    for j in range(g.size):
                        m2 = admits(ctx.absolute_context(j), g.txns[j], g.creator, f"absolute_context({j})")
                        if m2:
                            msg = "C10 " + m2
                            break
                        k = j - i
                        if k != 0:
                            m2 = admits(ctx.relative_context(k), g.txns[j], g.creator, f"relative_context({k})")
                            if m2:
                                msg = "C10 " + m2
                                break
            if msg:
                vk = (msg.split(":")[0], b.idx)
                if vk not in viol_seen:
                    viol_seen.add(vk)
                    out["violations"].append({"kind": "context-unsound", "prop": msg.split()[0].split("/")[0], "block": b.idx,
                                              "detail": msg, "input": desc})
    # C01
    for det, desc in danger_seen.items():
        if not A.paths.get(det):
            out["violations"].append({"kind": "missed-detection", "prop": "C01", "detector": det, "input": desc,
                                      "detail": f"accepted dangerous input but {det} reports no path"})
    # C02
    for det, ps in A.paths.items():
        for msg in check_paths(A, prog, ps):
            out["violations"].append({"kind": "bad-path", "prop": "C02", "detector": det, "detail": msg})
            break
    return out


def check_paths(A: Analysed, prog: avm.Program, paths: List[List[Any]]) -> Iterator[str]:
    """C02: structural validity of reported paths against the AVM control rules (independent of tealer's edge lists)."""
    # successor lines of each instruction by the AVM rules
    label_line = {ins.args[0]: ins.line for ins in prog.instrs if ins.op == "label:"}
    instrs = [ins for ins in prog.instrs]
    nxt: Dict[int, int] = {}
    for a, b in zip(instrs, instrs[1:]):
        nxt[a.line] = b.line
    first_line = instrs[0].line if instrs else 0
    last_line = instrs[-1].line if instrs else 0
    by_line = {ins.line: ins for ins in instrs}
    seen = set()
    for p in paths:
        ids = tuple(b.idx for b in p)
        if ids in seen:
            yield f"path {ids} reported twice"
        seen.add(ids)
        if not p:
            yield "empty path"
            continue
        if p[0].instructions[0].line != first_line:
            yield f"path {ids} does not start at the entry block"
        stack: List[Any] = []       # return lines
        visited: List[set] = [set()]
        for k, b in enumerate(p):
            if b.idx in visited[-1]:
                yield f"path {ids} revisits block {b.idx} inside one activation"
            visited[-1].add(b.idx)
            last = by_line.get(b.instructions[-1].line)
            if last is None:
                break
            if k == len(p) - 1:
                if not (last.op == "return" or last.line == last_line and last.op not in ("b", "callsub", "retsub", "err")):
                    yield f"path {ids} ends in block {b.idx} whose last instruction `{last.op}` cannot terminate the program"
                break
            nb = p[k + 1]
            tgt = nb.instructions[0].line
            op = last.op
            fall = nxt.get(last.line)
            if op == "b":
                ok = tgt == label_line.get(last.args[0])
            elif op in ("bz", "bnz"):
                ok = tgt in (label_line.get(last.args[0]), fall)
            elif op in ("switch", "match"):
                ok = tgt in [label_line.get(a) for a in last.args] + [fall]
            elif op == "callsub":
                ok = tgt == label_line.get(last.args[0])
                stack.append(fall)
                visited.append(set())
            elif op == "retsub":
                ok = bool(stack) and tgt == stack[-1]
                if stack:
                    stack.pop()
                    visited.pop()
            elif op in ("return", "err"):
                ok = False
            else:
                ok = tgt == fall
            if not ok:
                yield f"path {ids}: step {b.idx}->{nb.idx} is not an AVM control transfer of `{op}`"
                break
