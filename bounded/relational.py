"""Relational bounded stand-ins (DESIGN.md §4, §8): properties that relate *several* runs of the real tealer pipeline.

    C15  metamorphic      verdicts / contexts invariant under meaning-preserving rewrites of the source
    C14  input_only       no history, detector-order, repetition or hash-seed effects; syntactic shared-state scan
    C13  group_verdicts   group-configuration verdicts against brute-force group semantics (spec/avm.py)

Oracles are independent of tealer: the rewrites are built on an own line/token model and each rewritten program is
cross-checked against the original with the reference interpreter (spec/avm.py) before it is used (a disagreement is a
bug of the rewrite: the case is dropped and counted, never reported); C14 compares tealer with itself across
histories / orders / seeds (the property *is* that relation); C13's ground truth runs every configured contract of a
configuration with spec/avm.py on concrete groups found by a lazy exhaustive search over region-representative field
values.  Everything here is *bounded*: never counted as proved.
"""
from __future__ import annotations

import ast
import hashlib
import multiprocessing as mp
import os
import random
import shutil
import subprocess
import sys
import tempfile
import time
import traceback
from typing import Any, Callable, Dict, Iterator, List, Optional, Sequence, Set, Tuple

from bounded.registry import standin
from spec import avm


def repo_root() -> str:
    """the tree the imported tealer comes from (/repo, or the scratch copy named by VERIF_REPO)"""
    import tealer
    return os.path.dirname(os.path.dirname(os.path.abspath(tealer.__file__)))


NPROC = 16

# class -> listed finding.  Filled for the classes that were matched to a known finding on the unchanged tree.
CLASS_TO_FINDING: Dict[str, str] = {
    # a logic-sig that asserts `txn OnCompletion == NoOp` is taken to exclude payments (D5): the group verdict inherits it
    "C13-unsound:can-close-account+D5": "D5",
    "C13-unsound:can-close-asset+D5": "D5",
    "C13-unsound:is-updatable+D5": "D5",
    "C13-unsound:is-deletable+D5": "D5",
    "C13-imprecise:other-member-offset-declared-by-target-only": "D31",
    "C15-x-comment-attached": "D26",
    # spellings the property does not name (it says decimal, hex `0x`, octal `0`-prefixed): recorded, not claimed
    "C15-x-int-0X": "NOTE-outside-claim",
    "C15-x-int-0o": "NOTE-outside-claim",
}


# ======================================================================================================
# shared helpers: one tealer run, context signatures
# ======================================================================================================

def _detector_classes() -> List[Any]:
    import inspect
    import tealer.detectors.all_detectors as all_det
    from tealer.detectors.abstract_detector import AbstractDetector
    from bounded.harness import PATH_DETECTORS
    cl = [c for c in vars(all_det).values() if inspect.isclass(c) and issubclass(c, AbstractDetector)
          and c is not AbstractDetector and c.NAME in PATH_DETECTORS]
    return sorted(cl, key=lambda c: c.NAME)


def _addr_sig(a: Any) -> Tuple[Any, ...]:
    return (bool(a.any_addr), bool(a.no_addr), tuple(sorted(set(a.possible_addr))))


def _flat_sig(c: Any) -> Tuple[Any, ...]:
    """One BlockTransactionContext as the sets it denotes (tealer stores list(set(..)) for four of them)."""
    return (tuple(sorted(set(c.group_sizes))), tuple(sorted(set(c.group_indices))),
            tuple(sorted(str(t) for t in set(c.transaction_types))),
            _addr_sig(c.rekeyto), _addr_sig(c.closeto), _addr_sig(c.assetcloseto), _addr_sig(c.sender),
            int(c.max_fee), bool(c.max_fee_unknown))


FLAT_NAMES = ("group_sizes", "group_indices", "transaction_types", "rekeyto", "closeto", "assetcloseto", "sender",
              "max_fee", "max_fee_unknown")
SUB_INDICES = (0, 1, 2, 3)
SUB_OFFSETS = (-3, -2, -1, 1, 2, 3)


def ctx_sig(ctx: Any, deep: bool = True) -> Dict[str, Any]:
    """own-level fields plus (deep) the gtxn / absolute / relative sub-contexts for small indices and offsets."""
    out: Dict[str, Any] = dict(zip(FLAT_NAMES, _flat_sig(ctx)))
    if deep:
        for i in SUB_INDICES:
            out[f"gtxn_context({i})"] = _flat_sig(ctx.gtxn_context(i))[2:]
            out[f"absolute_context({i})"] = _flat_sig(ctx.absolute_context(i))[2:]
        for k in SUB_OFFSETS:
            out[f"relative_context({k})"] = _flat_sig(ctx.relative_context(k))[2:]
    return out


def _first_diff(a: Dict[str, Any], b: Dict[str, Any]) -> Optional[str]:
    for k in a:
        if a[k] != b.get(k):
            return k
    return None


def _short(x: Any, n: int = 300) -> str:
    s = repr(x)
    return s if len(s) <= n else s[:n] + "..."


# ======================================================================================================
# C15: rewrites on an own line model
# ======================================================================================================

class Item:
    """one instruction / label / pragma line with its decoration; `orig` = line number in the original text"""
    __slots__ = ("orig", "toks", "indent", "trail", "before")

    def __init__(self, orig: Optional[int], toks: List[str], indent: str = "", trail: str = "",
                 before: Optional[List[str]] = None) -> None:
        self.orig = orig
        self.toks = toks
        self.indent = indent
        self.trail = trail
        self.before = before or []

    def copy(self) -> "Item":
        return Item(self.orig, list(self.toks), self.indent, self.trail, list(self.before))

    @property
    def op(self) -> str:
        return self.toks[0]

    @property
    def is_label(self) -> bool:
        return len(self.toks) == 1 and self.toks[0].endswith(":")


def to_items(src: str) -> List[Item]:
    out: List[Item] = []
    for n, text in enumerate(src.split("\n"), start=1):
        toks = avm._tokens(text)  # pylint: disable=protected-access
        if toks:
            out.append(Item(n, toks))
    return out


def render(items: List[Item]) -> Tuple[str, Dict[int, int]]:
    """text and the line map original line -> rewritten line"""
    lines: List[str] = []
    lmap: Dict[int, int] = {}
    for it in items:
        lines += it.before
        lines.append(it.indent + " ".join(it.toks) + it.trail)
        if it.orig is not None:
            lmap[it.orig] = len(lines)
    return "\n".join(lines) + "\n", lmap


UNCOND = ("b", "return", "err", "retsub")
BRANCH1 = ("b", "bz", "bnz", "callsub")
BRANCHN = ("switch", "match")
INT_OPS = ("int", "pushint")
TYPE_NAMES = {"pay": 1, "keyreg": 2, "acfg": 3, "axfer": 4, "afrz": 5, "appl": 6}
OC_NAMES = {"NoOp": 0, "OptIn": 1, "CloseOut": 2, "ClearState": 3, "UpdateApplication": 4, "DeleteApplication": 5}
TYPE_BY_NUM = {v: k for k, v in TYPE_NAMES.items()}
OC_BY_NUM = {v: k for k, v in OC_NAMES.items()}
NAMED = {**TYPE_NAMES, **OC_NAMES, "unknown": 0}


def _copy(items: List[Item]) -> List[Item]:
    return [i.copy() for i in items]


def _version(items: List[Item]) -> int:
    if items and items[0].op == "#pragma":
        return int(items[0].toks[2])
    return 1


def _labels(items: List[Item]) -> List[str]:
    return [i.toks[0][:-1] for i in items if i.is_label]


def _literal_value(tok: str) -> Optional[int]:
    if tok in NAMED:
        return NAMED[tok]
    try:
        return avm._parse_uint(tok, 0)  # pylint: disable=protected-access
    except avm.ParseError:
        return None


# ---- 1. labels ---------------------------------------------------------------------------------------

def _rename(items: List[Item], mapping: Dict[str, str]) -> List[Item]:
    out = _copy(items)
    for it in out:
        if it.is_label:
            it.toks[0] = mapping[it.toks[0][:-1]] + ":"
        elif it.op in BRANCH1 or it.op in BRANCHN:
            it.toks[1:] = [mapping[t] for t in it.toks[1:]]
    return out


def rw_labels_fresh(items: List[Item], rng: random.Random) -> Optional[List[Item]]:
    labs = _labels(items)
    if not labs:
        return None
    tag = rng.randrange(1000)
    return _rename(items, {l: f"L{tag}_{k}_{l[::-1]}" for k, l in enumerate(labs)})


def rw_labels_permute(items: List[Item], rng: random.Random) -> Optional[List[Item]]:
    """the existing names, permuted (e.g. the subroutine is now called `main`)"""
    labs = _labels(items)
    if len(labs) < 2:
        return None
    for _ in range(5):
        perm = labs[:]
        rng.shuffle(perm)
        if perm != labs:
            return _rename(items, dict(zip(labs, perm)))
    return _rename(items, dict(zip(labs, labs[1:] + labs[:1])))


# ---- 2. comments, blank lines, indentation ----------------------------------------------------------------

def rw_comment_lines(items: List[Item], rng: random.Random) -> Optional[List[Item]]:
    out = _copy(items)
    texts = ["// note", "//", "  // int 0; return", "// b nowhere", "//txn RekeyTo"]
    for k, it in enumerate(out):
        if k == 0 and it.op == "#pragma":
            continue  # nothing is put in front of the version line
        if rng.random() < 0.5:
            it.before = it.before + [rng.choice(texts)]
    if len(out) > 1:
        out[-1].before = out[-1].before + ["// last"]
    return out


def rw_trailing_comments(items: List[Item], rng: random.Random) -> Optional[List[Item]]:
    out = _copy(items)
    texts = [" // c", "\t// int 5", "  //", " // \"quoted\" text"]
    done = False
    for it in out:
        if it.op == "#pragma" or it.trail:
            continue
        if rng.random() < 0.6:
            it.trail = rng.choice(texts)
            done = True
    return out if done else None


def rw_trailing_comments_attached(items: List[Item], rng: random.Random) -> Optional[List[Item]]:
    """`int 1//c`: the assembler ends the token at `//` (go-algorand tokensFromLine, 'a comment without whitespace')"""
    out = _copy(items)
    done = False
    for it in out:
        if it.op == "#pragma" or it.trail:
            continue
        if rng.random() < 0.5:
            it.trail = "//c"
            done = True
    return out if done else None


def rw_blank_lines(items: List[Item], rng: random.Random) -> Optional[List[Item]]:
    out = _copy(items)
    for k, it in enumerate(out):
        if k == 0 and it.op == "#pragma":
            continue
        if rng.random() < 0.5:
            it.before = it.before + [rng.choice(["", "   ", "\t"])] * rng.randint(1, 2)
    out[-1].before = out[-1].before + [""]
    return out


def rw_indent(items: List[Item], rng: random.Random) -> Optional[List[Item]]:
    out = _copy(items)
    for it in out:
        if it.op == "#pragma":
            continue
        it.indent = rng.choice(["    ", "\t", "  ", " \t "])
        if not it.trail and rng.random() < 0.3:
            it.trail = rng.choice([" ", "\t", "   "])
    return out


# ---- 3. integer spellings ------------------------------------------------------------------------------

def _spell(v: int, how: str) -> str:
    if how == "hex":
        return "0x%x" % v
    if how == "HEX":
        return "0x%X" % v
    if how == "0X":
        return "0X%x" % v
    if how == "oct":
        return "0%o" % v
    if how == "0o":
        return "0o%o" % v
    return str(v)


def _mk_respell(how: str, ops: Tuple[str, ...]) -> Callable[[List[Item], random.Random], Optional[List[Item]]]:
    def rw(items: List[Item], rng: random.Random) -> Optional[List[Item]]:
        out = _copy(items)
        done = False
        for it in out:
            if it.op in ops:
                for k in range(1, len(it.toks)):
                    tok = it.toks[k]
                    if tok in NAMED:
                        continue
                    v = _literal_value(tok)
                    if v is None:
                        continue
                    new = _spell(v, how)
                    if new != tok:
                        it.toks[k] = new
                        done = True
        return out if done else None
    return rw


# ---- 4. named constants ----------------------------------------------------------------------------------

def rw_name_to_number(items: List[Item], rng: random.Random) -> Optional[List[Item]]:
    out = _copy(items)
    done = False
    for it in out:
        if it.op == "int" and len(it.toks) == 2 and it.toks[1] in NAMED:
            it.toks[1] = str(NAMED[it.toks[1]])
            done = True
    return out if done else None


def _reads(it: Item, field: str) -> bool:
    return it.op in ("txn", "gtxn", "gtxns") and it.toks[-1] == field


def rw_number_to_name(items: List[Item], rng: random.Random) -> Optional[List[Item]]:
    """`int c` becomes a name only where it is the direct partner of a TypeEnum / OnCompletion read in ==/!="""
    out = _copy(items)
    done = False
    for k, it in enumerate(out):
        if it.op != "int" or len(it.toks) != 2 or it.toks[1] in NAMED:
            continue
        v = _literal_value(it.toks[1])
        if v is None:
            continue
        for field, table in (("TypeEnum", TYPE_BY_NUM), ("OnCompletion", OC_BY_NUM)):
            if v not in table:
                continue
            # read ; int c ; ==     (the read may be a multi-instruction gtxns read: its last instruction precedes)
            a = k >= 1 and _reads(out[k - 1], field) and k + 1 < len(out) and out[k + 1].op in ("==", "!=")
            # int c ; txn F | gtxn i F ; ==
            b = (k + 2 < len(out) and out[k + 1].op in ("txn", "gtxn") and _reads(out[k + 1], field)
                 and out[k + 2].op in ("==", "!="))
            if a or b:
                it.toks[1] = table[v]
                done = True
                break
    return out if done else None


# ---- 5. pushint, intcblock -------------------------------------------------------------------------------

def _mk_pushint(prob: float) -> Callable[[List[Item], random.Random], Optional[List[Item]]]:
    def rw(items: List[Item], rng: random.Random) -> Optional[List[Item]]:
        if _version(items) < 3:
            return None
        out = _copy(items)
        done = False
        for it in out:
            if it.op == "int" and len(it.toks) == 2 and it.toks[1] not in NAMED and rng.random() < prob:
                it.toks[0] = "pushint"  # the assembler's pushint takes no named constants
                done = True
        return out if done else None
    return rw


def _mk_intcblock(prob: float) -> Callable[[List[Item], random.Random], Optional[List[Item]]]:
    def rw(items: List[Item], rng: random.Random) -> Optional[List[Item]]:
        if any(it.op.startswith("intc") for it in items):
            return None
        out = _copy(items)
        consts: List[int] = []
        for it in out:
            if it.op == "int" and len(it.toks) == 2 and rng.random() < prob:
                v = _literal_value(it.toks[1])
                if v is None:
                    continue
                if v not in consts:
                    consts.append(v)
                k = consts.index(v)
                it.toks = [f"intc_{k}"] if k < 4 else ["intc", str(k)]
        if not consts:
            return None
        pos = 1 if out and out[0].op == "#pragma" else 0
        out.insert(pos, Item(None, ["intcblock"] + [str(c) for c in consts]))
        return out
    return rw


# ---- 6. stack-neutral padding between statements -------------------------------------------------------------

_DELTA = {"int": 1, "pushint": 1, "intc": 1, "intc_0": 1, "intc_1": 1, "intc_2": 1, "intc_3": 1, "addr": 1, "byte": 1,
          "pushbytes": 1, "txn": 1, "gtxn": 1, "global": 1, "load": 1, "gtxns": 0, "==": -1, "!=": -1, "<": -1,
          "<=": -1, ">": -1, ">=": -1, "&&": -1, "||": -1, "+": -1, "-": -1, "*": -1, "/": -1, "%": -1, "!": 0,
          "dup": 1, "dup2": 2, "pop": -1, "swap": 0, "dig": 1, "cover": 0, "uncover": 0, "select": -2, "store": -1,
          "assert": -1, "bz": -1, "bnz": -1, "switch": -1, "return": -1, "b": 0, "callsub": 0, "retsub": 0, "err": 0,
          "intcblock": 0, "#pragma": 0, "bury": -1}


def _depth_before(items: List[Item]) -> List[Optional[int]]:
    """static operand-stack depth relative to the enclosing statement sequence, before each item and (last entry)
    after the last one; None = unknown.  Depth is taken as 0 after an unconditional transfer and at labels that
    follow one (generated statements are stack-neutral)."""
    out: List[Optional[int]] = []
    d: Optional[int] = 0
    for it in items:
        out.append(d)
        op = it.op
        if it.is_label:
            continue
        if op in UNCOND:
            d = 0
        elif op == "match":
            d = None if d is None else d - len(it.toks)
        elif op in ("popn", "dupn"):
            n = _literal_value(it.toks[1]) or 0
            d = None if d is None else d + (n if op == "dupn" else -n)
        elif op in _DELTA:
            d = None if d is None else d + _DELTA[op]
        else:
            d = None
    out.append(d)
    return out


PADS = (["int 7", "pop"], ["int 0", "pop"], ["txn Amount", "pop"], ["int 7", "int 8", "pop", "pop"],
        ["global MinTxnFee", "pop"])


def _mk_pad(prob: float) -> Callable[[List[Item], random.Random], Optional[List[Item]]]:
    def rw(items: List[Item], rng: random.Random) -> Optional[List[Item]]:
        depth = _depth_before(items)
        out: List[Item] = []
        done = False
        for k in range(len(items) + 1):
            prev = items[k - 1] if k > 0 else None
            nxt = items[k] if k < len(items) else None
            # not where the padding would become a block of its own (between a branch / call and a label: with
            # `bnz L` directly before `L:` that would even split one CFG edge into two)
            ok = (depth[k] == 0 and prev is not None and prev.op not in UNCOND
                  and not (nxt is not None and nxt.op == "intcblock") and not (prev.op == "#pragma" and nxt is None)
                  and not (prev.op in ("bz", "bnz", "switch", "match", "callsub") and (nxt is None or nxt.is_label)))
            if ok and rng.random() < prob:
                for line in rng.choice(PADS):
                    out.append(Item(None, line.split()))
                done = True
            if nxt is not None:
                out.append(nxt.copy())
        return out if done else None
    return rw


# ---- 7. moving subroutine bodies -----------------------------------------------------------------------------

class _Layout:
    """header (pragma [+ intcblock]) and the segments of the rest (a new segment starts after b/return/err/retsub)"""

    def __init__(self, items: List[Item]) -> None:
        h = 0
        if items and items[0].op == "#pragma":
            h = 1
        if len(items) > h and items[h].op == "intcblock":
            h += 1
        self.header = items[:h]
        self.segs: List[List[Item]] = []
        cur: List[Item] = []
        for it in items[h:]:
            cur.append(it)
            if not it.is_label and it.op in UNCOND:
                self.segs.append(cur)
                cur = []
        if cur:
            self.segs.append(cur)
        self.seg_of_label: Dict[str, int] = {}
        for s, seg in enumerate(self.segs):
            for it in seg:
                if it.is_label:
                    self.seg_of_label[it.toks[0][:-1]] = s

    def closed(self, s: int) -> bool:
        last = self.segs[s][-1]
        return (not last.is_label) and last.op in UNCOND

    def jump_closure(self, start: int) -> Set[int]:
        seen: Set[int] = set()
        todo = [start]
        while todo:
            s = todo.pop()
            if s in seen:
                continue
            seen.add(s)
            for it in self.segs[s]:
                if it.is_label:
                    continue
                if it.op in ("b", "bz", "bnz") or it.op in BRANCHN:
                    todo += [self.seg_of_label[t] for t in it.toks[1:] if t in self.seg_of_label]
            if not self.closed(s) and s + 1 < len(self.segs):
                todo.append(s + 1)
        return seen

    def sub_groups(self) -> List[List[int]]:
        """for every callsub target whose label opens a segment: the segments only its body uses (in text order)"""
        targets: List[str] = []
        for seg in self.segs:
            for it in seg:
                if not it.is_label and it.op == "callsub" and it.toks[1] not in targets:
                    targets.append(it.toks[1])
        main = self.jump_closure(0) if self.segs else set()
        bodies: Dict[str, Set[int]] = {}
        for t in targets:
            s = self.seg_of_label.get(t)
            if s is None or s == 0 or not self.segs[s][0].is_label or self.segs[s][0].toks[0][:-1] != t:
                continue
            bodies[t] = self.jump_closure(s)
        groups: List[List[int]] = []
        for t, body in bodies.items():
            excl = set(body) - main
            for u, other in bodies.items():
                if u != t:
                    excl -= other
            entry = self.seg_of_label[t]
            if entry in excl:
                groups.append(sorted(excl))
        return sorted(groups)

    def assemble(self, order: List[int], entry_jump: Optional[str] = None, entry_before: Optional[int] = None) -> Optional[List[Item]]:
        """items in the new segment order; every segment not in last position must be closed, and the unclosed
        original last segment (falls off the end) must stay last"""
        for pos, s in enumerate(order):
            if pos != len(order) - 1 and not self.closed(s):
                return None
        out = [i.copy() for i in self.header]
        if entry_jump is not None:
            out.append(Item(None, ["b", entry_jump]))
        for s in order:
            if entry_jump is not None and s == entry_before:
                out.append(Item(None, [entry_jump + ":"]))
            out += [i.copy() for i in self.segs[s]]
        return out


def rw_swap_subs(items: List[Item], rng: random.Random) -> Optional[List[Item]]:
    lay = _Layout(items)
    groups = lay.sub_groups()
    if len(groups) < 2:
        return None
    a, b = rng.sample(range(len(groups)), 2)
    ga, gb = groups[a], groups[b]
    slots = sorted(ga + gb)
    first, second = (gb, ga) if min(ga) < min(gb) else (ga, gb)
    fill = dict(zip(slots, first + second))
    order = [fill.get(s, s) for s in range(len(lay.segs))]
    if order == list(range(len(lay.segs))) or order[0] != 0:
        return None
    return lay.assemble(order)


def rw_subs_first(items: List[Item], rng: random.Random) -> Optional[List[Item]]:
    """`b M`, all subroutine bodies, `M:` and the rest in its order"""
    if _version(items) < 2:
        return None
    lay = _Layout(items)
    groups = lay.sub_groups()
    if not groups:
        return None
    moved = [s for g in groups for s in g]
    rest = [s for s in range(len(lay.segs)) if s not in moved]
    if not rest or rest[0] != 0:
        return None
    name = f"mv_main_{rng.randrange(1000)}"
    while name in lay.seg_of_label:
        name += "x"
    return lay.assemble(moved + rest, entry_jump=name, entry_before=0)


def rw_subs_last(items: List[Item], rng: random.Random) -> Optional[List[Item]]:
    lay = _Layout(items)
    groups = lay.sub_groups()
    if not groups:
        return None
    gs = groups[:]
    rng.shuffle(gs)
    moved = [s for g in gs for s in g]
    rest = [s for s in range(len(lay.segs)) if s not in moved]
    order = rest + moved
    if not rest or rest[0] != 0 or order == list(range(len(lay.segs))):
        return None
    return lay.assemble(order)


# name -> (function, listed in the property?)  -- `extended` spellings are accepted by the assembler
# (strconv.ParseUint base 0, comment without whitespace) but are not named literally by the property text.
REWRITES: Dict[str, Tuple[Callable[[List[Item], random.Random], Optional[List[Item]]], bool]] = {
    "labels-fresh": (rw_labels_fresh, True),
    "labels-permute": (rw_labels_permute, True),
    "comment-lines": (rw_comment_lines, True),
    "trailing-comments": (rw_trailing_comments, True),
    "blank-lines": (rw_blank_lines, True),
    "indent": (rw_indent, True),
    "int-hex": (_mk_respell("hex", INT_OPS), True),
    "int-HEX": (_mk_respell("HEX", INT_OPS), True),
    "int-oct": (_mk_respell("oct", INT_OPS), True),
    "intcblock-hex": (_mk_respell("hex", ("intcblock",)), True),
    "intcblock-oct": (_mk_respell("oct", ("intcblock",)), True),
    "name-to-number": (rw_name_to_number, True),
    "number-to-name": (rw_number_to_name, True),
    "pushint-all": (_mk_pushint(1.1), True),
    "pushint-some": (_mk_pushint(0.5), True),
    "intcblock-all": (_mk_intcblock(1.1), True),
    "intcblock-some": (_mk_intcblock(0.5), True),
    "pad-all": (_mk_pad(1.1), True),
    "pad-some": (_mk_pad(0.4), True),
    "swap-subs": (rw_swap_subs, True),
    "subs-first": (rw_subs_first, True),
    "subs-last": (rw_subs_last, True),
    # extended (own classes, applied to a subset of the programs only)
    "x-int-0X": (_mk_respell("0X", INT_OPS), False),
    "x-int-0o": (_mk_respell("0o", INT_OPS), False),
    "x-comment-attached": (rw_trailing_comments_attached, False),
}
LISTED = [n for n, (_, listed) in REWRITES.items() if listed]
EXTENDED = [n for n, (_, listed) in REWRITES.items() if not listed]
EXTENDED_PROGRAMS = 24   # the extended spellings are tried on every k-th program so that this many see them


def apply_rewrites(src: str, names: Sequence[str], rng: random.Random) -> Optional[Tuple[str, Dict[int, int], List[str]]]:
    """(new text, line map, names actually applied) or None when none of them applies"""
    items = to_items(src)
    applied: List[str] = []
    for n in names:
        new = REWRITES[n][0](items, rng)
        if new is not None:
            items = new
            applied.append(n)
    if not applied:
        return None
    text, lmap = render(items)
    if text == src:
        return None
    return text, lmap, applied


def same_meaning(src: str, new: str, cap: int = 10) -> Optional[str]:
    """None if the reference interpreter gives the same verdict on the region inputs of the ORIGINAL program"""
    from bounded import gen
    try:
        p0, p1 = avm.parse(src), avm.parse(new)
        for g, i, unrel in gen.inputs_for(src, cap=cap):
            r0 = avm.run(p0, g, i, unrelated=unrel)
            r1 = avm.run(p1, g, i, unrelated=unrel)
            if r0.accepted != r1.accepted:
                return f"avm: original {r0.accepted} ({r0.reason}) vs rewritten {r1.accepted} ({r1.reason}) on size={g.size} idx={i}"
    except avm.Unsupported as e:
        return f"avm unsupported: {e}"
    return None


def _block_key(block: Any, inv: Optional[Dict[int, int]]) -> Tuple[int, ...]:
    """the ORIGINAL lines a block holds (inv: rewritten line -> original line; None = identity)"""
    ls = []
    for ins in block.instructions:
        ln = ins.line if inv is None else inv.get(ins.line)
        if ln is not None:
            ls.append(ln)
    return tuple(sorted(ls))


def compare_runs(A: Any, B: Any, lmap: Dict[int, int]) -> Tuple[List[Dict[str, Any]], int, int]:
    """differences between the analysis A of the original and B of the rewritten text; (#blocks compared, #skipped)"""
    diffs: List[Dict[str, Any]] = []
    inv = {v: k for k, v in lmap.items()}
    # blocks: a bijection where a block of B holds exactly the images of the lines of a block of A
    keyB = {}
    for b in B.function.blocks:
        k = _block_key(b, inv)
        if k:
            keyB[k] = b
    compared = skipped = 0
    for a in A.function.blocks:
        k = _block_key(a, None)
        b = keyB.get(k)
        if b is None:
            skipped += 1
            continue
        compared += 1
        sa, sb = ctx_sig(A.ctx(a)), ctx_sig(B.ctx(b))
        f = _first_diff(sa, sb)
        if f is not None:
            diffs.append({"kind": f"context:{f.split('(')[0]}", "block_lines": list(k), "field": f,
                          "original_value": _short(sa[f]), "rewritten_value": _short(sb[f])})
            break
    for det in sorted(A.paths):
        pa, pb = A.paths[det], B.paths.get(det, [])
        if bool(pa) != bool(pb):
            diffs.append({"kind": f"verdict:{det}", "original_paths": len(pa), "rewritten_paths": len(pb)})
        elif len(pa) != len(pb):
            diffs.append({"kind": f"npaths:{det}", "original_paths": len(pa), "rewritten_paths": len(pb)})
        else:
            ka = sorted(tuple(x for x in (_block_key(b, None) for b in p) if x) for p in pa)
            kb = sorted(tuple(x for x in (_block_key(b, inv) for b in p) if x) for p in pb)
            # blocks of the original that lost lines / gained foreign ones under the rewrite are not comparable
            if ka != kb and skipped == 0:
                diffs.append({"kind": f"paths:{det}", "original_value": _short(ka), "rewritten_value": _short(kb)})
    return diffs, compared, skipped


FAMILY = {"pad-all": "pad", "pad-some": "pad", "pushint-all": "pushint", "pushint-some": "pushint",
          "intcblock-all": "intcblock-insert", "intcblock-some": "intcblock-insert", "int-HEX": "int-hex",
          "swap-subs": "move-subs", "subs-first": "move-subs", "subs-last": "move-subs"}
# listed rewrites tried on every program / on a rotating third of the programs (token-level ones: tealer treats
# each line on its own, so every third program is as good a sample as every program)
STRUCTURAL = ["labels-fresh", "labels-permute", "name-to-number", "number-to-name", "pushint-all", "intcblock-all",
              "intcblock-hex", "intcblock-oct", "pad-all", "swap-subs", "subs-first", "subs-last"]
ROTATING = [n for n in LISTED if n not in STRUCTURAL]


def _c15_class(names: Sequence[str], kind: str) -> str:
    fams = sorted({FAMILY.get(n, n) for n in names})
    if len(fams) == 1 and fams[0] in EXTENDED:
        return f"C15-{fams[0]}"       # one class per extended spelling, whatever it breaks (crash / contexts / verdicts)
    return f"C15-{'+'.join(fams)}-{kind.split(':')[0]}"


def _group_diffs(diffs: List[Dict[str, Any]]) -> List[Dict[str, Any]]:
    """one entry per kind of difference (crash | context:<field> | verdict | npaths | paths), detectors collected"""
    out: Dict[str, Dict[str, Any]] = {}
    for d in diffs:
        kind, _, det = d["kind"].partition(":")
        if kind in ("verdict", "npaths", "paths"):
            e = out.setdefault(kind, {"kind": kind, "detectors": {}})
            e["detectors"][det] = {k: v for k, v in d.items() if k != "kind"}
        else:
            out.setdefault(d["kind"], d)
    return list(out.values())


def _c15_one(src: str, names: Sequence[str], rseed: int, A: Any) -> Dict[str, Any]:
    """one (program, rewrite list) case.  status: inapplicable | dropped | crash | ok"""
    from bounded import harness
    rng = random.Random(rseed)
    r = apply_rewrites(src, names, rng)
    if r is None:
        return {"status": "inapplicable"}
    new, lmap, applied = r
    why = same_meaning(src, new)
    if why is not None:
        return {"status": "dropped", "why": why, "names": applied, "new": new}
    try:
        B = harness.Analysed(new)
    except Exception as e:  # pylint: disable=broad-except
        return {"status": "crash", "names": applied, "new": new,
                "diffs": [{"kind": "crash", "error": f"{type(e).__name__}: {e}", "trace": traceback.format_exc()[-500:]}]}
    diffs, compared, skipped = compare_runs(A, B, lmap)
    return {"status": "ok", "names": applied, "new": new, "diffs": _group_diffs(diffs), "compared": compared, "skipped": skipped}


def _c15_work(job: Tuple[int, str, str, int, Tuple[int, int, int], bool, bool]) -> Dict[str, Any]:
    pidx, name, src, seed, ncomp, extended, rotate = job
    from bounded import harness
    out: Dict[str, Any] = {"name": name, "cases": 0, "dropped": [], "inapplicable": 0, "viol": [], "blocks": 0,
                           "skipped_blocks": 0, "orig_crash": None, "by_rewrite": {}}
    try:
        avm.parse(src)
        A = harness.Analysed(src)
    except Exception as e:  # pylint: disable=broad-except
        out["orig_crash"] = f"{type(e).__name__}: {e}"
        return out
    rng = random.Random((seed << 20) ^ pidx)
    plans: List[Tuple[str, ...]] = [(n,) for n in STRUCTURAL]
    plans += [(n,) for k, n in enumerate(ROTATING) if not rotate or k % 3 == pidx % 3]
    if extended:
        plans += [(n,) for n in EXTENDED]
    single_bad: Set[str] = set()
    lo, hi, count = ncomp
    comps = [tuple(rng.sample(LISTED, rng.randint(lo, hi))) for _ in range(count)]
    for plan in plans + comps:
        res = _c15_one(src, plan, rng.randrange(1 << 30), A)
        st = res["status"]
        if st == "inapplicable":
            out["inapplicable"] += 1
            continue
        if st == "dropped":
            out["dropped"].append({"rewrites": res["names"], "why": res["why"], "teal": src, "rewritten": res["new"]})
            continue
        out["cases"] += 1
        key = res["names"][0] if len(plan) == 1 else "composition"
        out["by_rewrite"][key] = out["by_rewrite"].get(key, 0) + 1
        out["blocks"] += res.get("compared", 0)
        out["skipped_blocks"] += res.get("skipped", 0)
        if not res["diffs"]:
            continue
        names = res["names"]
        if len(plan) == 1:
            single_bad.add(FAMILY.get(names[0], names[0]))
        elif any(FAMILY.get(n, n) in single_bad for n in names):
            out["by_rewrite"]["composition-explained-by-single"] = out["by_rewrite"].get("composition-explained-by-single", 0) + 1
            continue
        else:
            # is one component alone responsible (possibly with other random choices)?  then it is not a composition effect
            alone = [n for n in names if (_c15_one(src, (n,), rng.randrange(1 << 30), A).get("diffs"))]
            if alone:
                names = alone[:1]
        for d in res["diffs"]:
            out["viol"].append({"class": _c15_class(names, d["kind"]), "program": name, "rewrites": res["names"],
                                "teal": src, "rewritten": res["new"], **d})
    return out


BULKY = ("teal", "rewritten", "class", "contracts", "config_yaml", "trace", "stdout")


def _attribute(v: Dict[str, Any], known: Set[str]) -> Optional[str]:
    fid = CLASS_TO_FINDING.get(v["class"])
    if fid is not None and fid in known:
        return fid
    return None


def _finish(pid: str, name: str, summary: Dict[str, Any], viols: List[Dict[str, Any]], known: Any, t0: float) -> Dict[str, Any]:
    """common tail: attribute to listed findings, count, keep the first 5 distinct classes"""
    known_ids = set(known or [])
    attributed: Dict[str, int] = {}
    by_class: Dict[str, int] = {}
    first: Dict[str, Dict[str, Any]] = {}
    def _size(v: Dict[str, Any]) -> int:
        return len(v.get("teal") or "") + len(v.get("rewritten") or "") + sum(len(x) for x in (v.get("contracts") or {}).values()) \
            + len(v.get("config_yaml") or "")
    for v in sorted(viols, key=_size):
        fid = _attribute(v, known_ids)
        if fid:
            attributed[fid] = attributed.get(fid, 0) + 1
            continue
        by_class[v["class"]] = by_class.get(v["class"], 0) + 1
        first.setdefault(v["class"], v)
    summary["failures"] = sum(by_class.values())
    summary["failures_by_class"] = dict(sorted(by_class.items()))
    summary["attributed_to_listed_findings"] = attributed
    summary["seconds"] = round(time.time() - t0, 1)
    out = []
    for k, (cls, v) in enumerate(sorted(first.items())[:5]):
        safe = "".join(ch if ch.isalnum() else "_" for ch in cls)[:60]
        out.append({"file": f"{name}_{k}_{safe}.json",
                    "data": {"property": pid, "standin": name,
                             "failure": v.get("failure") or f"{cls}: {_short({k2: v[k2] for k2 in v if k2 not in BULKY}, 400)}", **v}})
    return {"summary": summary, "violations": out, "known_lines": []}


def c15_programs(tier: str, seed: int) -> List[Dict[str, Any]]:
    """general BS-PROG programs plus one straight-line program per atom (`atom; assert`) of every family, so that every
    constant spelling / operand order / reader form of the generator meets the rewrites"""
    from bounded import gen
    general, stride, atoms = (220, 8, 140) if tier == "quick" else (4400, 1, 100000)
    # quick: every 8th of the first 2240, so that all control shapes occur (the enumeration is statement-major)
    out = [p for k, p in enumerate(gen.programs(2, seed=seed, limit=general * stride)) if k % stride == 0]
    pool = [p for p in gen.programs(1) if p["meta"]["tier"] == "B" and (p["meta"]["slots"][0] or "").split("] ")[-1].startswith("a -> assert")]
    if len(pool) > atoms:
        quota = {"txntype": 1000, "gtxn": 24, "fee": 8, "groupsize": 8, "groupindex": 8, "rekey": 3, "closeto": 3, "assetcloseto": 2}
        picked: List[Dict[str, Any]] = []
        for fam, q in quota.items():
            fp = [p for p in pool if p["family"] == fam]
            step = max(1.0, len(fp) / q)
            picked += [fp[int(k * step)] for k in range(min(q, len(fp)))]
        pool = picked
    return out + pool


@standin("C15")
def metamorphic(tier: str = "quick", seed: int = 0, known: Any = None) -> Dict[str, Any]:
    t0 = time.time()
    ncomp = (2, 2, 2) if tier == "quick" else (2, 4, 4)
    progs = c15_programs(tier, seed)
    limit = len(progs)
    step = max(1, len(progs) // EXTENDED_PROGRAMS)
    jobs = [(k, p["name"], p["src"], seed, ncomp, k % step == 0, True) for k, p in enumerate(progs)]
    with mp.get_context("fork").Pool(NPROC) as pool:
        results = pool.map(_c15_work, jobs, chunksize=4)
    viols: List[Dict[str, Any]] = []
    by_rw: Dict[str, int] = {}
    dropped: List[Dict[str, Any]] = []
    for r in results:
        viols += r["viol"]
        dropped += r["dropped"]
        for k, v in r["by_rewrite"].items():
            by_rw[k] = by_rw.get(k, 0) + v
    summary = {
        "function": "whole pipeline (parse_teal -> construct_function -> 4 analyses -> 9 path detectors) on original and rewritten text",
        "contract": "per-block contexts (own level + gtxn/absolute/relative sub-contexts for indices 0..3, offsets +-1..3, as sets) of "
                    "corresponding blocks and, per detector, verdict / number of paths / paths as sequences of original line sets are equal",
        "bound": f"{limit} programs (c15_programs: programs(k=2, seed={seed}) + one `atom; assert` program per sampled atom of every family) x [{len(STRUCTURAL)} structural rewrites each alone on every program + "
                 f"{len(ROTATING)} token-level rewrites each alone on every third program + {ncomp[2]} seeded random compositions of "
                 f"{ncomp[0]}..{ncomp[1]} listed rewrites per program]; {len(EXTENDED)} extended spellings on every {step}-th program; "
                 "every rewritten program cross-checked with spec/avm.py on <= 10 region inputs of the original",
        "programs": len(progs), "evaluations": sum(r["cases"] for r in results), "exhaustive": False,
        "cases_by_rewrite": dict(sorted(by_rw.items())),
        "blocks_compared": sum(r["blocks"] for r in results), "blocks_without_counterpart": sum(r["skipped_blocks"] for r in results),
        "rewrites_dropped_by_avm_crosscheck": len(dropped), "dropped_examples": dropped[:3],
        "original_crashes": sum(1 for r in results if r["orig_crash"]),
    }
    return _finish("C15", "metamorphic", summary, viols, known, t0)



# ======================================================================================================
# C14: results depend on the input only
# ======================================================================================================

def _build(src: str, order: Optional[List[int]] = None) -> Any:
    """a Tealer for one contract with the 9 path detectors registered in the given order (indices into the
    name-sorted class list)"""
    from tealer.utils.command_line.common import init_tealer_from_single_contract
    t = init_tealer_from_single_contract(src, "p")
    classes = _detector_classes()
    for k in (order if order is not None else range(len(classes))):
        t.register_detector(classes[k])
    return t


def _snapshot(t: Any, deep: bool = False) -> Dict[int, Dict[str, Any]]:
    f = t.contracts["p"].functions["p"]
    return {b.idx: ctx_sig(f.transaction_context(b), deep=deep) for b in f.blocks}


def _paths_of(out: Any) -> List[Tuple[int, ...]]:
    ps: List[Tuple[int, ...]] = []
    for eo in out:
        ps += [tuple(b.idx for b in p) for p in eo.paths]
    return ps


def _run_all(t: Any, viol: List[Dict[str, Any]], src: str, what: str) -> Dict[str, List[Tuple[int, ...]]]:
    """run the registered detectors one by one; a detector must leave every context as it found it"""
    res: Dict[str, List[Tuple[int, ...]]] = {}
    for d in t.detectors:
        before = _snapshot(t, deep=True)
        res[d.NAME] = _paths_of(d.detect())
        after = _snapshot(t, deep=True)
        if before != after:
            blk = next(b for b in before if before[b] != after[b])
            viol.append({"class": f"C14-detector-changes-contexts:{d.NAME}", "teal": src, "when": what, "block": blk,
                         "field": _first_diff(before[blk], after[blk])})
    return res


def _snap_diff(a: Dict[int, Dict[str, Any]], b: Dict[int, Dict[str, Any]]) -> Optional[Dict[str, Any]]:
    if set(a) != set(b):
        return {"blocks_first": sorted(a), "blocks_second": sorted(b)}
    for blk in a:
        f = _first_diff(a[blk], b[blk])
        if f is not None:
            return {"block": blk, "field": f, "first": _short(a[blk][f]), "second": _short(b[blk][f])}
    return None


def _c14_inproc(job: Tuple[int, str, str, List[str], int]) -> Dict[str, Any]:
    """history / order / repetition inside one process.  Returns the digest of the first (plain) run as well, so that
    the parent can compare runs made by different worker processes after different histories."""
    from bounded import harness
    pidx, name, src, history, seed = job
    viol: List[Dict[str, Any]] = []
    out: Dict[str, Any] = {"k": pidx, "name": name, "viol": viol, "digest": None, "crash": None, "evals": 0}
    rng = random.Random((seed << 16) ^ pidx)
    try:
        with harness.quiet():
            t1 = _build(src)
            snap1 = _snapshot(t1, deep=True)
            paths1 = _run_all(t1, viol, src, "first run")
            # other contracts in between
            for h in history:
                th = _build(h)
                th.run_detectors()
            # same contract again, detectors in another order, run twice
            n = len(_detector_classes())
            order = list(range(n))
            rng.shuffle(order)
            t2 = _build(src, order)
            snap2 = _snapshot(t2, deep=True)
            paths2a = _run_all(t2, viol, src, f"after history, detector order {order}")
            paths2b = {d.NAME: _paths_of(o) for d, o in zip(t2.detectors, t2.run_detectors())}
            # and the first object once more (its contexts were computed before the history)
            paths1b = {d.NAME: _paths_of(o) for d, o in zip(t1.detectors, t1.run_detectors())}
            snap1b = _snapshot(t1, deep=True)
        out["evals"] = 2 + len(history)
        d = _snap_diff(snap1, snap2)
        if d:
            viol.append({"class": "C14-history-changes-contexts", "teal": src, "history": history, **d})
        d = _snap_diff(snap1, snap1b)
        if d:
            viol.append({"class": "C14-later-analysis-changes-earlier-contexts", "teal": src, "history": history, **d})
        for label, other in (("after history + shuffled detector order", paths2a), ("detectors re-run", paths2b),
                             ("first object re-run after history", paths1b)):
            for det in paths1:
                if paths1[det] != other.get(det):
                    kind = "set" if sorted(paths1[det]) != sorted(other.get(det, [])) else "order"
                    viol.append({"class": f"C14-paths-differ-{kind}", "teal": src, "history": history, "when": label, "detector": det,
                                 "first": _short(paths1[det]), "second": _short(other.get(det))})
                    break
        out["digest"] = hashlib.sha256(repr((sorted(snap1.items()), sorted(paths1.items()))).encode()).hexdigest()
        out["snap"], out["paths"] = snap1, paths1
    except Exception as e:  # pylint: disable=broad-except
        out["crash"] = f"{type(e).__name__}: {e} :: {traceback.format_exc()[-400:]}"
    return out


def _cli_once(args: Tuple[str, str, int]) -> Tuple[str, int, int, bytes, bytes]:
    """`python -m tealer --json - detect --contracts p.teal` under one hash seed (relative path, own cwd)"""
    name, src, hseed = args
    d = tempfile.mkdtemp(prefix="c14cli_")
    try:
        with open(os.path.join(d, "p.teal"), "w", encoding="utf-8") as f:
            f.write(src)
        env = dict(os.environ)
        env["PYTHONHASHSEED"] = str(hseed)
        env["TEALER_ROOT_OUTPUT_DIR"] = os.path.join(d, "out")
        env["PYTHONPATH"] = repo_root() + os.pathsep + env.get("PYTHONPATH", "")
        env["PYTHONDONTWRITEBYTECODE"] = "1"
        pr = subprocess.run([sys.executable, "-m", "tealer", "--json", "-", "detect", "--contracts", "p.teal"], cwd=d, env=env,
                            capture_output=True, timeout=300, check=False)
        return name, hseed, pr.returncode, pr.stdout, pr.stderr[-600:]
    finally:
        shutil.rmtree(d, ignore_errors=True)


MUTATORS = {"append", "extend", "remove", "pop", "insert", "add", "update", "clear", "setdefault", "discard", "sort",
            "reverse", "popitem", "appendleft", "extendleft", "difference_update", "intersection_update",
            "symmetric_difference_update"}
CONTAINER_CALLS = {"list", "dict", "set", "defaultdict", "OrderedDict", "deque", "Counter"}


def _is_mutable_literal(node: ast.AST) -> bool:
    if isinstance(node, (ast.List, ast.Dict, ast.Set, ast.ListComp, ast.DictComp, ast.SetComp)):
        return True
    if isinstance(node, ast.Call):
        f = node.func
        n = f.id if isinstance(f, ast.Name) else f.attr if isinstance(f, ast.Attribute) else None
        return n in CONTAINER_CALLS
    return False


def _local_names(fn: ast.AST) -> Set[str]:
    """names bound inside a function (parameters, assignments, loop/with/except targets, comprehension variables),
    minus those declared global"""
    bound: Set[str] = set()
    glob: Set[str] = set()
    a = fn.args  # type: ignore[attr-defined]
    for arg in list(a.posonlyargs) + list(a.args) + list(a.kwonlyargs) + ([a.vararg] if a.vararg else []) + ([a.kwarg] if a.kwarg else []):
        bound.add(arg.arg)
    for n in ast.walk(fn):
        if isinstance(n, ast.Global):
            glob.update(n.names)
        elif isinstance(n, ast.Name) and isinstance(n.ctx, (ast.Store, ast.Del)):
            bound.add(n.id)
        elif isinstance(n, (ast.FunctionDef, ast.AsyncFunctionDef, ast.ClassDef)) and n is not fn:
            bound.add(n.name)
        elif isinstance(n, ast.ExceptHandler) and n.name:
            bound.add(n.name)
        elif isinstance(n, (ast.Import, ast.ImportFrom)):
            for al in n.names:
                bound.add((al.asname or al.name).split(".")[0])
    return bound - glob


def scan_shared_state(root: Optional[str] = None) -> Tuple[List[Dict[str, Any]], List[Dict[str, Any]]]:
    """(informational sites, violations).  Syntactic: every .py under <root>/tealer.

    sites: module-level / class-level mutable containers (with the places that mutate them), lru_cache functions (with the
    places that call cache_clear).  violations: a module-level or class-level container mutated inside a function body
    (i.e. after import time), reached through its own name (same module or `from m import NAME`), `mod.NAME`, `self.NAME` /
    `cls.NAME` / `Class.NAME` (class-level containers that no method rebinds on the instance)."""
    root = root or repo_root()
    pkg = os.path.join(root, "tealer")
    files: List[str] = []
    for dp, _, fns in os.walk(pkg):
        files += [os.path.join(dp, f) for f in fns if f.endswith(".py")]
    files.sort()
    trees: Dict[str, ast.Module] = {}
    for f in files:
        with open(f, encoding="utf-8") as fh:
            try:
                trees[f] = ast.parse(fh.read(), filename=f)
            except SyntaxError:
                continue

    def modname(f: str) -> str:
        rel = os.path.relpath(f, root)[:-3].replace(os.sep, ".")
        return rel[:-9] if rel.endswith(".__init__") else rel

    mod_of_file = {f: modname(f) for f in trees}
    file_of_mod = {m: f for f, m in mod_of_file.items()}
    # 1. containers
    mod_cont: Dict[Tuple[str, str], int] = {}           # (file, name) -> line
    cls_cont: Dict[Tuple[str, str, str], int] = {}      # (file, class, name) -> line
    inst_rebound: Set[Tuple[str, str, str]] = set()     # class attributes that a method rebinds via self.NAME = ...
    class_bases: Dict[Tuple[str, str], List[str]] = {}
    lru: List[Dict[str, Any]] = []
    for f, tree in trees.items():
        for node in tree.body:
            targets: List[ast.expr] = []
            value: Optional[ast.AST] = None
            if isinstance(node, ast.Assign):
                targets, value = node.targets, node.value
            elif isinstance(node, ast.AnnAssign) and node.value is not None:
                targets, value = [node.target], node.value
            for tg in targets:
                if isinstance(tg, ast.Name) and value is not None and _is_mutable_literal(value):
                    mod_cont[(f, tg.id)] = node.lineno
            if isinstance(node, ast.ClassDef):
                class_bases[(f, node.name)] = [b.id for b in node.bases if isinstance(b, ast.Name)]
                for sub in node.body:
                    tg2: List[ast.expr] = []
                    val2: Optional[ast.AST] = None
                    if isinstance(sub, ast.Assign):
                        tg2, val2 = sub.targets, sub.value
                    elif isinstance(sub, ast.AnnAssign) and sub.value is not None:
                        tg2, val2 = [sub.target], sub.value
                    for tg in tg2:
                        if isinstance(tg, ast.Name) and val2 is not None and _is_mutable_literal(val2):
                            cls_cont[(f, node.name, tg.id)] = sub.lineno
                for sub in ast.walk(node):
                    if isinstance(sub, (ast.Assign, ast.AnnAssign)):
                        tgs = sub.targets if isinstance(sub, ast.Assign) else [sub.target]
                        for tg in tgs:
                            if isinstance(tg, ast.Attribute) and isinstance(tg.value, ast.Name) and tg.value.id == "self":
                                inst_rebound.add((f, node.name, tg.attr))
        for node in ast.walk(tree):
            if isinstance(node, (ast.FunctionDef, ast.AsyncFunctionDef)):
                for dec in node.decorator_list:
                    txt = ast.unparse(dec)
                    if "lru_cache" in txt or txt.endswith("cache"):
                        lru.append({"kind": "lru_cache", "file": os.path.relpath(f, root), "function": node.name, "line": node.lineno,
                                    "decorator": txt, "cache_clear_calls": []})
    for f, tree in trees.items():
        for node in ast.walk(tree):
            if (isinstance(node, ast.Call) and isinstance(node.func, ast.Attribute) and node.func.attr == "cache_clear"):
                tgt = ast.unparse(node.func.value).split(".")[-1]
                for e in lru:
                    if e["function"] == tgt:
                        e["cache_clear_calls"].append(f"{os.path.relpath(f, root)}:{node.lineno}")

    def class_attr_owner(f: str, cls: str, name: str, seen: Optional[Set[str]] = None) -> Optional[Tuple[str, str, str]]:
        """the (file, class, name) defining the class-level container `name` visible in class `cls` (same-module bases)"""
        seen = seen or set()
        if cls in seen:
            return None
        seen.add(cls)
        if (f, cls, name) in inst_rebound:
            return None
        if (f, cls, name) in cls_cont:
            return (f, cls, name)
        for b in class_bases.get((f, cls), []):
            r = class_attr_owner(f, b, name, seen)
            if r:
                return r
        return None

    mutations: Dict[Tuple[Any, ...], List[str]] = {}

    def record(key: Tuple[Any, ...], f: str, node: ast.AST, how: str) -> None:
        mutations.setdefault(key, []).append(f"{os.path.relpath(f, root)}:{getattr(node, 'lineno', 0)} ({how})")

    for f, tree in trees.items():
        # import aliases of this module
        from_names: Dict[str, Tuple[str, str]] = {}     # local name -> (file, name) of a module-level container
        mod_alias: Dict[str, str] = {}                  # local name -> file of a module
        for node in ast.walk(tree):
            if isinstance(node, ast.ImportFrom) and node.module and node.level == 0:
                src_f = file_of_mod.get(node.module)
                for al in node.names:
                    if src_f and (src_f, al.name) in mod_cont:
                        from_names[al.asname or al.name] = (src_f, al.name)
                    sub = file_of_mod.get(node.module + "." + al.name)
                    if sub:
                        mod_alias[al.asname or al.name] = sub
            elif isinstance(node, ast.Import):
                for al in node.names:
                    if al.name in file_of_mod and al.asname:
                        mod_alias[al.asname] = file_of_mod[al.name]

        def resolve(expr: ast.AST, local: Set[str], cls: Optional[str]) -> Optional[Tuple[Any, ...]]:
            if isinstance(expr, ast.Name):
                if expr.id in local:
                    return None
                if (f, expr.id) in mod_cont:
                    return ("module", f, expr.id)
                if expr.id in from_names:
                    return ("module",) + from_names[expr.id]
                return None
            if isinstance(expr, ast.Attribute) and isinstance(expr.value, ast.Name):
                base = expr.value.id
                if base in ("self", "cls") and cls is not None and base not in (local - {"self", "cls"}):
                    o = class_attr_owner(f, cls, expr.attr)
                    return ("class",) + o if o else None
                if base not in local and (f, base) in class_bases:
                    o = class_attr_owner(f, base, expr.attr)
                    return ("class",) + o if o else None
                if base not in local and base in mod_alias and (mod_alias[base], expr.attr) in mod_cont:
                    return ("module", mod_alias[base], expr.attr)
            return None

        def visit_fn(fn: ast.AST, cls: Optional[str]) -> None:
            local = _local_names(fn)
            declared_global: Set[str] = set()
            for n in ast.walk(fn):
                if isinstance(n, ast.Global):
                    declared_global.update(n.names)
            for n in ast.walk(fn):
                if isinstance(n, ast.Call) and isinstance(n.func, ast.Attribute) and n.func.attr in MUTATORS:
                    k = resolve(n.func.value, local, cls)
                    if k:
                        record(k, f, n, f".{n.func.attr}()")
                elif isinstance(n, (ast.Assign, ast.AugAssign, ast.AnnAssign, ast.Delete)):
                    tgs = (n.targets if isinstance(n, (ast.Assign, ast.Delete)) else [n.target])
                    for tg in tgs:
                        if isinstance(tg, ast.Subscript):
                            k = resolve(tg.value, local, cls)
                            if k:
                                record(k, f, n, "item " + ("del" if isinstance(n, ast.Delete) else "assignment"))
                        elif isinstance(tg, ast.Name) and tg.id in declared_global and (f, tg.id) in mod_cont:
                            record(("module", f, tg.id), f, n, "rebinding through `global`")
                        elif isinstance(n, ast.AugAssign) and isinstance(tg, ast.Attribute):
                            k = resolve(tg, local, cls)
                            if k:
                                record(k, f, n, "augmented assignment")

        def walk(body: List[ast.stmt], cls: Optional[str]) -> None:
            for node in body:
                if isinstance(node, (ast.FunctionDef, ast.AsyncFunctionDef)):
                    visit_fn(node, cls)
                elif isinstance(node, ast.ClassDef):
                    walk(node.body, node.name)
                elif isinstance(node, (ast.If, ast.Try, ast.With)):
                    for fld in ("body", "orelse", "finalbody"):
                        walk(getattr(node, fld, []) or [], cls)

        walk(tree.body, None)

    sites: List[Dict[str, Any]] = []
    viols: List[Dict[str, Any]] = []
    for (f, name), line in sorted(mod_cont.items()):
        m = mutations.get(("module", f, name), [])
        sites.append({"kind": "module-level container", "file": os.path.relpath(f, root), "name": name, "line": line,
                      "mutated_in_functions": m})
        if m:
            viols.append({"class": f"module-state-mutated:{os.path.relpath(f, root)}:{name}", "file_scanned": os.path.relpath(f, root),
                          "name": name, "defined_at_line": line, "mutations": m,
                          "failure": f"module-level container {name} ({os.path.relpath(f, root)}:{line}) is mutated inside function bodies: {m[:4]}"})
    for (f, cls, name), line in sorted(cls_cont.items()):
        m = mutations.get(("class", f, cls, name), [])
        sites.append({"kind": "class-level container", "file": os.path.relpath(f, root), "name": f"{cls}.{name}", "line": line,
                      "rebound_per_instance": (f, cls, name) in inst_rebound, "mutated_in_functions": m})
        if m:
            viols.append({"class": f"module-state-mutated:{os.path.relpath(f, root)}:{cls}.{name}", "file_scanned": os.path.relpath(f, root),
                          "name": f"{cls}.{name}", "defined_at_line": line, "mutations": m,
                          "failure": f"class-level container {cls}.{name} ({os.path.relpath(f, root)}:{line}) is mutated inside function bodies: {m[:4]}"})
    return sites + lru, viols


def _atom_pool() -> List[Dict[str, Any]]:
    from bounded import gen
    return [p for p in gen.programs(1) if p["meta"]["tier"] == "B" and (p["meta"]["slots"][0] or "").split("] ")[-1].startswith("a -> assert")]


def c14_programs(tier: str, seed: int) -> Tuple[List[Dict[str, Any]], List[Dict[str, Any]]]:
    """(subjects, history pool).  Subjects: programs spread over all control shapes and families, subroutine / multi-way
    shapes first (set / dict iteration over subroutines, labels and address strings is where an order could leak), plus
    straight-line `atom; assert` programs of every family (every comparison operator / operand order).  History pool: all
    `atom; assert` programs."""
    from bounded import gen
    nshape, natom = (40, 24) if tier == "quick" else (300, 100)
    allp = [p for k, p in enumerate(gen.programs(2, seed=seed, limit=2240 if tier == "quick" else 8000)) if k % 5 == 0]
    rank = {"two_sites": 0, "nested": 0, "recursive": 0, "switch3": 0, "match3": 0, "sub_approve_cond": 0, "dead_callsub": 0,
            "label_after_callsub": 0, "intc_sub_once": 0}
    by_key: Dict[Tuple[str, str], List[Dict[str, Any]]] = {}
    for p in allp:
        by_key.setdefault((p["meta"]["shape"], p["family"]), []).append(p)
    keys = sorted(by_key, key=lambda k: (rank.get(k[0], 1), k))
    out: List[Dict[str, Any]] = []
    rnd = 0
    while len(out) < nshape and rnd < 50:
        for k in keys:
            if rnd < len(by_key[k]) and len(out) < nshape:
                out.append(by_key[k][rnd])
        rnd += 1
    pool = _atom_pool()
    fams: Dict[str, List[Dict[str, Any]]] = {}
    for p in pool:
        fams.setdefault(p["family"], []).append(p)
    rng = random.Random(seed)
    atoms: List[Dict[str, Any]] = []
    while len(atoms) < natom:
        for f in sorted(fams):
            if len(atoms) < natom:
                atoms.append(rng.choice(fams[f]))
    return out + atoms, pool


def _c14_long(job: Tuple[int, List[str], List[Tuple[int, str, str]], int]) -> List[Dict[str, Any]]:
    """one long history (many other contracts analysed and checked first), then the subjects"""
    from bounded import harness
    w, history, subjects, seed = job
    with harness.quiet():
        for h in history:
            try:
                _build(h).run_detectors()
            except Exception:  # pylint: disable=broad-except
                pass
    return [_c14_inproc((k, name, src, [], seed + 7 + w)) for k, name, src in subjects]


@standin("C14")
def input_only(tier: str = "quick", seed: int = 0, known: Any = None) -> Dict[str, Any]:
    t0 = time.time()
    progs, pool_progs = c14_programs(tier, seed)
    rng = random.Random(seed)
    viols: List[Dict[str, Any]] = []
    srcs = [p["src"] for p in progs]
    # (a) in process.  pass 1: short histories; pass 2: 16 workers, each analyses a slice of the history pool first
    jobs1 = [(k, p["name"], p["src"], [srcs[(k * 7 + 3) % len(srcs)], srcs[(k * 11 + 5) % len(srcs)]], seed) for k, p in enumerate(progs)]
    hist_len = 40 if tier == "quick" else 10 ** 6
    hp = [p["src"] for p in pool_progs]
    rng.shuffle(hp)
    jobs2 = []
    for w in range(NPROC):
        subj = [(k, progs[k]["name"], progs[k]["src"]) for k in range(len(progs)) if (k * 5 + 3) % NPROC == w]
        jobs2.append((w, hp[w::NPROC][:hist_len], subj, seed))
    # (b) CLI under different hash seeds
    ncli, seeds = (10, [0, 1]) if tier == "quick" else (100, [0, 1, 2, 3])
    cli_progs = progs[:ncli]
    cjobs = [(p["name"], p["src"], hs) for p in cli_progs for hs in seeds]
    with mp.get_context("fork").Pool(NPROC) as pool:
        a_cli = pool.map_async(_cli_once, cjobs, chunksize=1)
        a_1 = pool.map_async(_c14_inproc, jobs1, chunksize=2)
        a_2 = pool.map_async(_c14_long, jobs2, chunksize=1)
        # (c) syntactic scan of the package, meanwhile
        sites, scan_viols = scan_shared_state()
        r1 = a_1.get()
        r2 = {}
        for lst in a_2.get():
            for r in lst:
                r2[r["k"]] = r
        cres = a_cli.get()
    crashes = 0
    for k, r in enumerate(r1):
        viols += r["viol"] + r2[k]["viol"]
        if r["crash"] or r2[k]["crash"]:
            crashes += 1
            continue
        if r["digest"] != r2[k]["digest"]:
            det = _snap_diff(r["snap"], r2[k]["snap"]) or next(
                ({"detector": d, "first": _short(r["paths"][d]), "second": _short(r2[k]["paths"].get(d))} for d in r["paths"]
                 if r["paths"][d] != r2[k]["paths"].get(d)), {})
            viols.append({"class": "C14-differs-between-processes-with-different-histories", "teal": progs[k]["src"],
                          "program": progs[k]["name"], **det,
                          "failure": "contexts / paths of this contract computed in a worker that had analysed <= 2 other contracts differ from "
                                     f"those computed in a worker that had analysed {len(jobs2[0][1])} other contracts before: {_short(det, 300)}"})
    inproc_evals = sum(r["evals"] for r in r1) + sum(r["evals"] for r in r2.values()) + sum(len(j[1]) for j in jobs2)
    by_prog: Dict[str, List[Tuple[int, int, bytes, bytes]]] = {}
    for name, hs, rc, so, se in cres:
        by_prog.setdefault(name, []).append((hs, rc, so, se))
    cli_bad = 0
    for p in cli_progs:
        runs = sorted(by_prog[p["name"]])
        base = runs[0]
        if b'"result"' not in base[2]:
            cli_bad += 1
            viols.append({"class": "C14-cli-no-json", "teal": p["src"], "returncode": base[1], "stdout": base[2][-400:].decode("utf-8", "replace"),
                          "stderr": base[3].decode("utf-8", "replace")})
            continue
        for hs, rc, so, se in runs[1:]:
            if so != base[2] or rc != base[1]:
                a, b = base[2].decode("utf-8", "replace").split("\n"), so.decode("utf-8", "replace").split("\n")
                line = next((i for i, (x, y) in enumerate(zip(a, b)) if x != y), min(len(a), len(b)))
                viols.append({"class": "C14-json-differs-between-hash-seeds", "teal": p["src"], "seeds": [base[0], hs],
                              "first_differing_line": line, "first": a[line:line + 3], "second": b[line:line + 3]})
                break
    viols += scan_viols
    summary = {
        "function": "init_tealer_from_single_contract + register_detector/run_detectors (in process); `python -m tealer --json - detect "
                    "--contracts p.teal` (subprocess); ast scan of every file under tealer/",
        "contract": "per-block contexts (as the sets they denote, incl. gtxn/absolute/relative sub-contexts 0..3 / +-1..3) and reported paths (as "
                    "ordered lists of block-id tuples) of one contract are identical: first run / after analysing other contracts / detectors "
                    "registered in a shuffled order / detectors re-run / in another worker process after a long history; no detector changes a "
                    "context; CLI JSON stdout byte-identical across PYTHONHASHSEED values; no module- or class-level container is mutated "
                    "inside a function body",
        "bound": f"{len(progs)} subject programs (all shapes x families, subroutine and multi-way shapes first, + seeded `atom; assert` programs of "
                 f"every family); pass 1: history of 2 other subjects; pass 2: {NPROC} workers, each first analyses {len(jobs2[0][1])} of the "
                 f"{len(hp)} `atom; assert` programs, then its subjects; each subject: seeded detector shuffle, detectors run twice, first "
                 f"object re-run; CLI: first {len(cli_progs)} subjects x PYTHONHASHSEED in {seeds}; scan: all .py files under tealer/",
        "programs": len(progs), "evaluations": inproc_evals + len(cres) + 1, "in_process_analyses": inproc_evals, "cli_runs": len(cres),
        "cli_without_json": cli_bad, "in_process_crashes": crashes, "exhaustive": False,
        "possible_addr_compared_as": "set (DESIGN §8 C14 reading)",
        "shared_state_sites": sites,
    }
    return _finish("C14", "input_only", summary, viols, known, t0)



# ======================================================================================================
# C13: group configurations against brute-force group semantics
# ======================================================================================================

ATTACKER = "ATTACKER_ADDR"
ADDR_X = "AEAQCAIBAEAQCAIBAEAQCAIBAEAQCAIBAEAQCAIBAEAQCAIBAEA5RCDXMI"
# detector -> (governing field, contract kind it looks at, configured types it applies to (None = all))
GROUP_DETECTORS: Dict[str, Tuple[str, str, Optional[Tuple[str, ...]]]] = {
    "rekey-to": ("RekeyTo", "lsig", None),
    "missing-fee-check": ("Fee", "lsig", None),
    "can-close-account": ("CloseRemainderTo", "lsig", ("pay", "txn")),
    "can-close-asset": ("AssetCloseTo", "lsig", ("axfer", "txn")),
    "is-updatable": ("OnCompletion", "app", None),
    "is-deletable": ("OnCompletion", "app", None),
}
TYPE_NUM = {"pay": 1, "keyreg": 2, "acfg": 3, "axfer": 4, "afrz": 5, "appl": 6}


def _check_lines(reader: List[str], field: str) -> List[str]:
    if field == "Fee":
        return reader + ["int 1000", "<=", "assert"]
    if field == "OnCompletion":
        return reader + ["int NoOp", "==", "assert"]
    return reader + ["global ZeroAddress", "==", "assert"]


def _mk_contract(body: List[str]) -> str:
    return "\n".join(["#pragma version 6"] + body + ["int 1", "return"]) + "\n"


def contract_pool(field: str) -> Dict[str, Dict[str, Any]]:
    """name -> {src, checks}.  checks = the ways the contract excludes the dangerous value of `field` at EVERY accepting
    exit: ("own",) for its own transaction, ("abs", i) for the member at absolute index i, ("rel", k) for the member at
    offset k from itself.  (Syntactic description of what was written; used only to name the clearing mechanism.)"""
    f = field
    pool: Dict[str, Dict[str, Any]] = {"nothing": {"src": _mk_contract([]), "checks": []}}
    pool[f"{f}.own"] = {"src": _mk_contract(_check_lines([f"txn {f}"], f)), "checks": [("own",)]}
    for i in (0, 1, 2):
        pool[f"{f}.abs{i}"] = {"src": _mk_contract(_check_lines([f"gtxn {i} {f}"], f)), "checks": [("abs", i)]}
    pool[f"{f}.gtxns1"] = {"src": _mk_contract(_check_lines(["int 1", f"gtxns {f}"], f)), "checks": [("abs", 1)]}
    for k in (1, 2):
        pool[f"{f}.rel+{k}"] = {"src": _mk_contract(_check_lines(["txn GroupIndex", f"int {k}", "+", f"gtxns {f}"], f)), "checks": [("rel", k)]}
        pool[f"{f}.rel-{k}"] = {"src": _mk_contract(_check_lines(["txn GroupIndex", f"int {k}", "-", f"gtxns {f}"], f)), "checks": [("rel", -k)]}
    if f == "Fee":
        # bound that is not a literal (1000 in the reference model): tealer knows the fee is bounded, not by what
        for nm, rd, chk in (("own-min", ["txn Fee"], ("own",)), ("abs1-min", ["gtxn 1 Fee"], ("abs", 1)),
                            ("rel+1-min", ["txn GroupIndex", "int 1", "+", "gtxns Fee"], ("rel", 1))):
            pool[f"Fee.{nm}"] = {"src": _mk_contract(rd + ["global MinTxnFee", "<=", "assert"]), "checks": [chk]}
    elif f != "OnCompletion":
        if f == "CloseRemainderTo":
            # says nothing about the field; a payment has OnCompletion 0 (trigger pattern of listed finding D5)
            pool[f"{f}.oc-noop-only"] = {"src": _mk_contract(["txn OnCompletion", "int NoOp", "==", "assert"]), "checks": []}
        pool[f"{f}.own-constfirst"] = {"src": _mk_contract(["global ZeroAddress", f"txn {f}", "==", "assert"]), "checks": [("own",)]}
        pool[f"{f}.abs1-addrX"] = {"src": _mk_contract([f"gtxn 1 {f}", f"addr {ADDR_X}", "==", "assert"]), "checks": [("abs", 1)]}
    # the check sits on one arm only: some accepting exit does not exclude the value
    pool[f"{f}.own-partial"] = {"src": _mk_contract(["txn Amount", "int 5", "==", "bz skip"] + _check_lines([f"txn {f}"], f) + ["skip:"]),
                                "checks": []}
    pool[f"{f}.abs1-partial"] = {"src": _mk_contract(["txn Amount", "int 5", "==", "bz skip"] + _check_lines([f"gtxn 1 {f}"], f) + ["skip:"]),
                                 "checks": []}
    return pool


class _NeedCell(Exception):
    def __init__(self, member: int, field: str) -> None:
        super().__init__(f"{member}.{field}")
        self.member, self.field = member, field


class _LazyGroup(avm.Group):
    """a group whose field cells are decided on demand (see `ground_truth`)"""

    def __init__(self, size: int, assign: Dict[Tuple[int, str], Any]) -> None:  # pylint: disable=super-init-not-called
        self.txns = [None] * size  # type: ignore[list-item]
        self.creator = "CREATOR_ADDR"
        self.globals = {}
        self.assign = assign

    def field(self, index: int, field: str) -> Any:
        if field == "GroupIndex":
            return index
        try:
            return self.assign[(index, field)]
        except KeyError:
            raise _NeedCell(index, field) from None


def _domain(field: str, consts: List[int], addrs: List[str], fixed_type: Optional[int]) -> List[Any]:
    if field == "TypeEnum":
        return [fixed_type] if fixed_type is not None else list(range(0, 7))
    if field == "OnCompletion":
        return list(range(0, 6))
    if field in avm.ADDRESS_FIELDS:
        out: List[Any] = [avm.ZERO_ADDRESS, ATTACKER, "CREATOR_ADDR"]
        return out + [a for a in addrs if a not in out]
    if field in avm.INT_FIELDS:
        vals = {0, 1}
        if field == "Fee":
            vals |= {272000, 272001}
        for c in consts:
            vals |= {v for v in (c - 1, c, c + 1) if 0 <= v <= avm.MAX_UINT64}
        return sorted(vals)
    return [b""]


def _danger(detector: str, pos: int) -> Dict[Tuple[int, str], Any]:
    if detector == "rekey-to":
        return {(pos, "RekeyTo"): ATTACKER}
    if detector == "missing-fee-check":
        return {(pos, "Fee"): 272001}
    if detector == "can-close-account":
        return {(pos, "TypeEnum"): 1, (pos, "CloseRemainderTo"): ATTACKER}
    if detector == "can-close-asset":
        return {(pos, "TypeEnum"): 4, (pos, "AssetCloseTo"): ATTACKER}
    if detector == "is-updatable":
        return {(pos, "TypeEnum"): 6, (pos, "OnCompletion"): 4}
    if detector == "is-deletable":
        return {(pos, "TypeEnum"): 6, (pos, "OnCompletion"): 5}
    raise KeyError(detector)


def placements(txns: List[Dict[str, Any]], size: int) -> Iterator[Dict[str, int]]:
    """injective positions of the configured transactions in a group of `size` consistent with every declared absolute
    index and relative offset"""
    ids = [t["txn_id"] for t in txns]

    def rec(k: int, pos: Dict[str, int]) -> Iterator[Dict[str, int]]:
        if k == len(ids):
            for t in txns:
                for other, off in (t.get("relative_indexes") or {}).items():
                    if pos[other] != pos[t["txn_id"]] + off:
                        return
            yield dict(pos)
            return
        t = txns[k]
        cands = [t["absolute_index"]] if t.get("absolute_index") is not None else range(size)
        for c in cands:
            if c < size and c not in pos.values():
                pos[ids[k]] = c
                yield from rec(k + 1, pos)
                del pos[ids[k]]
    yield from rec(0, {})


_PROG_CACHE: Dict[str, Tuple[avm.Program, List[int], List[str]]] = {}


def _prog(src: str) -> Tuple[avm.Program, List[int], List[str]]:
    if src not in _PROG_CACHE:
        prog = avm.parse(src)
        consts, addrs = [], []
        for ins in prog.instrs:
            if ins.op in ("int", "pushint"):
                v = _literal_value(ins.args[0])
                if v is not None:
                    consts.append(v)
            elif ins.op == "addr":
                addrs.append(ins.args[0])
        _PROG_CACHE[src] = (prog, consts, addrs)
    return _PROG_CACHE[src]


def ground_truth(txns: List[Dict[str, Any]], sources: Dict[str, str], target: str, detector: str, max_size: int) -> Optional[Dict[str, Any]]:
    """a concrete group (witness) consistent with the configuration on which every configured contract approves while
    `target` carries the dangerous value of `detector`; None if there is none with at most `max_size` members.

    Exhaustive over sizes, placements and -- lazily, cell by cell, only for the (member, field) cells some contract actually
    reads on the way -- over region-representative values (constants of the contracts +-1, the zero / attacker / creator
    address, all types and completion actions)."""
    runs: List[Tuple[avm.Program, str]] = []
    consts: List[int] = []
    addrs: List[str] = []
    for t in txns:
        for role in ("logic_sig", "application"):
            if t.get(role):
                pr, cs, ads = _prog(sources[t[role]])
                runs.append((pr, t["txn_id"]))
                consts += cs
                addrs += ads
    for size in range(1, max_size + 1):
        for pos in placements(txns, size):
            fixed: Dict[int, int] = {}
            base: Dict[Tuple[int, str], Any] = {}
            ok = True
            for t in txns:
                if t["txn_type"] != "txn":
                    fixed[pos[t["txn_id"]]] = TYPE_NUM[t["txn_type"]]
                    base[(pos[t["txn_id"]], "TypeEnum")] = TYPE_NUM[t["txn_type"]]
            for cell, v in _danger(detector, pos[target]).items():
                if cell in base and base[cell] != v:
                    ok = False
                base[cell] = v
            if not ok:
                continue

            def search(assign: Dict[Tuple[int, str], Any]) -> Optional[Dict[Tuple[int, str], Any]]:
                g = _LazyGroup(size, assign)
                for pr, tid in runs:
                    try:
                        res = avm.run(pr, g, pos[tid])
                    except _NeedCell as c:
                        for v in _domain(c.field, consts, addrs, fixed.get(c.member)):
                            w = search({**assign, (c.member, c.field): v})
                            if w is not None:
                                return w
                        return None
                    if not res.accepted:
                        return None
                return assign
            w = search(base)
            if w is not None:
                return {"group_size": size, "positions": pos,
                        "fields": {f"gtxn[{m}].{f}": v for (m, f), v in sorted(w.items())}, "unlisted_fields": "default (zero)"}
    return None


def clearing_mechanism(txns: List[Dict[str, Any]], checks: Dict[str, List[Tuple[Any, ...]]], target: str) -> Optional[str]:
    """how the configuration *as written* says the target's field is checked at every accepting exit (first match)"""
    by_id = {t["txn_id"]: t for t in txns}
    T = by_id[target]
    own = [c for role in ("logic_sig", "application") if T.get(role) for c in checks[T[role]]]
    if ("own",) in own:
        return "own-txn"
    if T.get("absolute_index") is not None and ("abs", T["absolute_index"]) in own:
        return "own-gtxn-at-configured-index"
    for U in txns:
        if U["txn_id"] == target:
            continue
        uc = [c for role in ("logic_sig", "application") if U.get(role) for c in checks[U[role]]]
        if T.get("absolute_index") is not None and ("abs", T["absolute_index"]) in uc:
            return "other-member-absolute-index"
        k = (U.get("relative_indexes") or {}).get(target)
        if k is not None and ("rel", k) in uc:
            return "other-member-offset-declared-by-checker"
    for U in txns:
        if U["txn_id"] == target:
            continue
        uc = [c for role in ("logic_sig", "application") if U.get(role) for c in checks[U[role]]]
        k = (T.get("relative_indexes") or {}).get(U["txn_id"])
        if k is not None and ("rel", -k) in uc:
            return "other-member-offset-declared-by-target-only"
    return None


DIRECT_MECHANISMS = ("own-txn", "own-gtxn-at-configured-index", "other-member-absolute-index",
                     "other-member-offset-declared-by-checker", "other-member-offset-declared-by-target-only")

LAYOUTS2: List[Tuple[str, Dict[str, Any], Dict[str, Any]]] = [
    ("none", {}, {}),
    ("abs01", {"absolute_index": 0}, {"absolute_index": 1}),
    ("abs10", {"absolute_index": 1}, {"absolute_index": 0}),
    ("abs0-", {"absolute_index": 0}, {}),
    ("abs-1", {}, {"absolute_index": 1}),
    ("T1:T2+1", {"relative_indexes": {"T2": 1}}, {}),
    ("T2:T1-1", {}, {"relative_indexes": {"T1": -1}}),
    ("both+1-1", {"relative_indexes": {"T2": 1}}, {"relative_indexes": {"T1": -1}}),
    ("T1:T2-1", {"relative_indexes": {"T2": -1}}, {}),
    ("T1:T2+2", {"relative_indexes": {"T2": 2}}, {}),
    ("abs0+T1:T2+1", {"absolute_index": 0, "relative_indexes": {"T2": 1}}, {}),
    ("T2:T1+2", {}, {"relative_indexes": {"T1": 2}}),
]


def _txn(tid: str, ttype: str, role: str, contract: str, extra: Dict[str, Any]) -> Dict[str, Any]:
    t: Dict[str, Any] = {"txn_id": tid, "txn_type": ttype, role: contract}
    t.update({k: (dict(v) if isinstance(v, dict) else v) for k, v in extra.items()})
    return t


def c13_configs(tier: str, seed: int) -> Tuple[Dict[str, Dict[str, Any]], List[Dict[str, Any]]]:
    """(contract pool, groups).  group = {"operation", "field", "transactions": [txn dict ...]}"""
    rng = random.Random(seed)
    pool: Dict[str, Dict[str, Any]] = {}
    groups: List[Dict[str, Any]] = []
    stateless_fields = ["RekeyTo", "Fee", "CloseRemainderTo"] + (["AssetCloseTo"] if tier != "quick" else [])
    for f in stateless_fields + ["OnCompletion"]:
        fp = contract_pool(f)
        pool.update(fp)
        names = list(fp)
        app = f == "OnCompletion"
        role = "application" if app else "logic_sig"
        base_type = "appl" if app else ("axfer" if f == "AssetCloseTo" else "pay")
        # one transaction
        for c in names:
            for ai in (None, 0, 1, 2):
                for ty in ([base_type] if app else [base_type, "txn"]):
                    groups.append({"field": f, "transactions": [_txn("T1", ty, role, c, {} if ai is None else {"absolute_index": ai})]})
        if not app:
            # a type the detector of the field does not apply to
            groups.append({"field": f, "transactions": [_txn("T1", "axfer" if f != "AssetCloseTo" else "pay", role, "nothing", {})]})
        # two transactions
        two: List[Dict[str, Any]] = []
        for c1 in names:
            for c2 in names:
                for li, (_, e1, e2) in enumerate(LAYOUTS2):
                    t1ty = base_type if (app or li % 2 == 0) else "txn"
                    two.append({"field": f, "transactions": [_txn("T1", t1ty, role, c1, e1), _txn("T2", base_type, role, c2, e2)]})
                    if not app and li % 3 == 0:
                        # T1 is an application call whose approval program does the checking (no logic-sig on T1)
                        two.append({"field": f, "transactions": [_txn("T1", "appl", "application", c1, e1), _txn("T2", base_type, role, c2, e2)]})
        if tier == "quick":
            rng.shuffle(two)
            two = two[:(900 if not app else 400)]
        groups += two
        # three transactions: intended positions, a random part of the layout declared
        n3 = 0 if tier == "quick" else (1200 if not app else 400)
        for _ in range(n3):
            ids = ["T1", "T2", "T3"]
            posn = dict(zip(ids, rng.sample(range(4), 3)))
            txs = []
            for tid in ids:
                extra: Dict[str, Any] = {}
                if rng.random() < 0.4:
                    extra["absolute_index"] = posn[tid]
                rel = {o: posn[o] - posn[tid] for o in ids if o != tid and rng.random() < 0.35}
                if rel:
                    extra["relative_indexes"] = rel
                txs.append(_txn(tid, base_type if rng.random() < 0.8 else ("appl" if app else "txn"), role, rng.choice(names), extra))
            groups.append({"field": f, "transactions": txs})
    for k, g in enumerate(groups):
        g["operation"] = f"op{k}"
    return pool, groups


def config_yaml(pool: Dict[str, Dict[str, Any]], groups: List[Dict[str, Any]], files: Dict[str, str]) -> str:
    """YAML text of a group configuration (the documented format of tealer/utils/command_line/group_config.py)"""
    import yaml
    used = sorted({t[r] for g in groups for t in g["transactions"] for r in ("logic_sig", "application") if t.get(r)})
    app_used = {t["application"] for g in groups for t in g["transactions"] if t.get("application")}
    lsig_used = {t["logic_sig"] for g in groups for t in g["transactions"] if t.get("logic_sig")}
    contracts = []
    for c in used:
        for kind, on in (("LogicSig", c in lsig_used), ("ApprovalProgram", c in app_used)):
            if on:
                contracts.append({"name": _cname(c, kind), "file_path": files[c], "type": kind, "version": 6, "subroutines": [],
                                  "functions": [{"name": "main", "dispatch_path": ["B0"]}]})
    out_groups = []
    for g in groups:
        txs = []
        for t in g["transactions"]:
            d: Dict[str, Any] = {"txn_id": t["txn_id"], "txn_type": t["txn_type"]}
            if t.get("application"):
                d["application"] = {"contract": _cname(t["application"], "ApprovalProgram"), "function": "main"}
            if t.get("logic_sig"):
                d["logic_sig"] = {"contract": _cname(t["logic_sig"], "LogicSig"), "function": "main"}
            if t.get("absolute_index") is not None:
                d["absolute_index"] = t["absolute_index"]
            if t.get("relative_indexes"):
                d["relative_indexes"] = [{"other_txn_id": o, "offset": k} for o, k in t["relative_indexes"].items()]
            txs.append(d)
        out_groups.append({"operation": g["operation"], "transactions": txs})
    return yaml.safe_dump({"name": "c13", "contracts": contracts, "groups": out_groups}, sort_keys=False)


def _cname(c: str, kind: str) -> str:
    return c + ("@app" if kind == "ApprovalProgram" else "")


def run_tealer_groups(pool: Dict[str, Dict[str, Any]], groups: List[Dict[str, Any]]) -> Dict[str, Set[Tuple[str, str]]]:
    """detector -> {(operation, txn_id)} reported by the real group mode (YAML file -> read_config_from_file ->
    init_tealer_from_config -> run_detectors)"""
    from pathlib import Path
    from bounded import harness
    from tealer.utils.command_line.group_config import read_config_from_file
    from tealer.utils.command_line.common import init_tealer_from_config
    d = tempfile.mkdtemp(prefix="c13_")
    try:
        files = {}
        used = sorted({t[r] for g in groups for t in g["transactions"] for r in ("logic_sig", "application") if t.get(r)})
        for k, c in enumerate(used):
            files[c] = f"c{k}.teal"
            with open(os.path.join(d, files[c]), "w", encoding="utf-8") as fh:
                fh.write(pool[c]["src"])
        with open(os.path.join(d, "config.yaml"), "w", encoding="utf-8") as fh:
            fh.write(config_yaml(pool, groups, files))
        classes = [c for c in _detector_classes() if c.NAME in GROUP_DETECTORS]
        with harness.quiet():
            t = init_tealer_from_config(read_config_from_file(Path(d) / "config.yaml"))
            for c in classes:
                t.register_detector(c)
            results = t.run_detectors()
        out: Dict[str, Set[Tuple[str, str]]] = {c.NAME: set() for c in classes}
        for det, res in zip(t.detectors, results):
            for o in res:
                for tx in o.transactions:
                    out[det.NAME].add((o.group_transaction.operation_name, tx.transacton_id))
        return out
    finally:
        shutil.rmtree(d, ignore_errors=True)


def _eligible(t: Dict[str, Any], detector: str) -> bool:
    _, kind, types = GROUP_DETECTORS[detector]
    if kind == "lsig" and not t.get("logic_sig"):
        return False
    if kind == "app" and not t.get("application"):
        return False
    return types is None or t["txn_type"] in types


def _c13_work(job: Tuple[Dict[str, Dict[str, Any]], List[Dict[str, Any]], int]) -> Dict[str, Any]:
    pool, groups, rot = job
    out: Dict[str, Any] = {"evals": 0, "viol": [], "crash": None, "informational": {}, "vulnerable": 0, "cleared": 0}
    try:
        reported = run_tealer_groups(pool, groups)
    except Exception as e:  # pylint: disable=broad-except
        out["crash"] = f"{type(e).__name__}: {e} :: {traceback.format_exc()[-500:]}"
        return out
    sources = {c: v["src"] for c, v in pool.items()}
    checks = {c: v["checks"] for c, v in pool.items()}
    stateless = [d for d, (_, k, _) in GROUP_DETECTORS.items() if k == "lsig"]
    for gi, g in enumerate(groups):
        txns = g["transactions"]
        main_det = [d for d, (f, _, _) in GROUP_DETECTORS.items() if f == g["field"]]
        # the detector(s) of the field the contracts talk about + one rotating control detector nobody checks
        dets = list(main_det)
        if g["field"] != "OnCompletion":
            ctl = stateless[(gi + rot) % len(stateless)]
            if ctl not in dets:
                dets.append(ctl)
        for det in dets:
            for t in txns:
                tid = t["txn_id"]
                rep = (g["operation"], tid) in reported[det]
                if not _eligible(t, det):
                    if rep:
                        out["viol"].append(_c13_violation("C13-ineligible-transaction-reported", det, g, tid, pool, None,
                                                          "tealer reports a transaction the detector does not apply to"))
                    continue
                out["evals"] += 1
                w = ground_truth(txns, sources, tid, det, 4)
                if w is not None:
                    out["vulnerable"] += 1
                    if not rep:
                        out["viol"].append(_c13_violation(f"C13-unsound:{det}{_sig_suffix(g, pool)}", det, g, tid, pool, w,
                                                          "every configured contract approves the witness group although the transaction "
                                                          "carries the dangerous value, but tealer does not report the transaction"))
                    continue
                if not rep:
                    out["cleared"] += 1
                    continue
                # reported, no witness up to 4 members: look further before calling it imprecise
                w = ground_truth(txns, sources, tid, det, 8)
                if w is not None:
                    out["vulnerable"] += 1
                    continue
                mech = clearing_mechanism(txns, checks, tid) if det in main_det else None
                if mech in DIRECT_MECHANISMS:
                    out["viol"].append(_c13_violation(f"C13-imprecise:{mech}", det, g, tid, pool, None,
                                                      f"no group of <= 8 members consistent with the configuration is approved with the dangerous "
                                                      f"value on {tid} (checked through: {mech}), yet tealer reports it"))
                else:
                    key = "reported-though-excluded-by-derived-layout-or-infeasible-configuration"
                    out["informational"][key] = out["informational"].get(key, 0) + 1
    return out


def _sig_suffix(g: Dict[str, Any], pool: Dict[str, Dict[str, Any]]) -> str:
    """trigger patterns of listed findings (bounded.bsprog.signatures) present in a contract of the group"""
    from bounded import bsprog
    sig: Set[str] = set()
    for t in g["transactions"]:
        for r in ("logic_sig", "application"):
            if t.get(r):
                sig |= bsprog.signatures(pool[t[r]]["src"])
    return "".join("+" + x for x in sorted(sig))


def _c13_violation(cls: str, det: str, g: Dict[str, Any], tid: str, pool: Dict[str, Dict[str, Any]], witness: Any, text: str) -> Dict[str, Any]:
    used = sorted({t[r] for t in g["transactions"] for r in ("logic_sig", "application") if t.get(r)})
    files = {c: f"c{k}.teal" for k, c in enumerate(used)}
    return {"class": cls, "detector": det, "transaction": tid, "operation": g["operation"], "failure": f"{cls}: {text}",
            "config_yaml": config_yaml(pool, [g], files), "contracts": {files[c]: pool[c]["src"] for c in used},
            "witness_group": witness, "group": g["transactions"]}


def _confirm_standalone(v: Dict[str, Any], pool: Dict[str, Dict[str, Any]]) -> Optional[bool]:
    """re-run tealer on the minimal configuration of a violation; True if the verdict is the same as in the batch"""
    g = {"operation": v["operation"], "field": None, "transactions": v["group"]}
    try:
        rep = run_tealer_groups(pool, [g])
    except Exception:  # pylint: disable=broad-except
        return None
    now = (v["operation"], v["transaction"]) in rep[v["detector"]]
    was = not v["class"].startswith("C13-unsound")
    return now == was


def _c13_single_work(job: Tuple[List[Tuple[str, str, str]], int]) -> Dict[str, Any]:
    """group of one transaction running one contract  vs  the single-contract verdict (some path <=> reported)"""
    from bounded import harness
    items, _ = job
    out: Dict[str, Any] = {"evals": 0, "viol": [], "crash": None, "skipped": 0}
    pool = {name: {"src": src, "checks": []} for name, src, _ in items}
    groups = []
    for k, (name, src, kind) in enumerate(items):
        role, ty = ("application", "appl") if kind == "app" else ("logic_sig", "txn")
        groups.append({"operation": f"one{k}", "field": None, "transactions": [_txn("T1", ty, role, name, {})]})
    try:
        reported = run_tealer_groups(pool, groups)
    except Exception as e:  # pylint: disable=broad-except
        out["crash"] = f"{type(e).__name__}: {e} :: {traceback.format_exc()[-500:]}"
        return out
    for g, (name, src, kind) in zip(groups, items):
        try:
            A = harness.Analysed(src)
        except Exception:  # pylint: disable=broad-except
            out["skipped"] += 1
            continue
        for det, (_, k, _) in GROUP_DETECTORS.items():
            if k != kind:
                continue
            out["evals"] += 1
            single = bool(A.paths[det])
            grp = (g["operation"], "T1") in reported[det]
            if single != grp:
                v = _c13_violation(f"C13-group-of-one-differs-from-single:{'single-only' if single else 'group-only'}", det, g, "T1", pool, None,
                                   f"single-contract mode reports {len(A.paths[det])} path(s), group mode "
                                   f"{'reports' if grp else 'does not report'} the transaction")
                v["teal"] = src
                v["program"] = name
                out["viol"].append(v)
    return out


@standin("C13")
def group_verdicts(tier: str = "quick", seed: int = 0, known: Any = None) -> Dict[str, Any]:
    from bounded import gen
    t0 = time.time()
    pool, groups = c13_configs(tier, seed)
    rng = random.Random(seed)
    order = list(range(len(groups)))
    rng.shuffle(order)
    nchunks = NPROC * (2 if tier == "quick" else 6)
    jobs = [(pool, [groups[k] for k in order[c::nchunks]], c) for c in range(nchunks)]
    # group of one: the pool contracts and generated single-transaction programs
    singles: List[Tuple[str, str, str]] = []
    for c, v in pool.items():
        singles.append((c, v["src"], "app" if c.startswith("OnCompletion") else "lsig"))
    n_gen = 160 if tier == "quick" else 1500
    fam_kind = {"rekey": "lsig", "fee": "lsig", "closeto": "lsig", "assetcloseto": "lsig", "txntype": "app", "gtxn": "lsig"}
    gp = [p for k, p in enumerate(gen.programs(2, seed=seed, limit=n_gen * 8, families=list(fam_kind))) if k % 8 == 0]
    for k, p in enumerate(gp):
        singles.append((f"g{k}", p["src"], fam_kind[p["family"]]))
    sjobs = [(singles[c::NPROC], c) for c in range(NPROC)]
    with mp.get_context("fork").Pool(NPROC) as mpool:
        a_s = mpool.map_async(_c13_single_work, sjobs, chunksize=1)
        res = mpool.map(_c13_work, jobs, chunksize=1)
        sres = a_s.get()
    viols: List[Dict[str, Any]] = []
    info: Dict[str, int] = {}
    crashes: List[str] = []
    for r in res + sres:
        viols += r["viol"]
        if r["crash"]:
            crashes.append(r["crash"])
        for k, v in r.get("informational", {}).items():
            info[k] = info.get(k, 0) + v
    for c in crashes[:1]:
        viols.append({"class": "C13-crash", "failure": f"tealer group mode crashed on a generated configuration: {c}"})
    # the first violation of every class once more, alone in its configuration
    seen: Set[str] = set()
    for v in viols:
        if v["class"] in seen or "group" not in v:
            continue
        seen.add(v["class"])
        p2 = dict(pool)
        if "teal" in v:
            p2[v["group"][0].get("logic_sig") or v["group"][0].get("application")] = {"src": v["teal"], "checks": []}
        v["same_verdict_in_minimal_configuration"] = _confirm_standalone(v, p2)
    summary = {
        "function": "read_config_from_file -> init_tealer_from_config -> detect_missing_tx_field_validations_group_complete "
                    "(6 detectors, output_group) on generated YAML configurations; init_tealer_from_single_contract for the group-of-one clause",
        "contract": "a configured transaction is reported iff some concrete group consistent with the configuration (declared absolute indices, "
                    "offsets, types) is approved by EVERY configured contract (spec/avm.py) while the transaction carries the detector's dangerous "
                    "value: missing report = unsound; report although the value is excluded through own txn / own gtxn at the configured index / "
                    "another member's configured absolute index or offset = imprecise; group of one == single-contract verdict",
        "bound": f"{len(groups)} groups of 1-{2 if tier == 'quick' else 3} transactions over {len(pool)} pool contracts (per field: no check, own "
                 "`txn F`, `gtxn 0|1|2 F`, `int 1; gtxns F`, `txn GroupIndex; int 1|2; +|-; gtxns F`, two one-armed checks) x absolute-index / "
                 f"offset layouts ({len(LAYOUTS2)} for pairs: none, both / one absolute, offset declared by checker / target / both, either sign, "
                 "distance 2, mixed) x types (pay/axfer/appl/txn) x roles (logic-sig, application); per group the field's detector(s) + one control "
                 "detector; ground truth: all group sizes <= 4 (<= 8 before an imprecision is reported) x all consistent placements x lazily "
                 f"enumerated region values of every field cell read; group-of-one: {len(singles)} contracts (pool + generated programs)",
        "groups": len(groups), "evaluations": sum(r["evals"] for r in res + sres), "exhaustive": False,
        "ground_truth_vulnerable": sum(r.get("vulnerable", 0) for r in res), "ground_truth_cleared_and_not_reported": sum(r.get("cleared", 0) for r in res),
        "group_of_one_comparisons": sum(r["evals"] for r in sres), "group_mode_crashes": len(crashes), "informational": info,
    }
    return _finish("C13", "group_verdicts", summary, viols, known, t0)



def _selftest_oracles() -> None:
    """hand-computed cases for the oracles of this module (asserts)"""
    # rewrites
    src = "#pragma version 6\ntxn TypeEnum\nint 1\n==\nassert\ntxn Fee\nint 1000\n<=\nassert\nint 1\nreturn\n"
    rng = random.Random(0)
    assert "int 0x3e8" in apply_rewrites(src, ["int-hex"], rng)[0] and "int 01750" in apply_rewrites(src, ["int-oct"], rng)[0]
    named = apply_rewrites(src, ["number-to-name"], rng)[0]
    assert "int pay" in named and "int 1000" in named and named.count("int 1\n") == 1   # the final `int 1` is untouched
    assert apply_rewrites(named, ["name-to-number"], rng)[0] == src
    ic = apply_rewrites(src, ["intcblock-all"], rng)
    assert ic[0].split("\n")[1] == "intcblock 1 1000" and ic[1][2] == 3 and "intc_1" in ic[0]
    pad, lmap, _ = apply_rewrites(src, ["pad-all"], rng)
    assert [pad.split("\n")[lmap[k] - 1] for k in (2, 5, 9)] == ["txn TypeEnum", "assert", "assert"]
    sample = ("#pragma version 6\nb main\nf:\nint 6\npop\nretsub\ng:\ncallsub f\nretsub\nmain:\ntxn OnCompletion\nint 0\n==\nbz out\n"
              "callsub g\nout:\ntxn Fee\nint 1000\n<=\nassert\nint 1\nreturn\n")
    applied = 0
    for n in LISTED:
        r = apply_rewrites(sample, [n], rng)
        if r is not None:
            applied += 1
            assert same_meaning(sample, r[0], cap=40) is None, n
            assert avm.parse(r[0]).instrs, n
    assert applied >= 18, applied
    assert same_meaning(sample, sample.replace("int 1000", "int 999")) is not None      # the cross-check can tell
    # group ground truth
    rk = contract_pool("RekeyTo")
    srcs = {c: v["src"] for c, v in rk.items()}

    def gt(txns: List[Dict[str, Any]], target: str) -> bool:
        return ground_truth(txns, srcs, target, "rekey-to", 6) is not None
    assert gt([_txn("T1", "pay", "logic_sig", "nothing", {})], "T1")
    assert not gt([_txn("T1", "pay", "logic_sig", "RekeyTo.own", {})], "T1")
    two = lambda e1, c2, e2: [_txn("T1", "pay", "logic_sig", "nothing", e1), _txn("T2", "pay", "logic_sig", c2, e2)]  # noqa: E731
    assert not gt(two({"absolute_index": 1}, "RekeyTo.abs1", {}), "T1")
    assert gt(two({"absolute_index": 0}, "RekeyTo.abs1", {}), "T1")
    assert gt(two({}, "RekeyTo.abs1", {}), "T1")                                   # T1 may sit anywhere else
    assert not gt(two({}, "RekeyTo.rel-1", {"relative_indexes": {"T1": -1}}), "T1")
    assert gt(two({}, "RekeyTo.rel+1", {"relative_indexes": {"T1": -1}}), "T1")
    assert not gt(two({"relative_indexes": {"T2": 1}}, "RekeyTo.rel-1", {}), "T1")  # declared on the target's side only
    assert gt(two({}, "RekeyTo.own-partial", {}), "T2")                            # one accepting exit does not check
    assert ground_truth([_txn("T1", "axfer", "logic_sig", "nothing", {})], srcs, "T1", "can-close-account", 4) is None
    assert list(placements(two({"absolute_index": 1}, "nothing", {"relative_indexes": {"T1": -1}}), 3)) == [{"T1": 1, "T2": 2}]
    # shared-state scan
    d = tempfile.mkdtemp(prefix="scan_")
    try:
        os.makedirs(os.path.join(d, "tealer"))
        with open(os.path.join(d, "tealer", "m.py"), "w", encoding="utf-8") as fh:
            fh.write("A = []\nB = {}\nA.append(0)\nclass K:\n    s = []\n    def m(self, A):\n        A.append(1)\n        self.s.append(1)\n"
                     "def f():\n    B[1] = 2\n    x = []\n    x.append(1)\n")
        _, v = scan_shared_state(d)
        assert sorted(x["class"] for x in v) == ["module-state-mutated:tealer/m.py:B", "module-state-mutated:tealer/m.py:K.s"], v
    finally:
        shutil.rmtree(d, ignore_errors=True)
    print("oracle self-test ok")


if __name__ == "__main__":
    import json
    _selftest_oracles()
    which = sys.argv[1:] or ["C15", "C14", "C13"]
    table = {"C15": "metamorphic", "C14": "input_only", "C13": "group_verdicts"}
    for pid in which:
        fn = globals().get(table[pid])
        if fn is None:
            continue
        res = fn("quick", 0, None)
        print(f"===== {pid} {table[pid]}")
        print(json.dumps(res["summary"], indent=1, default=str)[:6000])
        for v in res["violations"]:
            print("--- violation", v["file"])
            print(json.dumps(v["data"], indent=1, default=str)[:2500])
