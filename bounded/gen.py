"""BS-PROG generator (DESIGN.md Appendix C): TEAL programs of the modelled fragment and the
region-representative inputs for a program.

    programs(k, seed=0, limit=None, families=None) -> iterator of
        {"name", "family", "src", "meta"}
    inputs_for(src) -> iterator of (avm.Group, own_index, unrelated_scratch_dict)

Vocabulary
----------
atom       lines that push one uint64 truth value (a direct check of a governed field)
condition  an atom under a template (`!`, `&&`, `||` up to depth 2, an unrelated atom, padding)
statement  condition + consumer (assert / branch to an err block / diamond / ... / `return`);
           stack-neutral, may reject
shape      a control skeleton with a few slots, each slot holds one statement or nothing

Enumeration (deterministic), per family, for n = 1..k filled slots:
  tier A   every tuple of n CORE statements (8 per family) x every shape x every placement
  tier B   (n = 1 only) every FULL statement of the family on the straight-line shape
Families are interleaved round-robin.  When the exhaustive part is finished and `limit` is not
reached, seeded random programs (random.Random(seed)) over the FULL statements follow.
Only the standard library and /verif/spec/avm.py (tables, parser) are used; tealer is not.
"""

from __future__ import annotations

import itertools
import math
import os
import random
import sys
from typing import Callable, Dict, Iterator, List, Optional, Sequence, Tuple

sys.path.insert(0, os.path.dirname(os.path.dirname(os.path.abspath(__file__))))
from spec import avm  # noqa: E402  pylint: disable=wrong-import-position

Group, Txn = avm.Group, avm.Txn

ZERO = avm.ZERO_ADDRESS
LOOKALIKE = avm.LOOKALIKE_ZERO_ADDRESS  # valid, non-zero; tealer takes it for the zero address
# well-formed addresses (public keys 0x01*32 and 0x02*32, checksums verified in test_avm_gen.py)
ADDR_X = "AEAQCAIBAEAQCAIBAEAQCAIBAEAQCAIBAEAQCAIBAEAQCAIBAEA5RCDXMI"
ADDR_Y = "AIBAEAQCAIBAEAQCAIBAEAQCAIBAEAQCAIBAEAQCAIBAEAQCAIBMXPWWNQ"
CREATOR = "CREATOR_ADDR"
ATTACKER = "ATTACKER_ADDR"

FAMILIES = ["fee", "groupsize", "groupindex", "rekey", "closeto", "assetcloseto", "txntype", "gtxn"]
CMP_OPS = ["==", "!=", "<", "<=", ">", ">="]

Lines = List[str]


# --------------------------------------------------------------------------------------
# atoms
# --------------------------------------------------------------------------------------


def _both_orders(read: Lines, other: Lines, ops: Sequence[str]) -> List[Lines]:
    """`read other op` and `other read op` for every op."""
    out = []
    for op in ops:
        out.append(read + other + [op])
        out.append(other + read + [op])
    return out


def _int_atoms(read: Lines, consts: Sequence[object], ops: Sequence[str] = CMP_OPS) -> List[Lines]:
    out: List[Lines] = []
    for c in consts:
        out += _both_orders(read, [f"int {c}"], ops)
    return out


ADDR_OPERANDS: List[Lines] = [
    ["global ZeroAddress"],
    [f"addr {ZERO}"],
    [f"addr {ADDR_X}"],
    [f"addr {LOOKALIKE}"],
    ["global CreatorAddress"],
]


def _addr_atoms(read: Lines) -> List[Lines]:
    out: List[Lines] = []
    for operand in ADDR_OPERANDS:
        out += _both_orders(read, operand, ["==", "!="])
    return out


def _front(atoms: List[Lines], core: List[Lines]) -> List[Lines]:
    """The atom list with the hand-picked core atoms first (the first four are the core)."""
    seen, out = set(), []
    for a in core + atoms:
        key = tuple(a)
        if key not in seen:
            seen.add(key)
            out.append(a)
    return out


def atoms_fee() -> List[Lines]:
    r = ["txn Fee"]
    core = [
        r + ["int 1000", "<="],  # Fee <= 1000
        ["int 1000"] + r + ["<="],  # 1000 <= Fee   (constant on the left)
        r + ["int 272001", "<"],  # Fee < 272001
        ["int 272000"] + r + ["<"],  # 272000 < Fee  (used negated by the core)
    ]
    return _front(_int_atoms(r, (0, 1, 1000, 272000, 272001)), core)


def atoms_groupsize() -> List[Lines]:
    r = ["global GroupSize"]
    core = [
        r + ["int 2", "=="],
        ["int 2"] + r + ["<="],
        r + ["int 3", "<"],
        ["int 15"] + r + ["<"],
    ]
    return _front(_int_atoms(r, (1, 2, 3, 15, 16, 17)), core)


def atoms_groupindex() -> List[Lines]:
    r = ["txn GroupIndex"]
    core = [
        r + ["int 0", "=="],
        ["int 1"] + r + [">"],
        r + ["int 2", "<"],
        ["int 15"] + r + ["<="],
    ]
    return _front(_int_atoms(r, (0, 1, 2, 15, 16)), core)


def _atoms_address_field(field: str) -> List[Lines]:
    r = [f"txn {field}"]
    core = [
        r + ["global ZeroAddress", "=="],
        ["global ZeroAddress"] + r + ["=="],
        r + [f"addr {ZERO}", "=="],
        r + [f"addr {ADDR_X}", "=="],
    ]
    return _front(_addr_atoms(r), core)


def atoms_rekey() -> List[Lines]:
    return _atoms_address_field("RekeyTo")


def atoms_closeto() -> List[Lines]:
    return _atoms_address_field("CloseRemainderTo")


def atoms_assetcloseto() -> List[Lines]:
    return _atoms_address_field("AssetCloseTo")


TYPE_CONSTS = ["pay", "1", "axfer", "4", "appl", "6", "unknown", "0"]  # 0/unknown: tealer D11
OC_CONSTS = ["NoOp", "0", "OptIn", "1", "CloseOut", "2", "ClearState", "3",
             "UpdateApplication", "4", "DeleteApplication", "5"]


def _kind_atoms(reader: Callable[[str], Lines]) -> List[Lines]:
    out: List[Lines] = []
    out += _int_atoms(reader("TypeEnum"), TYPE_CONSTS, ["==", "!="])
    out += _int_atoms(reader("OnCompletion"), OC_CONSTS, ["==", "!="])
    app = reader("ApplicationID")
    out += [app, app + ["!"], app + ["int 0", "=="], app + ["int 0", "!="],
            ["int 0"] + app + ["=="], ["int 0"] + app + ["!="]]
    return out


def atoms_txntype() -> List[Lines]:
    core = [
        ["txn TypeEnum", "int pay", "=="],
        ["int 1", "txn TypeEnum", "=="],
        ["txn OnCompletion", "int NoOp", "=="],
        ["txn OnCompletion", "int UpdateApplication", "=="],
    ]
    return _front(_kind_atoms(lambda f: [f"txn {f}"]), core)


# group readers: field -> lines that push the field of some group member
def _rd_gtxn(i: int) -> Callable[[str], Lines]:
    return lambda f: [f"gtxn {i} {f}"]


def _rd_gtxns(i: int) -> Callable[[str], Lines]:
    return lambda f: [f"int {i}", f"gtxns {f}"]


def _rd_rel(k: int, op: str, const_first: bool = False) -> Callable[[str], Lines]:
    if const_first:
        return lambda f: [f"int {k}", "txn GroupIndex", op, f"gtxns {f}"]
    return lambda f: ["txn GroupIndex", f"int {k}", op, f"gtxns {f}"]


GROUP_READERS: List[Callable[[str], Lines]] = [
    _rd_gtxn(0), _rd_gtxn(1), _rd_gtxns(0), _rd_gtxns(1),
    _rd_rel(1, "+"), _rd_rel(1, "-"), _rd_rel(1, "+", const_first=True),
]


def atoms_gtxn() -> List[Lines]:
    core = [
        ["gtxn 0 RekeyTo", "global ZeroAddress", "=="],
        ["int 1000"] + _rd_rel(1, "+")("Fee") + [">="],
        ["gtxn 1 TypeEnum", "int pay", "=="],
        _rd_rel(1, "-")("CloseRemainderTo") + [f"addr {ADDR_X}", "=="],
    ]
    out: List[Lines] = []
    for rd in GROUP_READERS:
        out += _both_orders(rd("Fee"), ["int 1000"], ["<=", ">"])
        out += _both_orders(rd("Fee"), ["int 272000"], [">"])
        for field in ("RekeyTo", "CloseRemainderTo", "AssetCloseTo"):
            out += _both_orders(rd(field), ["global ZeroAddress"], ["==", "!="])
            out += _both_orders(rd(field), [f"addr {ADDR_X}"], ["=="])
        out += _both_orders(rd("TypeEnum"), ["int pay"], ["==", "!="])
        out += _both_orders(rd("TypeEnum"), ["int 6"], ["=="])
        out += _both_orders(rd("OnCompletion"), ["int UpdateApplication"], ["==", "!="])
        out += _both_orders(rd("OnCompletion"), ["int 5"], ["!="])
        out += [rd("ApplicationID"), rd("ApplicationID") + ["!"], rd("ApplicationID") + ["int 0", "=="]]
    return _front(out, core)


ATOMS: Dict[str, Callable[[], List[Lines]]] = {
    "fee": atoms_fee,
    "groupsize": atoms_groupsize,
    "groupindex": atoms_groupindex,
    "rekey": atoms_rekey,
    "closeto": atoms_closeto,
    "assetcloseto": atoms_assetcloseto,
    "txntype": atoms_txntype,
    "gtxn": atoms_gtxn,
}

# --------------------------------------------------------------------------------------
# conditions: templates over (a = atom, p = partner atom of the family, u = unrelated atom)
# --------------------------------------------------------------------------------------

UNRELATED: Dict[str, Lines] = {
    "load7": ["load 7"],  # slot 7 is never stored: the harness pre-sets it (0 / 1)
    "amount": ["txn Amount", "int 5", "=="],
}

# (name, uses_p, uses_u, builder)
TEMPLATES: List[Tuple[str, bool, bool, Callable[[Lines, Lines, Lines], Lines]]] = [
    ("a", False, False, lambda a, p, u: a),
    ("!a", False, False, lambda a, p, u: a + ["!"]),
    ("a&&u", False, True, lambda a, p, u: a + u + ["&&"]),
    ("u&&a", False, True, lambda a, p, u: u + a + ["&&"]),
    ("a||u", False, True, lambda a, p, u: a + u + ["||"]),
    ("a&&p", True, False, lambda a, p, u: a + p + ["&&"]),
    ("a||p", True, False, lambda a, p, u: a + p + ["||"]),
    # depth 2
    ("!!a", False, False, lambda a, p, u: a + ["!", "!"]),
    ("!(a&&u)", False, True, lambda a, p, u: a + u + ["&&", "!"]),
    ("!a||u", False, True, lambda a, p, u: a + ["!"] + u + ["||"]),
    ("(a||p)&&u", True, True, lambda a, p, u: a + p + ["||"] + u + ["&&"]),
    ("!(a||p)", True, False, lambda a, p, u: a + p + ["||", "!"]),
    ("a&&!p", True, False, lambda a, p, u: a + p + ["!", "&&"]),
    # padding that leaves the condition on top
    ("pad:dup-pop", False, False, lambda a, p, u: a + ["dup", "pop"]),
    ("pad:swap-pop", False, False, lambda a, p, u: ["int 9"] + a + ["swap", "pop"]),
    ("pad:store-load", False, False, lambda a, p, u: a + ["store 11", "load 11"]),
    ("pad:cover", False, False, lambda a, p, u: ["int 9"] + a + ["cover 1", "pop"]),
    ("pad:uncover", False, False, lambda a, p, u: a + ["int 9", "uncover 1", "swap", "pop"]),
    ("pad:select", False, False, lambda a, p, u: ["int 0"] + a + ["dup", "select"]),
    ("pad:dig", False, False, lambda a, p, u: a + ["dig 0", "&&"]),
]
TEMPLATE_BY_NAME = {t[0]: t for t in TEMPLATES}

# --------------------------------------------------------------------------------------
# consumers: (name, terminal, builder(cond, tag) -> lines)
# --------------------------------------------------------------------------------------

CONSUMERS: List[Tuple[str, bool, Callable[[Lines, str], Lines]]] = [
    ("assert", False, lambda c, t: c + ["assert"]),
    ("bz_reject", False, lambda c, t: c + ["bz reject"]),
    ("bnz_reject", False, lambda c, t: c + ["bnz reject"]),  # establishes NOT cond
    ("bnz_skip_err", False, lambda c, t: c + [f"bnz {t}_ok", "err", f"{t}_ok:"]),
    ("bz_next", False, lambda c, t: c + [f"bz {t}_n", f"{t}_n:"]),  # establishes nothing
    ("bnz_next", False, lambda c, t: c + [f"bnz {t}_n", f"{t}_n:"]),  # establishes nothing
    ("diamond_bz", False, lambda c, t: c + [f"bz {t}_e", "int 1", "pop", f"b {t}_j",
                                            f"{t}_e:", "int 2", "pop", f"{t}_j:"]),
    ("diamond_bnz", False, lambda c, t: c + [f"bnz {t}_e", "int 1", "pop", f"b {t}_j",
                                             f"{t}_e:", "int 2", "pop", f"{t}_j:"]),
    ("return", True, lambda c, t: c + ["return"]),  # only as the final statement of main
]
CONSUMER_BY_NAME = {c[0]: c for c in CONSUMERS}

# absolute-index reads that make the group-size detector relevant (family "groupsize")
ABS_READS: List[Lines] = [["gtxn 0 Amount", "pop"], ["int 1", "gtxns Amount", "pop"]]


class Stmt:
    """condition + consumer (+ an absolute group read for the groupsize family)."""

    def __init__(self, cond: Lines, consumer: str, desc: str, extra: Optional[Lines] = None):
        self.cond = cond
        self.consumer = consumer
        self.terminal = CONSUMER_BY_NAME[consumer][1]
        self.extra = extra or []
        self.desc = desc

    def render(self, tag: str) -> Lines:
        body = CONSUMER_BY_NAME[self.consumer][2](list(self.cond), tag)
        # the extra read follows the check, except that nothing may follow a `return`
        return self.extra + body if self.terminal else body + self.extra


def _mk(family: str, atoms: List[Lines], ai: int, template: str, consumer: str,
        uname: str = "load7", variant: int = 0) -> Stmt:
    a = atoms[ai]
    p = atoms[1] if ai != 1 else atoms[0]
    _, _, uses_u, build = TEMPLATE_BY_NAME[template]
    cond = build(list(a), list(p), list(UNRELATED[uname]))
    desc = f"[{'; '.join(a)}] {template}{'/' + uname if uses_u else ''} -> {consumer}"
    extra = None
    if family == "groupsize":
        extra = ABS_READS[variant % 2]
        desc += f" +{extra[0]}"
    return Stmt(cond, consumer, desc, extra)


def core_statements(family: str) -> List[Stmt]:
    """The 8 statements used for the exhaustive shape x statement products."""
    at = ATOMS[family]()
    return [
        _mk(family, at, 0, "a", "assert"),
        _mk(family, at, 1, "a", "assert", variant=1),
        _mk(family, at, 2, "a", "bz_reject"),
        _mk(family, at, 3, "a", "bnz_reject", variant=1),
        _mk(family, at, 0, "a&&u", "assert"),
        _mk(family, at, 1, "a||u", "assert", variant=1),
        _mk(family, at, 0, "a", "bnz_next"),
        _mk(family, at, 0, "a", "return"),
    ]


def full_statements(family: str) -> List[Stmt]:
    """All statements of the family: atoms x templates x {assert} + atoms x {a, !a} x consumers."""
    at = ATOMS[family]()
    out: List[Stmt] = []
    for ai in range(len(at)):
        for name, _, uses_u, _ in TEMPLATES:
            for uname in (UNRELATED if uses_u else ["load7"]):
                out.append(_mk(family, at, ai, name, "assert", uname, variant=ai))
        for name in ("a", "!a"):
            for cname, _, _ in CONSUMERS:
                if cname != "assert":
                    out.append(_mk(family, at, ai, name, cname, variant=ai + 1))
    return out


# --------------------------------------------------------------------------------------
# shapes
# --------------------------------------------------------------------------------------

REJECT = "@REJECT"  # marker: where the shared `reject: err` block goes if a statement needs it


def _end(last: Lines) -> Lines:
    """Normal end of main: `int 1; return`, unless the last statement already returned."""
    return [] if last and last[-1] == "return" else ["int 1", "return"]


def sh_straight(S: List[Lines]) -> Lines:
    body = S[0] + S[1] + S[2]
    return body + _end(body) + [REJECT]


def sh_diamond(S):
    return (["load 8", "bz d_else"] + S[0] + ["b d_join", "d_else:"] + S[1] + ["d_join:"]
            + S[2] + _end(S[2]) + [REJECT])


def sh_branch_next(S):
    return S[0] + ["load 8", "bnz bn_next", "bn_next:"] + S[1] + _end(S[1]) + [REJECT]


def sh_loop(S):
    return (S[0] + ["int 0", "store 20", "loop:", "load 20", "int 2", ">=", "bnz loop_end"]
            + S[1] + ["load 20", "int 1", "+", "store 20", "b loop", "loop_end:"]
            + S[2] + _end(S[2]) + [REJECT])


def _selector(arms: int) -> Lines:
    sel = ["load 8", "load 9", "+"]
    return sel + (["load 10", "+"] if arms == 3 else [])


def _multiway(op: str, arms: int) -> Callable[[List[Lines]], Lines]:
    def shape(S):
        labels = [f"mw_a{i}" for i in range(arms)]
        head = ([f"int {i}" for i in range(arms)] if op == "match" else []) + _selector(arms)
        out = head + [f"{op} {' '.join(labels)}", "b mw_join"]
        for i, lab in enumerate(labels):
            arm = S[i] if i < 2 else ["int 3", "pop"]
            out += [f"{lab}:"] + arm + (["b mw_join"] if i < arms - 1 else [])
        return out + ["mw_join:"] + S[2] + _end(S[2]) + [REJECT]
    return shape


def sh_sub_once(S):
    return S[0] + ["callsub f"] + S[2] + _end(S[2]) + [REJECT, "f:"] + S[1] + ["retsub"]


def sh_sub_first(S):
    return (["b main", "f:"] + S[1] + ["retsub", REJECT, "main:"] + S[0] + ["callsub f"]
            + S[2] + _end(S[2]))


def sh_two_sites(S):
    return (["load 8", "bz ts_site2"] + S[0] + ["callsub f", "b ts_join", "ts_site2:"] + S[1]
            + ["callsub f", "ts_join:"] + S[3] + _end(S[3]) + [REJECT, "f:"] + S[2] + ["retsub"])


def sh_nested(S):
    return (S[0] + ["callsub f", "int 1", "return", REJECT, "f:"] + S[1]
            + ["callsub g", "retsub", "g:"] + S[2] + ["retsub"])


def sh_recursive(S):
    return (["int 0", "store 21", "callsub r"] + S[2] + _end(S[2]) + [REJECT, "r:"] + S[0]
            + ["load 21", "int 2", ">=", "bnz r_done", "load 21", "int 1", "+", "store 21",
               "callsub r", "r_done:"] + S[1] + ["retsub"])


def sh_sub_approve(S):
    return S[0] + ["callsub f", "err", REJECT, "f:"] + S[1] + ["int 1", "return"]


def sh_sub_approve_cond(S):
    return (S[0] + ["callsub f"] + S[2] + _end(S[2]) + [REJECT, "f:"] + S[1]
            + ["load 8", "bz f_ret", "int 1", "return", "f_ret:", "retsub"])


def sh_sub_err(S):
    return (S[0] + ["callsub f"] + S[2] + _end(S[2])
            + [REJECT, "f:", "load 8", "bnz f_ok", "err", "f_ok:"] + S[1] + ["retsub"])


def sh_loop_call_exit(S):
    """a loop whose head block is the call site; the callee either returns to the loop or approves itself"""
    return (S[0] + ["int 0", "store 20", "loop:", "callsub f", "load 20", "int 1", "+", "dup", "store 20", "int 2", "<",
                    "bnz loop"]
            + S[2] + _end(S[2]) + [REJECT, "f:"] + S[1] + ["load 8", "bz f_ret", "int 1", "return", "f_ret:", "retsub"])


def sh_loop_call(S):
    """a loop whose head block is the call site of a plain subroutine"""
    return (S[0] + ["int 0", "store 20", "loop:", "callsub f", "load 20", "int 1", "+", "dup", "store 20", "int 2", "<",
                    "bnz loop"]
            + S[2] + _end(S[2]) + [REJECT, "f:"] + S[1] + ["retsub"])


def sh_loop_two_exits(S):
    """a loop with a middle block between head and tail and two accepting exits (one at the head, one at the tail) that
    carry different statements: the backward pass re-visits the loop blocks with information that changes for one key only"""
    return (["int 0", "store 20", "loop:", "load 20", "int 2", ">=", "bnz lx_a",
             "load 20", "int 1", "+", "store 20", "b lx_mid", "lx_mid:", "load 8", "bnz lx_b", "b loop",
             "lx_a:"] + S[0] + ["int 1", "return", "lx_b:"] + S[1] + S[2] + _end(S[2]) + [REJECT])


def _multiway_rep(op: str) -> Callable[[List[Lines]], Lines]:
    """switch / match naming the same (non fall-through) label more than once"""
    def shape(S):
        labels = ["mw_a0", "mw_a1", "mw_a0"]
        head = ([f"int {i}" for i in range(3)] if op == "match" else []) + _selector(3)
        out = head + [f"{op} {' '.join(labels)}", "b mw_join", "mw_a0:"] + S[0] + ["b mw_join", "mw_a1:"] + S[1]
        return out + ["mw_join:"] + S[2] + _end(S[2]) + [REJECT]
    return shape


def sh_flag_earlier_block(S):
    """a flag computed in an earlier block is combined with the condition in a later block (`flag && cond` with the flag
    unknown to the block-local reconstruction): only meaningful when S[1] is a plain `cond; assert`-style statement"""
    return (["load 8", "load 9", "bz fl_join", "fl_join:"] + S[0] + S[1] + ["pop"] + S[2] + _end(S[2]) + [REJECT])


def sh_label_after_callsub(S):
    return (["load 8", "bnz after"] + S[0] + ["callsub f", "after:"] + S[2] + _end(S[2])
            + [REJECT, "f:"] + S[1] + ["retsub"])


def sh_callsub_last(S):
    return ["b main", "f:"] + S[1] + ["retsub", REJECT, "main:"] + S[0] + ["int 1", "callsub f"]


def sh_branch_last(S):
    return ["b main", "ok:", "int 1", "return", REJECT, "main:"] + S[0] + ["b ok"]


def sh_cond_branch_last(S):
    """the last instruction of the program is a conditional branch back to the approving block (not taken: the run falls off
    the end with an empty stack and fails)"""
    last = S[0]
    tail = last[:-1] + ["bnz ok"] if last and last[-1] == "return" else last + ["load 8", "bnz ok"]
    return ["b main", "ok:", "int 1", "return", REJECT, "main:"] + S[1] + tail


def sh_dead_branch(S):
    return (S[0] + ["b live", "int 1", "bnz live", "err", "live:"] + S[1] + _end(S[1]) + [REJECT])


def sh_dead_callsub(S):
    return (S[0] + ["callsub f", "b live", "callsub f", "live:"] + S[2] + _end(S[2])
            + [REJECT, "f:"] + S[1] + ["retsub"])


def sh_dead_after_return(S):
    return (S[0] + ["back:", "callsub f", "int 1", "return", "int 1", "bnz back", "callsub f",
                    "err", REJECT, "f:"] + S[1] + ["retsub"])


def sh_back_to_back(S):
    return (S[0] + ["load 8", "bnz bb_l2", "b bb_l1", "bb_l1:", "bb_l2:"] + S[1] + _end(S[1])
            + [REJECT])


def sh_empty_sub(S):
    return S[0] + ["callsub e"] + S[1] + _end(S[1]) + [REJECT, "e:", "retsub"]


class Shape:
    def __init__(self, name: str, nslots: int, term_slot: Optional[int],
                 fn: Callable[[List[Lines]], Lines], prefix_only: bool = False,
                 intc: bool = False, version: Optional[int] = None):
        self.name = name
        self.nslots = nslots
        self.term_slot = term_slot  # the slot that may hold a `cond; return` statement
        self.fn = fn
        self.prefix_only = prefix_only  # slots are a plain sequence: fill a prefix only
        self.intc = intc  # rewrite to the assembled-constants form
        self.version = version  # force this #pragma version (else the minimum possible)


SHAPES: List[Shape] = [
    Shape("straight", 3, None, sh_straight, prefix_only=True),
    Shape("straight_v8", 3, None, sh_straight, prefix_only=True, version=8),
    Shape("intc_straight", 3, None, sh_straight, prefix_only=True, intc=True),
    Shape("diamond", 3, 2, sh_diamond),
    Shape("branch_next", 2, 1, sh_branch_next),
    Shape("loop", 3, 2, sh_loop),
    Shape("switch2", 3, 2, _multiway("switch", 2)),
    Shape("switch3", 3, 2, _multiway("switch", 3)),
    Shape("match2", 3, 2, _multiway("match", 2)),
    Shape("match3", 3, 2, _multiway("match", 3)),
    Shape("sub_once", 3, 2, sh_sub_once),
    Shape("intc_sub_once", 3, 2, sh_sub_once, intc=True),
    Shape("sub_first", 3, 2, sh_sub_first),
    Shape("two_sites", 4, 3, sh_two_sites),
    Shape("nested", 3, None, sh_nested),
    Shape("recursive", 3, 2, sh_recursive),
    Shape("sub_approve", 2, None, sh_sub_approve),
    Shape("sub_approve_cond", 3, 2, sh_sub_approve_cond),
    Shape("sub_err", 3, 2, sh_sub_err),
    Shape("label_after_callsub", 3, 2, sh_label_after_callsub),
    Shape("callsub_last", 2, None, sh_callsub_last),
    Shape("branch_last", 1, None, sh_branch_last),
    Shape("dead_branch", 2, 1, sh_dead_branch),
    Shape("dead_callsub", 3, 2, sh_dead_callsub),
    Shape("dead_after_return", 2, None, sh_dead_after_return),
    Shape("back_to_back", 2, 1, sh_back_to_back),
    Shape("empty_sub", 2, 1, sh_empty_sub),
    Shape("loop_call_exit", 3, 2, sh_loop_call_exit),
    Shape("loop_call", 3, 2, sh_loop_call),
    Shape("cond_branch_last", 2, 0, sh_cond_branch_last),
    Shape("intc_late_straight", 3, None, sh_straight, prefix_only=True, intc="late"),
    Shape("intc_late_diamond", 3, 2, sh_diamond, intc="late"),
    Shape("loop_two_exits", 3, 2, sh_loop_two_exits),
    Shape("switch_rep", 3, 2, _multiway_rep("switch")),
    Shape("match_rep", 3, 2, _multiway_rep("match")),
]
SHAPE_BY_NAME = {s.name: s for s in SHAPES}


def _placements(shape: Shape, n: int) -> List[Tuple[int, ...]]:
    """The ways to choose n slots of the shape (as sorted slot index tuples)."""
    if n > shape.nslots:
        return []
    if shape.prefix_only:
        return [tuple(range(n))]
    return list(itertools.combinations(range(shape.nslots), n))


def _terminal_ok(shape: Shape, slots: Tuple[int, ...], stmts: Sequence[Stmt]) -> bool:
    """A `cond; return` statement may only stand at the very end of the main flow."""
    for pos, (slot, st) in enumerate(zip(slots, stmts)):
        if not st.terminal:
            continue
        if shape.prefix_only:
            if pos != len(slots) - 1:
                return False
        elif slot != shape.term_slot:
            return False
    return True


# --------------------------------------------------------------------------------------
# assembling the text
# --------------------------------------------------------------------------------------


def min_version(lines: Lines) -> int:
    """Smallest `#pragma version` (>= 2) under which the lines assemble (tables of avm.py)."""
    prog = avm.parse("\n".join(lines))
    v = 2
    for k, ins in enumerate(prog.instrs):
        if ins.op == "label:":
            continue
        v = max(v, avm.OP_MIN_VERSION[ins.op])
        if ins.op in ("txn", "gtxn", "gtxns"):
            v = max(v, avm.FIELD_MIN_VERSION.get(ins.args[-1], 1))
        if ins.op == "global":
            v = max(v, avm.GLOBAL_MIN_VERSION.get(ins.args[0], 1))
        if ins.op in ("b", "bz", "bnz") and prog.labels[ins.args[0]] < k:
            v = max(v, 4)  # backward branches exist from version 4
    return v


def _to_intc(lines: Lines) -> Lines:
    """Assembled-constants form: one `intcblock` first, every `int c` becomes `intc_k`/`intc k`."""
    consts: List[int] = []
    out: Lines = []
    for ln in lines:
        if ln.startswith("int "):
            tok = ln.split()[1]
            val = avm.NAMED_INT[tok] if tok in avm.NAMED_INT else int(tok)
            if val not in consts:
                consts.append(val)
            k = consts.index(val)
            out.append(f"intc_{k}" if k < 4 else f"intc {k}")
        else:
            out.append(ln)
    if not consts:
        return out
    return ["intcblock " + " ".join(str(c) for c in consts)] + out


def build(shape: Shape, slots: Tuple[int, ...], stmts: Sequence[Stmt],
          version: Optional[int] = None) -> Tuple[str, int]:
    """Source text of the program and its #pragma version."""
    S: List[Lines] = [[] for _ in range(shape.nslots)]
    for slot, st in zip(slots, stmts):
        S[slot] = st.render(f"s{slot}")
    lines = shape.fn(S)
    needs_reject = any(ln in ("bz reject", "bnz reject") for ln in lines)
    flat: Lines = []
    for ln in lines:
        if ln == REJECT:
            if needs_reject:
                flat += ["reject:", "err"]
        else:
            flat.append(ln)
    if shape.intc:
        flat = _to_intc(flat)
        if shape.intc == "late":
            # the constant block is not in the entry block: a static reader cannot resolve intc_k (the AVM can)
            flat = ["b ic_start", "ic_start:"] + flat
    need = min_version(flat)
    ver = max(need, version or shape.version or need)
    return "\n".join([f"#pragma version {ver}"] + flat) + "\n", ver


def _program(family: str, shape: Shape, slots: Tuple[int, ...], stmts: Sequence[Stmt],
             serial: int, phase: str, tier: str, version: Optional[int] = None) -> dict:
    src, ver = build(shape, slots, stmts, version)
    descs: List[Optional[str]] = [None] * shape.nslots
    for slot, st in zip(slots, stmts):
        descs[slot] = st.desc
    return {
        "name": f"{family}/{shape.name}/{phase}{tier}{serial}",
        "family": family,
        "src": src,
        "meta": {"shape": shape.name, "slots": descs, "statements": len(stmts),
                 "version": ver, "phase": phase, "tier": tier},
    }


# --------------------------------------------------------------------------------------
# enumeration
# --------------------------------------------------------------------------------------


def _family_level(family: str, n: int) -> Iterator[dict]:
    """The exhaustive programs of one family with exactly n statements."""
    core = core_statements(family)
    serial = 0
    # tier A: statements outermost, so that a short prefix already visits every shape
    for stmts in itertools.product(core, repeat=n):
        for shape in SHAPES:
            for slots in _placements(shape, n):
                if _terminal_ok(shape, slots, stmts):
                    yield _program(family, shape, slots, stmts, serial, f"exhaustive{n}", "A")
                    serial += 1
    # tier B: every statement of the family once, straight line
    if n == 1:
        core_keys = {(tuple(s.cond), s.consumer, tuple(s.extra)) for s in core}
        straight = SHAPE_BY_NAME["straight"]
        for st in full_statements(family):
            if (tuple(st.cond), st.consumer, tuple(st.extra)) in core_keys:
                continue
            yield _program(family, straight, (0,), (st,), serial, "exhaustive1", "B")
            serial += 1


def _round_robin(gens: List[Iterator[dict]]) -> Iterator[dict]:
    live = list(gens)
    while live:
        nxt = []
        for g in live:
            try:
                yield next(g)
                nxt.append(g)
            except StopIteration:
                pass
        live = nxt


def _random_programs(k: int, seed: int, families: List[str]) -> Iterator[dict]:
    rng = random.Random(seed)
    pools = {f: full_statements(f) for f in families}
    serial = 0
    while True:
        family = rng.choice(families)
        shape = rng.choice(SHAPES)
        n = rng.randint(1, max(1, min(k, shape.nslots)))
        slots = rng.choice(_placements(shape, n))
        stmts = tuple(rng.choice(pools[family]) for _ in range(n))
        if not _terminal_ok(shape, slots, stmts):
            continue
        src, need = build(shape, slots, stmts)
        del src
        version = rng.randint(need, 8)
        yield _program(family, shape, slots, stmts, serial, "random", "R", version)
        serial += 1


def programs(k: int, seed: int = 0, limit: Optional[int] = None,
             families: Optional[List[str]] = None) -> Iterator[dict]:
    """Programs with up to k statements: exhaustive part first, then seeded random ones.

    The random part is only produced when `limit` is given (it is endless otherwise).
    """
    fams = list(families) if families is not None else list(FAMILIES)
    for f in fams:
        if f not in ATOMS:
            raise ValueError(f"unknown family {f}")
    count = 0

    def stream() -> Iterator[dict]:
        for n in range(1, k + 1):
            yield from _round_robin([_family_level(f, n) for f in fams])
        if limit is not None:
            yield from _random_programs(k, seed, fams)

    for prog in stream():
        if limit is not None and count >= limit:
            return
        count += 1
        yield prog


# --------------------------------------------------------------------------------------
# inputs
# --------------------------------------------------------------------------------------

INPUT_CAP = 400
GOVERNED_ADDRESS_FIELDS = ("RekeyTo", "CloseRemainderTo", "AssetCloseTo", "Sender", "Receiver",
                           "AssetReceiver", "AssetSender")


class _Scan:
    """What a program reads and which constants stand next to each read."""

    def __init__(self, prog: avm.Program) -> None:
        self.own_fields: List[str] = []  # fields read by `txn F`
        self.group_fields: List[str] = []  # fields read by gtxn / gtxns
        self.abs_indices: List[int] = []  # statically known absolute indices
        self.dynamic = False  # some gtxns index is computed
        self.mentions_group = False
        self.addr_literals: List[str] = []
        self.near: Dict[str, List[int]] = {}  # field -> constants within 3 instructions of a read
        self.all_consts: List[int] = []
        self.presettable: List[int] = []

        ins_list = [i for i in prog.instrs if i.op not in ("label:", "#pragma")]
        intc: List[int] = []
        const_at: Dict[int, int] = {}
        loads: List[int] = []
        stores = set()
        for pos, ins in enumerate(ins_list):
            op, args = ins.op, ins.args
            val: Optional[int] = None
            try:
                if op in ("int", "pushint"):
                    val = avm._parse_uint(args[0], ins.line)  # pylint: disable=protected-access
                elif op == "intcblock":
                    intc = [avm._parse_uint(a, ins.line) for a in args]  # pylint: disable=protected-access
                    for c in intc:
                        _add(self.all_consts, c)
                elif op == "intc":
                    val = intc[int(args[0])]
                elif op in ("intc_0", "intc_1", "intc_2", "intc_3"):
                    val = intc[int(op[-1])]
            except (IndexError, ValueError):
                val = None
            if val is not None:
                const_at[pos] = val
                _add(self.all_consts, val)
            if op == "addr":
                _add(self.addr_literals, args[0])
            elif op == "load":
                loads.append(int(args[0]))
            elif op == "store":
                stores.add(int(args[0]))
            elif op == "global" and args[0] == "GroupSize":
                self.mentions_group = True
        reads: List[Tuple[int, str]] = []
        for pos, ins in enumerate(ins_list):
            op, args = ins.op, ins.args
            if op == "txn":
                if args[0] == "GroupIndex":
                    self.mentions_group = True
                else:
                    _add(self.own_fields, args[0])
                    reads.append((pos, args[0]))
            elif op == "gtxn":
                self.mentions_group = True
                _add(self.abs_indices, int(args[0]))
                _add(self.group_fields, args[1])
                reads.append((pos, args[1]))
            elif op == "gtxns":
                self.mentions_group = True
                _add(self.group_fields, args[0])
                reads.append((pos, args[0]))
                if pos - 1 in const_at and ins_list[pos - 1].op != "+":
                    _add(self.abs_indices, const_at[pos - 1])
                else:
                    self.dynamic = True
        for pos, field in reads:
            lst = self.near.setdefault(field, [])
            for q in range(pos - 3, pos + 4):
                if q in const_at:
                    _add(lst, const_at[q])
        for slot in loads:
            if slot not in stores:
                _add(self.presettable, slot)
        self.presettable = self.presettable[:4]


def _add(lst: list, item) -> None:
    if item not in lst:
        lst.append(item)


def _candidates(field: str, scan: _Scan, creator: str) -> List[object]:
    """Region representatives for one field."""
    near = scan.near.get(field) or scan.all_consts
    if field == "Fee":
        vals = {0, 272000, 272001, avm.MAX_UINT64}
        for c in near:
            vals.update(v for v in (c - 1, c, c + 1) if 0 <= v <= avm.MAX_UINT64)
        return sorted(vals)
    if field == "TypeEnum":
        return list(range(0, 7))
    if field == "OnCompletion":
        return list(range(0, 6))
    if field == "ApplicationID":
        return [0, 7]
    if field in avm.ADDRESS_FIELDS:
        out: List[object] = [ZERO]
        for a in scan.addr_literals + [creator, ATTACKER]:
            _add(out, a)
        return out
    if field in avm.INT_FIELDS:
        vals = {0}
        for c in near[:3]:
            vals.update(v for v in (c, c + 1) if v <= avm.MAX_UINT64)
        return sorted(vals)
    return [None]  # byte-string fields keep their default


def _group_shapes(scan: _Scan) -> List[Tuple[int, int]]:
    if scan.mentions_group:
        return [(n, g) for n in range(1, 17) for g in range(n)]
    return [(1, 0), (2, 0), (2, 1), (16, 0), (16, 15)]


def dimensions(src: str, creator: str = CREATOR) -> Tuple[List[Tuple[tuple, List[object]]], List[int]]:
    """The input dimensions of a program: [(key, candidate values)], and the absolute member
    indices that get dimensions of their own.

    key = ("shape",) -> (group size, own index) | ("own", F) | ("abs", i, F) | ("rest", F)
          | ("slot", s).  "own" is the governed transaction, "abs i" the member at the absolute
    index i named by the program (at most two such indices), "rest" every other member (they
    share one value; only present when the program computes an index or names more indices).
    """
    scan = _Scan(avm.parse(src))
    dims: List[Tuple[tuple, List[object]]] = [(("shape",), list(_group_shapes(scan)))]
    all_fields = list(scan.own_fields)
    for f in scan.group_fields:
        _add(all_fields, f)
    for f in all_fields:
        dims.append((("own", f), _candidates(f, scan, creator)))
    abs_idx = sorted(i for i in scan.abs_indices if i < 16)[:2]
    need_rest = scan.dynamic or len(scan.abs_indices) > len(abs_idx)
    for f in scan.group_fields:
        for i in abs_idx:
            dims.append((("abs", i, f), _candidates(f, scan, creator)))
        if need_rest:
            dims.append((("rest", f), _candidates(f, scan, creator)))
    for slot in scan.presettable:
        dims.append((("slot", slot), [0, 1]))
    return dims, abs_idx


def inputs_for(src: str, cap: int = INPUT_CAP, creator: str = CREATOR) -> Iterator[Tuple[Group, int, dict]]:
    """Region-representative inputs (Group, own index, unrelated scratch) for the program text.

    The full product of the per-dimension candidates (see `dimensions`) is walked in a fixed
    stride order: a permutation of the product when it has at most `cap` elements; otherwise an
    evenly spread sample of `cap` elements, completed by a few more so that every value of every
    dimension occurs at least once.  Deterministic; early inputs are diverse.
    """
    dims, abs_idx = dimensions(src, creator)
    sizes = [len(v) for _, v in dims]
    total = math.prod(sizes)
    step = max(1, int(total * 0.6180339887))
    while math.gcd(step, total) != 1:
        step += 1

    def digits_of(index: int) -> List[int]:
        """Mixed-radix digits of a product index (first dimension most significant)."""
        out = []
        for size in reversed(sizes):
            index, digit = divmod(index, size)
            out.append(digit)
        return out[::-1]

    picks = [digits_of((j * step) % total) for j in range(min(total, cap))]
    # when the product was capped: make sure every value of every dimension occurs at least once
    # (take an already chosen combination and replace that one digit)
    if total > cap:
        extra: List[List[int]] = []
        for d, size in enumerate(sizes):
            seen = {p[d] for p in picks}
            for digit in range(size):
                if digit not in seen:
                    base = list(picks[(len(extra) * 7) % len(picks)])
                    base[d] = digit
                    extra.append(base)
        picks += extra
    for digits in picks:
        choice: Dict[tuple, object] = {key: vals[dg] for (key, vals), dg in zip(dims, digits)}
        n, g = choice[("shape",)]  # type: ignore[misc]
        txns = []
        for member in range(n):
            fields: Dict[str, object] = {}
            for key, val in choice.items():
                if val is None:
                    continue
                if member == g:
                    if key[0] == "own":
                        fields[key[1]] = val
                elif key[0] == "abs" and key[1] == member:
                    fields[key[2]] = val
                elif key[0] == "rest" and member not in abs_idx:
                    fields[key[1]] = val
            txns.append(Txn(**fields))
        unrelated = {key[1]: val for key, val in choice.items() if key[0] == "slot"}
        yield Group(txns, creator=creator), g, unrelated


if __name__ == "__main__":
    import collections

    for kk in (1, 2, 3):
        cnt = collections.Counter(p["family"] for p in programs(kk))
        print(kk, sum(cnt.values()), dict(cnt))
