"""Run-time contracts of the dataflow engine on real runs (bounded stand-in; DESIGN.md §12.6).

The engine functions under deductive contract (contracts/engine.py) are wrapped, tealer's own analysis is run on generated
programs, and every call is compared with a reference evaluation of the function's equation, written here from the contract
text with the domain operations (`_union`, `_intersection`, `_null_set`, `_universal_set`, `_get_asserted`) as the only
borrowed pieces (they are under contract themselves).  Values are compared up to the representation (lists as sets), so a
re-ordering refactoring is not an alarm.

Checked per call:
  _calculate_reachin / _calculate_livein      result == equation over the arguments
  _merge_information_forward / _backward      cells of `block` == equation over the entry table; nothing else changed;
                                              flag == (some cell changed)
  _block_level_constraints                    cell == top, cut by every assert / return operand, null after err / return 0
  _path_level_constraints                     cells of the out-edges == the branch reading of bz / bnz (top otherwise)
  _update_gtxn_constraints                    GTXN_i cells == (i possible own index ? cell n base cell : null)
and per worklist run (forward_analyis / backward_analysis): the stored table is a fixpoint of the equation at every block.

A failing call is a real input: the replay file holds the program text, the function, the key and the block; it also serves
as the replay of deductive obligations of the same function that the solver left undecided.
"""
from __future__ import annotations

import dataclasses
import multiprocessing as mp
import os
import time
from typing import Any, Dict, List, Optional, Tuple

from bounded.registry import standin


def canon(v: Any) -> Any:
    """representation-independent form of an abstract value"""
    if isinstance(v, (list, tuple, set, frozenset)):
        return frozenset(canon(x) for x in v)
    if dataclasses.is_dataclass(v) and not isinstance(v, type):
        return (type(v).__name__,) + tuple((f.name, canon(getattr(v, f.name))) for f in dataclasses.fields(v))
    if isinstance(v, dict):
        return frozenset((canon(k), canon(x)) for k, x in v.items())
    return v


class Recorder:
    def __init__(self) -> None:
        self.calls: Dict[str, int] = {}
        self.fail: List[Dict[str, Any]] = []

    def count(self, name: str) -> None:
        self.calls[name] = self.calls.get(name, 0) + 1

    def bad(self, fn: str, clause: str, msg: str, **kw: Any) -> None:
        if len(self.fail) < 20:
            self.fail.append({"function": fn, "clause": clause, "failure": msg, **kw})


def _bdesc(b: Any) -> str:
    return f"B{b.idx}"


def install(rec: Recorder) -> Any:
    """wrap the engine functions of DataflowTransactionContext; returns an undo function"""
    from tealer.analyses.dataflow.transaction_context import generic as G
    from tealer.utils.analyses import next_blocks_global, prev_blocks_global, leaf_block_global, is_int_push_ins
    from tealer.analyses.utils.stack_ast_builder import get_stack_value_for_ins, UnknownStackValue
    from tealer.teal.instructions import instructions as I
    from tealer.analyses.dataflow.transaction_context.utils.key_helpers import get_gtxn_at_index_key
    D = G.DataflowTransactionContext
    orig = {n: getattr(D, n) for n in ("_calculate_reachin", "_calculate_livein", "_merge_information_forward",
                                       "_merge_information_backward", "_block_level_constraints", "_path_level_constraints",
                                       "_update_gtxn_constraints", "forward_analyis", "backward_analysis")}

    # ---- reference equations (written from contracts/engine.py) ---------------------------------------------------------
    def ref_reachin(self: Any, key: str, block: Any, reachout: Dict[Any, Any]) -> Any:
        acc = self._universal_set(key) if block == self._entry_block else self._null_set(key)
        for p in prev_blocks_global(self._function, block):
            frm = self._intersection(key, reachout[p], self._path_contexts[key][block][p])
            if block.is_sub_return_point and p.is_retsub_block:
                frm = self._intersection(key, frm, reachout[block.callsub_block])
            acc = self._union(key, acc, frm)
        return acc

    def ref_livein(self: Any, key: str, block: Any, liveout: Dict[Any, Any]) -> Any:
        acc = self._null_set(key)
        for n in next_blocks_global(self._function, block):
            acc = self._union(key, acc, liveout[n])
        if block.is_callsub_block and block.sub_return_point is not None and len(block.called_subroutine.retsub_blocks) != 0:
            acc = self._intersection(key, acc, liveout[block.sub_return_point])
        return acc

    def snapshot(table: Dict[str, Dict[Any, Any]], keys: List[str]) -> Dict[str, Dict[Any, Any]]:
        return {k: dict(table[k]) for k in keys}

    def w_reachin(self: Any, key: str, block: Any, reachout: Dict[Any, Any]) -> Any:
        res = orig["_calculate_reachin"](self, key, block, reachout)
        rec.count("_calculate_reachin")
        if canon(res) != canon(ref_reachin(self, key, block, reachout)):
            rec.bad("_calculate_reachin", "equation", f"result {res!r} differs from the reach-in equation", key=key, block=_bdesc(block))
        return res

    def w_livein(self: Any, key: str, block: Any, liveout: Dict[Any, Any]) -> Any:
        res = orig["_calculate_livein"](self, key, block, liveout)
        rec.count("_calculate_livein")
        if canon(res) != canon(ref_livein(self, key, block, liveout)):
            rec.bad("_calculate_livein", "equation", f"result {res!r} differs from the live-in equation", key=key, block=_bdesc(block))
        return res

    def merge_wrapper(name: str, ref: Any, leaf_skips: bool) -> Any:
        def w(self: Any, analysis_keys: List[str], block: Any, table: Dict[str, Dict[Any, Any]]) -> bool:
            old = {k: dict(v) for k, v in table.items()}
            res = orig[name](self, analysis_keys, block, table)
            rec.count(name)
            if leaf_skips and leaf_block_global(block):
                if res or any(canon(table[k]) != canon(old[k]) for k in old):
                    rec.bad(name, "leaf_untouched", "a leaf block's live-out was changed (or the flag is true)", block=_bdesc(block))
                return res
            changed = False
            for k in analysis_keys:
                want = self._intersection(k, ref(self, k, block, old[k]), self._block_contexts[k][block])
                if canon(table[k][block]) != canon(want):
                    rec.bad(name, "equation", f"cell {table[k][block]!r} differs from the equation's {want!r}", key=k, block=_bdesc(block))
                if table[k][block] != old[k][block]:
                    changed = True
            for k, cells in table.items():
                for b, val in cells.items():
                    if (b is not block or k not in analysis_keys) and val is not old[k].get(b) and canon(val) != canon(old[k].get(b)):
                        rec.bad(name, "frame", f"cell of another block / key changed", key=k, block=_bdesc(b))
            if bool(res) != changed:
                rec.bad(name, "flag", f"returned {res!r} although the cells of the analysis keys {'did' if changed else 'did not'} change",
                        block=_bdesc(block), keys=list(analysis_keys)[:6])
            return res
        return w

    def known_arg(ins: Any) -> Optional[Any]:
        a = get_stack_value_for_ins(ins).args[0]
        return None if isinstance(a, UnknownStackValue) else a

    def w_block_level(self: Any, analysis_keys: List[str], block: Any) -> None:
        orig["_block_level_constraints"](self, analysis_keys, block)
        rec.count("_block_level_constraints")
        for k in analysis_keys:
            acc = self._universal_set(k)
            for ins in block.instructions:
                if isinstance(ins, I.Assert):
                    a = known_arg(ins)
                    if a is not None:
                        acc = self._intersection(k, acc, self._get_asserted(k, a)[0])
                elif isinstance(ins, I.Return):
                    a = known_arg(ins)
                    if a is not None:
                        is_int, value = is_int_push_ins(a.instruction)
                        if is_int and value == 0:
                            acc = self._null_set(k)
                        else:
                            acc = self._intersection(k, acc, self._get_asserted(k, a)[0])
                elif isinstance(ins, (I.Err, I.TealerCustomErrInstruction)):
                    acc = self._null_set(k)
            if canon(self._block_contexts[k][block]) != canon(acc):
                rec.bad("_block_level_constraints", "cell", f"cell {self._block_contexts[k][block]!r} differs from {acc!r}", key=k, block=_bdesc(block))
                break

    def w_path_level(self: Any, analysis_keys: List[str], block: Any) -> None:
        orig["_path_level_constraints"](self, analysis_keys, block)
        rec.count("_path_level_constraints")
        ex = block.exit_instr
        succs = next_blocks_global(self._function, block)
        for k in analysis_keys:
            want = {id(b): self._universal_set(k) for b in succs}
            if isinstance(ex, (I.BZ, I.BNZ)) and known_arg(ex) is not None:
                t, f = self._get_asserted(k, known_arg(ex))
                nx = block.next
                if len(nx) == 1 and len(ex.next) == 2:
                    want[id(nx[0])] = self._union(k, t, f)
                else:
                    jump, default = (nx[0], None) if len(nx) == 1 else (nx[1], nx[0])
                    jv, dv = (f, t) if isinstance(ex, I.BZ) else (t, f)
                    want[id(jump)] = jv
                    if default is not None:
                        want[id(default)] = dv
            for b in succs:
                got = self._path_contexts[k].get(b, {}).get(block)
                if canon(got) != canon(want[id(b)]):
                    rec.bad("_path_level_constraints", "edge", f"edge {_bdesc(block)}->{_bdesc(b)}: {got!r} differs from {want[id(b)]!r}", key=k, block=_bdesc(block))
                    return

    def w_update_gtxn(self: Any, keys_with_gtxn: List[str], block: Any) -> None:
        before = {}
        for k in keys_with_gtxn:
            for i in range(16):
                gk = get_gtxn_at_index_key(i, k)
                before[gk] = self._block_contexts[gk][block]
        orig["_update_gtxn_constraints"](self, keys_with_gtxn, block)
        rec.count("_update_gtxn_constraints")
        idxs = self._function.transaction_context(block).group_indices
        for k in keys_with_gtxn:
            for i in range(16):
                gk = get_gtxn_at_index_key(i, k)
                want = self._intersection(gk, before[gk], self._block_contexts[k][block]) if i in idxs else self._null_set(gk)
                if canon(self._block_contexts[gk][block]) != canon(want):
                    rec.bad("_update_gtxn_constraints", "cell", f"{gk}: {self._block_contexts[gk][block]!r} differs from {want!r}", key=gk, block=_bdesc(block))
                    return

    def fixpoint_wrapper(name: str, ref: Any, backward: bool) -> Any:
        def w(self: Any, analysis_keys: List[str], worklist: List[Any]) -> None:
            prsv = {k: dict(self._block_contexts[k]) for k in analysis_keys}
            orig[name](self, analysis_keys, worklist)
            rec.count(name)
            for k in analysis_keys:
                table = self._block_contexts[k]
                for b in self._function.blocks:
                    if backward and leaf_block_global(b):
                        want = prsv[k][b]
                    else:
                        saved = self._block_contexts[k]
                        self._block_contexts[k] = prsv[k]          # the equations read the preserved sets from here
                        try:
                            want = self._intersection(k, ref(self, k, b, table), prsv[k][b])
                        finally:
                            self._block_contexts[k] = saved
                    if canon(table[b]) != canon(want):
                        rec.bad(name, "fixpoint", f"stored {table[b]!r} is not the equation's value {want!r} over the stored table "
                                                  f"(the worklist stopped before a fixpoint)", key=k, block=_bdesc(b))
                        return
        return w

    D._calculate_reachin = w_reachin
    D._calculate_livein = w_livein
    D._merge_information_forward = merge_wrapper("_merge_information_forward", ref_reachin, False)
    D._merge_information_backward = merge_wrapper("_merge_information_backward", ref_livein, True)
    D._block_level_constraints = w_block_level
    D._path_level_constraints = w_path_level
    D._update_gtxn_constraints = w_update_gtxn
    D.forward_analyis = fixpoint_wrapper("forward_analyis", ref_reachin, False)
    D.backward_analysis = fixpoint_wrapper("backward_analysis", ref_livein, True)

    def undo() -> None:
        for n, f in orig.items():
            setattr(D, n, f)
    return undo


def _shared_body(src: str) -> bool:
    try:
        from bounded.cfgcheck import Oracle
        return bool(Oracle(src).irregular())
    except Exception:   # the oracle does not cover the program: do not attribute
        return False


def _one(job: Tuple[str, str]) -> Dict[str, Any]:
    name, src = job
    import logging
    logging.disable(logging.CRITICAL)
    rec = Recorder()
    undo = install(rec)
    out: Dict[str, Any] = {"name": name, "src": src, "calls": rec.calls, "fail": rec.fail, "crash": None}
    try:
        from tealer.utils.command_line.common import init_tealer_from_single_contract
        init_tealer_from_single_contract(src, "f")
    except BaseException as e:  # pylint: disable=broad-except
        if isinstance(e, KeyboardInterrupt):
            raise
        out["crash"] = f"{type(e).__name__}: {e}"[:200]
    finally:
        undo()
    return out


def run(tier: str = "quick", seed: int = 0, known: Any = None) -> Dict[str, Any]:
    from bounded import gen
    t0 = time.time()
    n = 1200 if tier == "quick" else 24000
    # spread over the shapes: an evenly strided sample of every shape's part of the exhaustive prefix
    cap = max(8, n // max(1, len(gen.SHAPES)))
    buckets: Dict[str, List[Dict[str, Any]]] = {}
    for p in gen.programs(2, seed=seed, limit=150000 if tier == "quick" else 600000):
        b = buckets.setdefault(p["meta"]["shape"], [])
        if len(b) < 250 * cap:
            b.append(p)
    pool: List[Dict[str, Any]] = []
    for s_ in sorted(buckets):
        b = buckets[s_]
        step = max(1, len(b) // cap)
        pool += b[(seed % step)::step][:cap]        # evenly spread over the shape's statements (deterministic)
    jobs = [(p["name"], p["src"]) for p in pool]
    with mp.get_context("fork").Pool(16) as mpool:
        results = mpool.map(_one, jobs, chunksize=4)
    calls: Dict[str, int] = {}
    crashes: Dict[str, int] = {}
    first: Dict[str, Dict[str, Any]] = {}
    nfail = 0
    shared_crashes = 0
    for r in results:
        for k, v in r["calls"].items():
            calls[k] = calls.get(k, 0) + v
        if r["crash"]:
            crashes[r["crash"][:80]] = crashes.get(r["crash"][:80], 0) + 1
            # the generated programs are valid and inside the shapes on which the unchanged analysis completes: a crash
            # of the analysis itself is a failed run-time contract (no exception) of the engine
            if _shared_body(r["src"]):
                shared_crashes += 1      # listed finding D25 (code shared between main and a subroutine body): C04/C05/C12 report it
                continue
            nfail += 1
            cls = "analysis.raises_" + r["crash"].split(":")[0]
            cur = first.get(cls)
            if cur is None or len(r["src"]) < len(cur["teal"]):
                first[cls] = {"standin": "engine run-time contracts (bounded)", "program": r["name"], "teal": r["src"],
                              "function": "run_analysis", "clause": "completes", "failure": r["crash"]}
        for f in r["fail"]:
            nfail += 1
            cls = f"{f['function']}.{f['clause']}"
            cur = first.get(cls)
            if cur is None or len(r["src"]) < len(cur["teal"]):
                first[cls] = {"standin": "engine run-time contracts (bounded)", "program": r["name"], "teal": r["src"], **f}
    res: Dict[str, Any] = {
        "summary": {"function": "DataflowTransactionContext engine functions (reach-in, live-in, merge forward/backward, block / path level "
                                "constraints, gtxn update, worklists) through tealer's own analysis",
                    "contract": "every call equals the reference evaluation of its equation (contracts/engine.py), frames and flags included; "
                                "every worklist run ends in a fixpoint of the equation",
                    "bound": f"{len(jobs)} programs of gen.programs(k=2, seed={seed}), at most {cap} per control shape",
                    "evaluations": sum(calls.values()), "calls": calls, "programs": len(results), "failures": nfail,
                    "failure_classes": {k: 1 for k in first}, "analysis_crashes": crashes, "crashes_on_shared_body_programs_(listed_finding_D25)": shared_crashes, "exhaustive": False,
                    "seconds": round(time.time() - t0, 1)},
        "violations": [], "known_lines": []}
    for i, cls in enumerate(sorted(first)[:5]):
        res["violations"].append({"file": f"enginecheck_{i}_{cls.replace('.', '_')}.json", "data": {"class": cls, **first[cls]}})
    return res


for _p in ("C01", "C03", "C06", "C07", "C08", "C09", "C10", "C14"):
    standin(_p)(lambda tier="quick", seed=0, known=None, _p=_p: _with_prop(_p, tier, seed, known))


def _with_prop(pid: str, tier: str, seed: int, known: Any) -> Dict[str, Any]:
    r = run(tier, seed, known)
    for v in r["violations"]:
        v["data"]["property"] = pid
    return r


if __name__ == "__main__":
    import json
    import sys
    r = run(sys.argv[1] if len(sys.argv) > 1 else "quick", 0, None)
    print(json.dumps(r["summary"], indent=1))
    for v in r["violations"]:
        print(json.dumps({k: x for k, x in v["data"].items() if k != "teal"}, indent=1)[:800])
        print(v["data"]["teal"])
