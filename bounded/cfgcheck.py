"""Bounded stand-ins for C04 (CFG well-formed / over-approximating), C05 (subroutine tables, call graph) and
C12 (function cut out by a dispatch path).  DESIGN.md sections 4 and 8.

Everything tealer builds (parse_teal, Subroutine, Function, construct_function, PrinterCallGraph) is compared with an
INDEPENDENT recomputation from the reference parser/interpreter spec/avm.py: `Oracle` below knows only the AVM control
rules (fall-through, b/bz/bnz/switch/match targets, callsub -> target and return to the following instruction,
retsub/return/err end) and never looks at tealer's edge lists to decide what is expected.

Labelled *bounded*: never counted as proved.
"""
from __future__ import annotations

import itertools
import multiprocessing as mp
import os
import random
import shutil
import tempfile
import time
import traceback
from collections import Counter
from pathlib import Path
from typing import Any, Callable, Dict, Iterator, List, Optional, Sequence, Set, Tuple

from bounded.registry import standin
from bounded.harness import quiet
from spec import avm

# class of a violation -> id of the listed finding it is an instance of (filled from the triage of the unchanged tree)
CLASS_TO_FINDING: Dict[str, str] = {
    # D6 (fixed): parse_teal pruned unreachable blocks with `for x in l: l.remove(x)`
    "prev-names-block-outside-graph": "D6",
    "instr-prev-names-instruction-outside": "D6",
    "walk-edge-missing-in-prev_blocks_global": "D21",
    "exit-blocks-miss-conditional-branch-as-last-instruction": "D22",
    "construct_function-crash:KeyError@_calculate_reachin": "D23",
    "construct_function-crash:KeyError@_calculate_livein": "D23",
    "construct_function-crash:KeyError@_merge_information_backward": "D23",
    "function-prev-names-block-outside-function": "D23",
    "construct_function-crash:KeyError@return_point_blocks": "D24",
    "function-misses-runs-that-reenter-the-dispatch-prefix": "D33",
}

NPROC = 16
ENDERS = ("b", "bz", "bnz", "switch", "match", "callsub", "retsub", "return", "err")
Viol = Tuple[str, str]  # (class, one-line description)
# appended to the class when the program has code that lies in main's and in a subroutine's body, or in two subroutines'
# bodies (a subroutine body entered other than through callsub: outside C17's input space, inside C04/C05/C12's)
SHARED_TAG = " [shared-body]"
D25_CLASSES = ("walk-edge-missing-in-", "construct_function-crash:KeyError", "global-edges-crash:KeyError", "Function-init-crash:KeyError")


# ======================================================================================================================
# the independent model of a program
# ======================================================================================================================

class Oracle:
    """Control structure of a program by the AVM rules, from spec/avm.py's parse only."""

    def __init__(self, src: str) -> None:
        self.src = src
        self.prog = prog = avm.parse(src)
        ins = prog.instrs
        self.n = n = len(ins)
        self.op = [i.op for i in ins]
        self.line = [i.line for i in ins]
        self.index_of_line = {ln: k for k, ln in enumerate(self.line)}
        self.targets: List[List[int]] = []      # jump targets (instruction indices), not for callsub
        self.call_target: List[Optional[int]] = []
        self.call_label: List[Optional[str]] = []
        self.local: List[List[int]] = []        # successors inside one activation: fall-through first, then jump targets
        for k, i in enumerate(ins):
            fall = [k + 1] if k + 1 < n else []
            tg: List[int] = []
            ct, cl = None, None
            if i.op == "b":
                tg = [prog.labels[i.args[0]]]
                loc = list(tg)
            elif i.op in ("bz", "bnz"):
                tg = [prog.labels[i.args[0]]]
                loc = fall + tg
            elif i.op in ("switch", "match"):
                tg = [prog.labels[a] for a in i.args]
                loc = fall + tg
            elif i.op == "callsub":
                ct, cl = prog.labels[i.args[0]], i.args[0]
                loc = fall            # the call returns to the following instruction
            elif i.op in ("retsub", "return", "err"):
                loc = []
            else:
                loc = fall
            self.targets.append(tg)
            self.call_target.append(ct)
            self.call_label.append(cl)
            self.local.append(loc)
        # subroutines: labels targeted by callsub instructions (textual order of the first callsub)
        self.sub_names: List[str] = []
        for k in range(n):
            if self.call_label[k] is not None and self.call_label[k] not in self.sub_names:
                self.sub_names.append(self.call_label[k])  # type: ignore[arg-type]
        self.sub_entry = {s: prog.labels[s] for s in self.sub_names}
        self.main_set = self.reach([0])
        self.sub_set = {s: self.reach([e]) for s, e in self.sub_entry.items()}
        self.retained: Set[int] = set(self.main_set)
        for s in self.sub_set.values():
            self.retained |= s
        # full partition of the source into blocks (dead code included): leaders
        lead = set()
        for k in range(n):
            if k == 0 or self.op[k] == "label:":
                lead.add(k)
            if self.op[k] in ENDERS and k + 1 < n:
                lead.add(k + 1)
        self.leaders = sorted(lead)
        self.rank_of_leader = {k: r for r, k in enumerate(self.leaders)}
        self.leader_of: List[int] = []
        cur = 0
        for k in range(n):
            if k in lead:
                cur = k
            self.leader_of.append(cur)
        self.jump_targets_retained: Set[int] = set()
        for k in self.retained:
            self.jump_targets_retained.update(self.targets[k])
            if self.call_target[k] is not None:
                self.jump_targets_retained.add(self.call_target[k])  # type: ignore[arg-type]

    def reach(self, roots: Sequence[int]) -> Set[int]:
        seen: Set[int] = set()
        todo = list(roots)
        while todo:
            k = todo.pop()
            if k in seen:
                continue
            seen.add(k)
            todo.extend(self.local[k])
        return seen

    def owners(self, k: int) -> List[str]:
        """names of the units (``__main__`` or a subroutine) whose local closure contains instruction k"""
        out = ["__main__"] if k in self.main_set else []
        return out + [s for s in self.sub_names if k in self.sub_set[s]]

    def shared_main_sub(self) -> bool:
        """some instruction lies both in main's and in a subroutine's local closure (a subroutine body entered other
        than through callsub): outside C17's input space, inside C04/C05/C12's"""
        return any(self.main_set & s for s in self.sub_set.values())

    def irregular(self) -> bool:
        return self.shared_main_sub() or self.overlapping_subs()

    def overlapping_subs(self) -> bool:
        names = self.sub_names
        return any(self.sub_set[a] & self.sub_set[b] for i, a in enumerate(names) for b in names[i + 1:])

    def exits_possible(self, k: int) -> bool:
        """instruction k can be the last one executed by the program (not by failure of an ordinary opcode)"""
        if self.op[k] in ("return", "err"):
            return True
        return k == self.n - 1 and self.op[k] not in ("b", "retsub")


def parse_with_tealer(src: str, name: str = "p") -> Any:
    from tealer.teal.parse_teal import parse_teal
    with quiet():
        return parse_teal(src, name)


def _fl(b: Any) -> int:
    return b.instructions[0].line


def _desc(b: Any) -> str:
    try:
        return f"B{b.idx}@{_fl(b)}"
    except Exception:  # pylint: disable=broad-except
        return "B?"


# ======================================================================================================================
# C04: structural checks
# ======================================================================================================================

def check_cfg(orc: Oracle, teal: Any, notes: Optional[Counter] = None) -> List[Viol]:  # noqa: C901
    V: List[Viol] = []
    bbs = list(teal.bbs)
    instrs = list(teal.instructions)
    bbid = {id(b) for b in bbs}
    insid = {id(i) for i in instrs}
    exp_lines = [orc.line[k] for k in sorted(orc.retained)]
    exp_set = set(exp_lines)

    # -- teal.instructions == the retained instructions, in source order, with 1-based source lines
    got = [i.line for i in instrs]
    if got != exp_lines:
        extra = sorted(set(got) - exp_set)
        missing = sorted(exp_set - set(got))
        if extra:
            V.append(("instructions-list-keeps-unretained", f"Teal.instructions contains unreachable lines {extra}"))
        if missing:
            V.append(("instructions-list-misses-retained", f"Teal.instructions lacks reachable lines {missing}"))
        if not extra and not missing:
            V.append(("instructions-list-order", f"Teal.instructions lines {got} != {exp_lines}"))
    for i in instrs:
        k = orc.index_of_line.get(i.line)
        if k is None or avm._tokens(i.source_code) != avm._tokens(orc.prog.lines[i.line - 1]):  # pylint: disable=protected-access
            V.append(("line-number-wrong", f"instruction `{i}` carries line {i.line} which holds `{orc.prog.lines[i.line - 1] if 0 < i.line <= len(orc.prog.lines) else None}`"))
            break

    # -- blocks partition the retained instructions in source order
    if any(not b.instructions for b in bbs):
        V.append(("empty-block", "a block without instructions is in Teal.bbs"))
        return V
    order = sorted(bbs, key=_fl)
    if [id(b) for b in order] != [id(b) for b in bbs]:
        V.append(("bbs-not-in-source-order", f"Teal.bbs first lines {[_fl(b) for b in bbs]}"))
    seq: List[int] = []
    for b in order:
        seq += [i.line for i in b.instructions]
    if seq != exp_lines:
        extra = sorted(set(seq) - exp_set)
        missing = sorted(exp_set - set(seq))
        if extra:
            V.append(("blocks-keep-unretained", f"blocks contain unreachable lines {extra}"))
        if missing:
            V.append(("blocks-miss-retained", f"no block contains reachable lines {missing}"))
        if not extra and not missing:
            V.append(("blocks-overlap-or-disorder", f"block lines {seq} != {exp_lines}"))
        return V   # the rest presupposes the partition
    blk_of: Dict[int, Any] = {}     # instruction index -> block
    for b in bbs:
        ks = [orc.index_of_line[i.line] for i in b.instructions]
        if ks != list(range(ks[0], ks[0] + len(ks))):
            V.append(("block-not-contiguous", f"{_desc(b)} holds lines {[i.line for i in b.instructions]}"))
            return V
        for i, k in zip(b.instructions, ks):
            blk_of[k] = b
            try:
                own = i.bb
            except Exception:  # pylint: disable=broad-except
                own = None
            if own is not b:
                V.append(("instruction-bb-wrong", f"line {i.line}: Instruction.bb is not the block listing it"))
            if id(i) not in insid:
                V.append(("block-instruction-not-in-teal-instructions", f"line {i.line} of {_desc(b)}"))
    # -- idx: rank by first line (over all blocks of the source, dead ones included; unique and increasing)
    for b in bbs:
        k0 = orc.index_of_line[_fl(b)]
        if orc.rank_of_leader.get(k0) != b.idx:
            V.append(("idx-not-rank", f"block at line {_fl(b)} has idx {b.idx}, rank by first line is {orc.rank_of_leader.get(k0)}"))
            break
    # -- entered only at the first, left only at the last instruction
    for b in bbs:
        ks = [orc.index_of_line[i.line] for i in b.instructions]
        for k in ks[:-1]:
            if orc.local[k] != [k + 1] or orc.op[k] == "callsub":
                V.append(("block-left-before-last", f"{_desc(b)}: line {orc.line[k]} `{orc.op[k]}` is not its last instruction"))
        for k in ks[1:]:
            if k in orc.jump_targets_retained:
                V.append(("block-entered-after-first", f"{_desc(b)}: line {orc.line[k]} is a jump/call target but not its first instruction"))
    if V and any(c in ("block-left-before-last", "block-entered-after-first") for c, _ in V):
        return V
    # -- successors
    exp_next: Dict[int, List[Any]] = {}
    for b in bbs:
        k = orc.index_of_line[b.instructions[-1].line]
        op = orc.op[k]
        want = []
        for s in orc.local[k]:
            sb = blk_of[s]
            if not any(sb is w for w in want):
                want.append(sb)
        exp_next[id(b)] = want
        have = list(b.next)
        outside = [x for x in have if id(x) not in bbid]
        if outside:
            V.append(("next-names-block-outside-graph", f"{_desc(b)}.next names {[_desc(x) for x in outside]} not in Teal.bbs"))
        if len({id(x) for x in have}) != len(have):
            V.append(("duplicate-successor", f"{_desc(b)}.next = {[_desc(x) for x in have]}"))
        if {id(x) for x in have} != {id(x) for x in want}:
            V.append(("successors-wrong", f"{_desc(b)} ends in `{op}` at line {orc.line[k]}: next = {[_desc(x) for x in have]}, AVM successors {[_desc(x) for x in want]}"))
        elif op in ("bz", "bnz") and [id(x) for x in have] != [id(x) for x in want]:
            V.append(("bz-bnz-successor-order", f"{_desc(b)} `{op}`: next = {[_desc(x) for x in have]}, expected [fall-through, jump target] = {[_desc(x) for x in want]}"))
        if op in ("bz", "bnz"):
            fall = k + 1 < orc.n
            single_ok = (not fall) or blk_of[k + 1] is blk_of[orc.targets[k][0]]
            if (len(have) == 1) != single_ok and {id(x) for x in have} == {id(x) for x in want}:
                V.append(("bz-bnz-successor-count", f"{_desc(b)} `{op}` has {len(have)} successors"))
    # -- predecessors
    exp_prev: Dict[int, List[Any]] = {id(b): [] for b in bbs}
    for b in bbs:
        for w in exp_next[id(b)]:
            exp_prev[id(w)].append(b)
    for b in bbs:
        have = list(b.prev)
        outside = [x for x in have if id(x) not in bbid]
        if outside:
            V.append(("prev-names-block-outside-graph", f"{_desc(b)}.prev names {[_desc(x) for x in outside]} which are not in Teal.bbs (pruned)"))
        if Counter(id(x) for x in have if id(x) in bbid) != Counter(id(x) for x in exp_prev[id(b)]):
            V.append(("predecessors-wrong", f"{_desc(b)}.prev = {[_desc(x) for x in have]}, expected {[_desc(x) for x in exp_prev[id(b)]]}"))
        for x in have:
            if sum(1 for y in x.next if y is b) != sum(1 for y in have if y is x):
                V.append(("block-mirror-broken", f"{_desc(x)} in {_desc(b)}.prev but {_desc(b)} occurs {sum(1 for y in x.next if y is b)} times in its next"))
                break
        for x in b.next:
            if sum(1 for y in x.prev if y is b) != sum(1 for y in b.next if y is x):
                V.append(("block-mirror-broken", f"{_desc(x)} in {_desc(b)}.next but not mirrored in its prev"))
                break
    # -- instruction level
    by_k = {orc.index_of_line[i.line]: i for i in instrs if i.line in orc.index_of_line}
    exp_iprev: Dict[int, Set[int]] = {k: set() for k in orc.retained}
    for k in orc.retained:
        for s in orc.local[k]:
            exp_iprev[s].add(k)
    stop = False
    for k in sorted(orc.retained):
        i = by_k.get(k)
        if i is None or stop:
            continue
        nx, pv = list(i.next), list(i.prev)
        out_n = [x.line for x in nx if id(x) not in insid]
        out_p = [x.line for x in pv if id(x) not in insid]
        if out_n:
            V.append(("instr-next-names-instruction-outside", f"line {i.line}: next names lines {out_n} not in Teal.instructions"))
        if out_p:
            V.append(("instr-prev-names-instruction-outside", f"line {i.line}: prev names lines {out_p} not in Teal.instructions (pruned)"))
        if {x.line for x in nx} != {orc.line[s] for s in orc.local[k]}:
            V.append(("instr-successors-wrong", f"line {i.line} `{orc.op[k]}`: next lines {[x.line for x in nx]}, AVM {[orc.line[s] for s in orc.local[k]]}"))
            stop = True
        if {x.line for x in pv if id(x) in insid} != {orc.line[s] for s in exp_iprev[k]}:
            V.append(("instr-predecessors-wrong", f"line {i.line}: prev lines {[x.line for x in pv]}, expected {sorted(orc.line[s] for s in exp_iprev[k])}"))
            stop = True
        if notes is not None and len({id(x) for x in nx}) != len(nx):
            notes["instruction-level duplicate successor (bz/bnz to the next line, repeated switch/match label)"] += 1
        for x in nx:
            if sum(1 for y in x.prev if y is i) != sum(1 for y in nx if y is x):
                V.append(("instr-mirror-broken", f"line {i.line} -> line {x.line} not mirrored in prev"))
                stop = True
                break
        for x in pv:
            if sum(1 for y in x.next if y is i) != sum(1 for y in pv if y is x):
                V.append(("instr-mirror-broken", f"line {x.line} in prev of line {i.line} but not mirrored in its next"))
                stop = True
                break
    return V


# ======================================================================================================================
# C04: the walk property (global sense)
# ======================================================================================================================

def plain_function(teal: Any) -> Any:
    """A Function over the contract's own blocks (real Function.__init__, no analysis): gives the per-function
    caller/return-point tables that next_blocks_global / prev_blocks_global consult."""
    from tealer.teal.functions import Function
    return Function("whole", teal.main.entry, list(teal.bbs), teal, teal.main, dict(teal.subroutines))


class WalkChecker:
    """the executed line sequence is a walk in tealer's graph (global sense); per program, transitions are checked once"""

    def __init__(self, orc: Oracle, teal: Any, function: Any = None) -> None:
        self.orc, self.teal, self.function = orc, teal, function
        self.by_line = {i.line: i for i in teal.instructions}
        self.succ_in_block: Dict[int, Any] = {}      # id(instruction) -> following instruction of the same block
        self.last: Set[int] = set()
        for b in teal.bbs:
            ins = b.instructions
            for x, y in zip(ins, ins[1:]):
                self.succ_in_block[id(x)] = y
            self.last.add(id(ins[-1]))
        self.ok_pairs: Set[Tuple[int, int, int]] = set()

    def check(self, lines: List[int]) -> Optional[Viol]:  # noqa: C901
        teal, orc = self.teal, self.orc
        stack: List[Any] = []
        prev_i = None
        for ln in lines:
            i = self.by_line.get(ln)
            if i is None:
                return ("executed-instruction-not-retained", f"line {ln} is executed but is not in Teal.instructions")
            if prev_i is None:
                if i is not teal.bbs[0].instructions[0] or i is not teal.main.entry.instructions[0]:
                    return ("execution-does-not-start-at-entry", f"first executed line {ln}")
                prev_i = i
                continue
            a = prev_i
            prev_i = i
            if id(a) not in self.last:
                if self.succ_in_block.get(id(a)) is not i:
                    return ("block-left-before-last", f"execution goes from line {a.line} to line {ln} inside {_desc(a.bb)}")
                continue
            A, B = a.bb, i.bb
            op = orc.op[orc.index_of_line[a.line]]
            if op == "callsub":
                try:
                    stack.append((A, A.sub_return_point))
                except Exception as e:  # pylint: disable=broad-except
                    return ("walk-callsub-tables-missing", f"{_desc(A)}: {type(e).__name__}: {e}")
                key = (a.line, ln, 0)
            elif op == "retsub":
                if not stack:
                    return None  # the AVM rejects retsub with an empty call stack: cannot get here
                caller, rp = stack.pop()
                if rp is not B:
                    return ("walk-retsub-not-to-return-point", f"retsub at line {a.line} returns to line {ln}; sub_return_point of "
                            f"{_desc(caller)} is {_desc(rp) if rp is not None else None}")
                key = (a.line, ln, 1)
            else:
                key = (a.line, ln, 2)
            if key in self.ok_pairs:
                continue
            if B.instructions[0] is not i:
                return ("block-entered-after-first", f"execution enters {_desc(B)} at line {ln}")
            if op == "callsub":
                try:
                    entry = A.called_subroutine.entry
                except Exception as e:  # pylint: disable=broad-except
                    return ("walk-callsub-tables-missing", f"{_desc(A)}: {type(e).__name__}: {e}")
                if entry is not B:
                    return ("walk-callsub-not-to-callee-entry", f"callsub at line {a.line} continues at line {ln}; "
                            f"called_subroutine.entry is {_desc(entry)}")
            elif op != "retsub":
                if not any(x is B for x in A.next):
                    return ("walk-edge-missing", f"execution goes from {_desc(A)} (`{op}` line {a.line}) to {_desc(B)} which is not in "
                            f"next = {[_desc(x) for x in A.next]}")
            if self.function is not None:
                from tealer.utils.analyses import next_blocks_global, prev_blocks_global
                try:
                    ng = next_blocks_global(self.function, A)
                    pg = prev_blocks_global(self.function, B)
                except Exception as e:  # pylint: disable=broad-except
                    return ("global-edges-crash:" + type(e).__name__, f"next/prev_blocks_global on {_desc(A)}->{_desc(B)}: {e!r}"[:200])
                if not any(x is B for x in ng):
                    return ("walk-edge-missing-in-next_blocks_global", f"{_desc(A)} (`{op}`) -> {_desc(B)}; next_blocks_global = "
                            f"{[_desc(x) for x in ng]}")
                if not any(x is A for x in pg):
                    return ("walk-edge-missing-in-prev_blocks_global", f"{_desc(A)} (`{op}`) -> {_desc(B)}; prev_blocks_global({_desc(B)}) = "
                            f"{[_desc(x) for x in pg]}")
            self.ok_pairs.add(key)
        return None


# ======================================================================================================================
# control skeletons (exhaustive)
# ======================================================================================================================

PLAIN_ITEMS = ("P", "R", "err", "retsub")
FULL_ALPHABET = PLAIN_ITEMS + ("L", "b", "bz", "bnz", "callsub", "switch", "match")
REDUCED_ALPHABET = PLAIN_ITEMS + ("L", "b", "bnz", "callsub", "switch")
ONE_TARGET = ("b", "bz", "bnz", "callsub")
TWO_TARGETS = ("switch", "match")


def render_skeleton(kinds: Sequence[str], targets: Sequence[int]) -> Tuple[str, List[Tuple[int, int]]]:
    """source text and the list of (scratch slot, number of values) that drive its branches"""
    out = ["#pragma version 8"]
    slots: List[Tuple[int, int]] = []
    lab = 0
    t = 0
    for kd in kinds:
        if kd == "P":
            out += ["int 1", "pop"]
        elif kd == "R":
            out += ["int 1", "return"]
        elif kd in ("err", "retsub"):
            out.append(kd)
        elif kd == "L":
            out.append(f"L{lab}:")
            lab += 1
        elif kd in ("b", "callsub"):
            out.append(f"{kd} L{targets[t]}")
            t += 1
        elif kd in ("bz", "bnz"):
            s = len(slots) + 1
            slots.append((s, 2))
            out += [f"load {s}", f"{kd} L{targets[t]}"]
            t += 1
        elif kd == "switch":
            s = len(slots) + 1
            slots.append((s, 3))
            out += [f"load {s}", f"switch L{targets[t]} L{targets[t + 1]}"]
            t += 2
        elif kd == "match":
            s = len(slots) + 1
            slots.append((s, 3))
            out += ["int 0", "int 1", f"load {s}", f"match L{targets[t]} L{targets[t + 1]}"]
            t += 2
        else:
            raise ValueError(kd)
    return "\n".join(out) + "\n", slots


def skeletons(n: int, alphabet: Sequence[str], first: Sequence[str] = (),
              require: Optional[str] = None) -> Iterator[Tuple[str, List[Tuple[int, int]]]]:
    """all item sequences of length n over the alphabet that start with `first` (and contain the item `require`), with
    every assignment of label targets"""
    rest = n - len(first)
    for tail in itertools.product(alphabet, repeat=rest):
        kinds = tuple(first) + tail
        if require is not None and require not in kinds:
            continue
        nlab = sum(1 for k in kinds if k == "L")
        need = sum(1 for k in kinds if k in ONE_TARGET) + 2 * sum(1 for k in kinds if k in TWO_TARGETS)
        if need and not nlab:
            continue
        for tg in itertools.product(range(nlab), repeat=need):
            yield render_skeleton(kinds, tg)


def skeleton_jobs(max_len: int, extra_len: Optional[int]) -> List[Tuple[int, Tuple[str, ...], Tuple[str, ...]]]:
    jobs: List[Tuple[int, Tuple[str, ...], Tuple[str, ...]]] = []
    for n in range(1, max_len + 1):
        if n < 3:
            jobs.append((n, (), FULL_ALPHABET))
        else:
            for f in itertools.product(FULL_ALPHABET, repeat=2):
                jobs.append((n, f, FULL_ALPHABET))
    if extra_len:
        for f in itertools.product(REDUCED_ALPHABET, repeat=3):
            jobs.append((extra_len, f, REDUCED_ALPHABET))
    return jobs


def slot_inputs(slots: List[Tuple[int, int]], cap: int, rng: random.Random) -> List[Dict[int, int]]:
    total = 1
    for _, r in slots:
        total *= r
    if total <= cap:
        combos = list(itertools.product(*[range(r) for _, r in slots]))
    else:
        combos = [tuple(rng.randrange(r) for _, r in slots) for _ in range(cap)]
    return [{s: v for (s, _), v in zip(slots, c)} for c in combos]


_ONE_TXN_GROUP = None


def one_txn_group() -> Any:
    global _ONE_TXN_GROUP  # pylint: disable=global-statement
    if _ONE_TXN_GROUP is None:
        _ONE_TXN_GROUP = avm.Group([avm.Txn()])
    return _ONE_TXN_GROUP


# ======================================================================================================================
# result accumulation
# ======================================================================================================================

class Acc:
    """per worker: counts per class and the smallest reproducer of each class"""

    def __init__(self) -> None:
        self.programs = 0
        self.evaluations = 0
        self.runs = 0
        self.skipped = 0
        self.counts: Counter = Counter()
        self.examples: Dict[str, Dict[str, Any]] = {}
        self.notes: Counter = Counter()
        self.oracle_errors: List[str] = []

    def add(self, cls: str, msg: str, src: str, name: str, **more: Any) -> None:
        self.counts[cls] += 1
        ex = self.examples.get(cls)
        size = src.count("\n")
        if ex is None or size < ex["_size"]:
            self.examples[cls] = {"_size": size, "class": cls, "failure": msg, "program": name, "teal": src, **more}

    def dump(self) -> Dict[str, Any]:
        return {"programs": self.programs, "evaluations": self.evaluations, "runs": self.runs, "skipped": self.skipped,
                "counts": dict(self.counts), "examples": self.examples, "notes": dict(self.notes),
                "oracle_errors": self.oracle_errors[:3]}


def merge(parts: List[Dict[str, Any]]) -> Dict[str, Any]:
    tot: Dict[str, Any] = {"programs": 0, "evaluations": 0, "runs": 0, "skipped": 0, "counts": Counter(), "examples": {},
                           "notes": Counter(), "oracle_errors": []}
    for p in parts:
        for k in ("programs", "evaluations", "runs", "skipped"):
            tot[k] += p[k]
        tot["counts"].update(p["counts"])
        tot["notes"].update(p["notes"])
        tot["oracle_errors"] += p["oracle_errors"]
        for cls, ex in p["examples"].items():
            if cls not in tot["examples"] or ex["_size"] < tot["examples"][cls]["_size"]:
                tot["examples"][cls] = ex
    return tot


def finish(pid: str, name: str, tot: Dict[str, Any], known: Any, summary: Dict[str, Any], t0: float) -> Dict[str, Any]:
    known_ids = set(known or [])
    attributed: Dict[str, int] = {}
    failures = 0
    viols = []
    for cls in sorted(tot["counts"], key=lambda c: (tot["examples"][c]["_size"], c)):
        base = cls.replace(SHARED_TAG, "")
        fid = CLASS_TO_FINDING.get(cls) or CLASS_TO_FINDING.get(base) or CLASS_TO_FINDING.get(base.split(":")[0])
        if SHARED_TAG in cls and base.startswith(D25_CLASSES):
            # code shared between main and a subroutine body / two subroutine bodies (listed finding D25): block.subroutine is
            # overwritten, so global edges are lost and the analyses raise KeyError.  Only these classes are D25's; any
            # other failure on such a program (e.g. blocks listed twice) is reported.
            fid = "D25"
        cnt = tot["counts"][cls]
        if fid and fid in known_ids:
            attributed[fid] = attributed.get(fid, 0) + cnt
            continue
        failures += cnt
        if len(viols) < 5:
            ex = {k: v for k, v in tot["examples"][cls].items() if k != "_size"}
            safe = "".join(ch if ch.isalnum() else "_" for ch in cls)[:60]
            viols.append({"file": f"cfgcheck_{pid}_{safe}.json",
                          "data": {"property": pid, "standin": name, "occurrences": cnt,
                                   "listed_finding": fid, **ex}})
    summary.update({"evaluations": tot["evaluations"], "programs": tot["programs"], "failures": failures,
                    "classes": {c: n for c, n in sorted(tot["counts"].items())},
                    "class_reproducers": {c: {"teal": "; ".join(tot["examples"][c]["teal"].strip().split("\n"))[:400],
                                              "failure": tot["examples"][c]["failure"][:300],
                                              **({"dispatch_path": tot["examples"][c]["dispatch_path"]}
                                                 if "dispatch_path" in tot["examples"][c] else {}),
                                              **({"scratch": tot["examples"][c]["input"]["scratch"]}
                                                 if "input" in tot["examples"][c] else {})}
                                          for c in sorted(tot["counts"])},
                    "attributed_to_listed_findings": attributed, "observations": dict(tot["notes"]),
                    "oracle_errors": len(tot["oracle_errors"]), "oracle_error_examples": tot["oracle_errors"][:3],
                    "seconds": round(time.time() - t0, 1)})
    return {"summary": summary, "violations": viols, "known_lines": []}


# ======================================================================================================================
# C04 stand-in
# ======================================================================================================================

def c04_one(acc: Acc, src: str, name: str, inputs: Callable[[], Iterator[Tuple[Any, int, Any]]], max_steps: int) -> None:
    try:
        orc = Oracle(src)
    except avm.Unsupported:
        acc.skipped += 1
        return
    acc.programs += 1
    try:
        teal = parse_with_tealer(src)
    except BaseException as e:  # pylint: disable=broad-except
        if isinstance(e, KeyboardInterrupt):
            raise
        acc.add("parse_teal-crash:" + type(e).__name__, f"parse_teal raised {type(e).__name__}: {e}", src, name,
                traceback=traceback.format_exc()[-500:])
        return
    try:
        vs = check_cfg(orc, teal, acc.notes)
        acc.evaluations += 1
        seen = set()
        tag = SHARED_TAG if orc.irregular() else ""
        for cls, msg in vs:
            if cls not in seen:
                seen.add(cls)
                acc.add(cls + tag, msg, src, name)
        fn = None
        if orc.sub_names:
            try:
                fn = plain_function(teal)
            except Exception as e:  # pylint: disable=broad-except
                acc.add("Function-init-crash:" + type(e).__name__ + tag, f"Function(...) over the contract's blocks: {e}", src, name)
        walker = WalkChecker(orc, teal, fn)
        for g, i, unrel in inputs():
            try:
                res = avm.run(orc.prog, g, i, unrelated=unrel, max_steps=max_steps)
            except avm.Unsupported:
                acc.skipped += 1
                break
            acc.runs += 1
            acc.evaluations += 1
            v = walker.check(res.lines)
            if v and v[0] not in seen:
                seen.add(v[0])
                acc.add(v[0] + tag, v[1], src, name, input={"own_index": i, "scratch": {str(k): x for k, x in (unrel or {}).items()},
                                                      "group": repr(g)[:300]}, executed_lines=res.lines[:60])
    except Exception:  # pylint: disable=broad-except
        acc.oracle_errors.append(f"{name}: {traceback.format_exc()[-600:]}\n{src}")


def _c04_skeleton_job(job: Tuple[int, Tuple[str, ...], Tuple[str, ...], int, int]) -> Dict[str, Any]:
    n, first, alphabet, cap, seed = job
    acc = Acc()
    rng = random.Random(f"{seed}/{n}/{first}")
    g = one_txn_group()
    for src, slots in skeletons(n, alphabet, first):
        ins = slot_inputs(slots, cap, rng)
        c04_one(acc, src, f"skeleton/{n}", lambda ins=ins: ((g, 0, u) for u in ins), 60)
    return acc.dump()


def _c04_gen_job(job: Tuple[List[Tuple[str, str]], int]) -> Dict[str, Any]:
    from bounded import gen
    progs, cap = job
    acc = Acc()
    for name, src in progs:
        c04_one(acc, src, name, lambda src=src: gen.inputs_for(src, cap=cap), 3000)
    return acc.dump()


def _chunks(items: List[Any], size: int) -> List[List[Any]]:
    return [items[i:i + size] for i in range(0, len(items), size)]


def _gen_programs(limit: int, seed: int, families: Optional[List[str]] = None) -> List[Tuple[str, str]]:
    from bounded import gen
    return [(p["name"], p["src"]) for p in gen.programs(2, seed=seed, limit=limit, families=families)]


HAND_PROGRAMS: List[Tuple[str, str]] = [
    ("hand/dead-two-live-successors", "#pragma version 6\nb live\nint 1\nbnz live\nerr\nlive:\nint 1\nreturn\n"),
    ("hand/label-after-callsub", "#pragma version 6\nload 8\nbnz after\ncallsub f\nafter:\nint 1\nreturn\nf:\nretsub\n"),
    ("hand/callsub-last", "#pragma version 6\nb main\nf:\nretsub\nmain:\nint 1\ncallsub f\n"),
    ("hand/branch-last", "#pragma version 6\nb main\nok:\nint 1\nreturn\nmain:\nload 8\nbnz ok\n"),
    ("hand/dead-call", "#pragma version 6\nint 1\nreturn\ncallsub g\nerr\ng:\ncallsub h\nretsub\nh:\nretsub\n"),
]


@standin("C04")
def cfg_wellformed(tier: str = "quick", seed: int = 0, known: Any = None) -> Dict[str, Any]:
    t0 = time.time()
    quick = tier == "quick"
    limit, cap = (3000, 20) if quick else (60000, 60)
    max_len, extra_len, scap = (5, None, 12) if quick else (5, 6, 27)
    jobs_s = [(n, f, a, scap, seed) for n, f, a in skeleton_jobs(max_len, extra_len)]
    progs = HAND_PROGRAMS + _gen_programs(limit, seed)
    jobs_g = [(c, cap) for c in _chunks(progs, 25)]
    with mp.get_context("fork").Pool(NPROC) as pool:
        r1 = pool.map_async(_c04_skeleton_job, sorted(jobs_s, key=lambda j: -j[0]), chunksize=1)
        r2 = pool.map_async(_c04_gen_job, jobs_g, chunksize=1)
        parts_s, parts_g = r1.get(), r2.get()
    ts, tg = merge(parts_s), merge(parts_g)
    tot = merge([ts, tg])
    bound = (f"(a) every sequence of <= {max_len} items over {list(FULL_ALPHABET)} "
             + (f"and of exactly {extra_len} items over {list(REDUCED_ALPHABET)} " if extra_len else "")
             + "(P=`int 1;pop`, R=`int 1;return`, L=label, bz/bnz/switch/match preceded by `load s`), every assignment of "
             f"label targets: {ts['programs']} programs x <= {scap} scratch presets each ({ts['runs']} runs); "
             f"(b) gen.programs(k=2, limit={limit}, seed={seed}) + {len(HAND_PROGRAMS)} hand programs: {tg['programs']} programs x <= {cap} "
             f"gen.inputs_for inputs ({tg['runs']} runs)")
    summary = {"function": "tealer.teal.parse_teal.parse_teal (four passes, idx, pruning), Function.__init__, "
                           "utils.analyses.next_blocks_global/prev_blocks_global",
               "contract": "C04: blocks partition the retained instructions in source order with single entry/exit, next/prev mirror "
                           "each other inside the graph (block and instruction level), bz/bnz successor order/count, idx = rank, and "
                           "every spec/avm.py execution is a walk in the graph (local edges, callsub->callee entry, retsub->return point)",
               "bound": bound, "exhaustive": False, "runs": tot["runs"], "skeleton_programs": ts["programs"],
               "generated_programs": tg["programs"], "skipped_unsupported": tot["skipped"]}
    return finish("C04", "cfg_wellformed (bounded)", tot, known, summary, t0)


# ======================================================================================================================
# C05: subroutine / call-site / return-point tables and the call-graph export
# ======================================================================================================================

def _blockmap(orc: Oracle, teal: Any) -> Optional[Dict[int, Any]]:
    """instruction index -> tealer block, provided the blocks partition the retained instructions (else None: C04's business)"""
    out: Dict[int, Any] = {}
    for b in teal.bbs:
        for i in b.instructions:
            k = orc.index_of_line.get(i.line)
            if k is None or k in out:
                return None
            out[k] = b
    if set(out) != orc.retained:
        return None
    return out


def _ids(blocks: Any) -> List[int]:
    return sorted(_fl(b) for b in blocks)


def check_subs_coarse(orc: Oracle, teal: Any) -> List[Viol]:
    """when tealer's blocks do not partition the retained instructions (C04 fails) compare what can still be compared, by the
    first lines of the blocks of the independent partition"""
    V: List[Viol] = []
    subs = teal.subroutines
    if set(subs) != set(orc.sub_names):
        return [("subroutine-keys-wrong", f"Teal.subroutines keys {sorted(subs)} != callsub targets {sorted(orc.sub_names)}")]
    bbid = {id(b) for b in teal.bbs}
    for name, sub, iset in [("__main__", teal.main, orc.main_set)] + [(x, subs[x], orc.sub_set[x]) for x in orc.sub_names]:
        want = sorted({orc.line[orc.leader_of[k]] for k in iset})
        have = sorted(_fl(b) for b in sub.blocks if b.instructions)
        if have != want or any(id(b) not in bbid for b in sub.blocks):
            V.append(("subroutine-blocks-wrong", f"{name}: blocks at lines {have} (in Teal.bbs: {[id(b) in bbid for b in sub.blocks]}), "
                      f"reachable from its entry without following calls: {want}"))
        if name != "__main__":
            sites = sorted(orc.line[orc.leader_of[k]] for k in orc.retained if orc.op[k] == "callsub" and orc.call_label[k] == name)
            got = sorted(_fl(b) for b in sub.caller_blocks)
            if got != sites:
                V.append(("caller-blocks-wrong", f"{name}: caller_blocks at lines {got}, retained call sites {sites}"))
    return V or [("skip", "partition")]


def check_subs(orc: Oracle, teal: Any) -> List[Viol]:  # noqa: C901
    V: List[Viol] = []
    bm = _blockmap(orc, teal)
    if bm is None:
        return check_subs_coarse(orc, teal)
    last_of = {id(b): orc.index_of_line[b.instructions[-1].line] for b in teal.bbs}
    subs = teal.subroutines
    if set(subs) != set(orc.sub_names):
        V.append(("subroutine-keys-wrong", f"Teal.subroutines keys {sorted(subs)} != callsub targets {sorted(orc.sub_names)}"))
        return V
    units = [("__main__", teal.main, orc.main_set, 0)] + [(s, subs[s], orc.sub_set[s], orc.sub_entry[s]) for s in orc.sub_names]
    call_sites: Dict[str, List[Any]] = {s: [] for s in orc.sub_names}     # retained call sites per callee
    for b in teal.bbs:
        k = last_of[id(b)]
        if orc.op[k] == "callsub":
            call_sites[orc.call_label[k]].append(b)  # type: ignore[index]
    for name, sub, iset, entry_k in units:
        if sub.name != name:
            V.append(("subroutine-name-wrong", f"{name}: Subroutine.name = {sub.name}"))
        if sub.entry is not bm[entry_k] or sub.entry.instructions[0].line != orc.line[entry_k]:
            V.append(("subroutine-entry-wrong", f"{name}: entry {_desc(sub.entry)}, expected the block at line {orc.line[entry_k]}"))
        want = {id(bm[k]): bm[k] for k in iset}
        have = list(sub.blocks)
        if len({id(b) for b in have}) != len(have):
            V.append(("subroutine-blocks-duplicate", f"{name}: blocks {[_desc(b) for b in have]}"))
        if {id(b) for b in have} != set(want):
            V.append(("subroutine-blocks-wrong", f"{name}: blocks at lines {_ids(have)}, reachable from its entry without following calls: {_ids(want.values())}"))
            continue
        # exits
        exp_ret = [b for b in want.values() if orc.op[last_of[id(b)]] == "retsub"]
        exp_exit = [b for b in want.values() if orc.op[last_of[id(b)]] == "retsub" or orc.exits_possible(last_of[id(b)])]
        got_exit = list(sub.exit_blocks)
        if Counter(id(b) for b in got_exit) != Counter(id(b) for b in exp_exit):
            only_cond_last = ({id(b) for b in exp_exit} - {id(b) for b in got_exit}
                              and not {id(b) for b in got_exit} - {id(b) for b in exp_exit}
                              and all(orc.op[last_of[id(b)]] in ("bz", "bnz", "switch", "match") for b in exp_exit
                                      if id(b) not in {id(x) for x in got_exit}))
            cls = "exit-blocks-miss-conditional-branch-as-last-instruction" if only_cond_last else "exit-blocks-wrong"
            V.append((cls, f"{name}: exit_blocks at lines {_ids(got_exit)}, retsub/program-terminating blocks: {_ids(exp_exit)}"))
        if Counter(id(b) for b in sub.retsub_blocks) != Counter(id(b) for b in exp_ret):
            V.append(("retsub-blocks-wrong", f"{name}: retsub_blocks at lines {_ids(sub.retsub_blocks)}, expected {_ids(exp_ret)}"))
        if name == "__main__":
            continue
        # call sites
        sites = call_sites[name]
        if Counter(id(b) for b in sub.caller_blocks) != Counter(id(b) for b in sites):
            V.append(("caller-blocks-wrong", f"{name}: caller_blocks at lines {_ids(sub.caller_blocks)}, retained call sites {_ids(sites)}"))
        rps = [bm[last_of[id(b)] + 1] for b in sites if last_of[id(b)] + 1 < orc.n]
        if Counter(id(b) for b in sub.return_point_blocks) != Counter(id(b) for b in rps):
            V.append(("return-point-blocks-wrong", f"{name}: return_point_blocks at lines {_ids(sub.return_point_blocks)}, expected {_ids(rps)}"))
    # every callsub block knows its callee and its return point
    for b in teal.bbs:
        k = last_of[id(b)]
        is_call = orc.op[k] == "callsub"
        if bool(b.is_callsub_block) != is_call:
            V.append(("is-callsub-block-wrong", f"{_desc(b)}: is_callsub_block={b.is_callsub_block}"))
            continue
        if bool(b.is_retsub_block) != (orc.op[k] == "retsub"):
            V.append(("is-retsub-block-wrong", f"{_desc(b)}: is_retsub_block={b.is_retsub_block}"))
        if is_call:
            try:
                cs = b.called_subroutine
            except Exception as e:  # pylint: disable=broad-except
                V.append(("called-subroutine-missing", f"{_desc(b)}: {e}"))
                continue
            if cs is not subs.get(orc.call_label[k]):  # type: ignore[arg-type]
                V.append(("called-subroutine-wrong", f"{_desc(b)} calls {orc.call_label[k]}, called_subroutine is {getattr(cs, 'name', cs)}"))
            want_rp = bm[k + 1] if k + 1 < orc.n else None
            got_rp = b.sub_return_point
            if got_rp is not want_rp:
                V.append(("sub-return-point-wrong", f"{_desc(b)}: sub_return_point {_desc(got_rp) if got_rp is not None else None}, expected "
                          f"{_desc(want_rp) if want_rp is not None else None}"))
            if want_rp is not None:
                if not want_rp.is_sub_return_point:
                    V.append(("is-sub-return-point-wrong", f"{_desc(want_rp)} follows the call in {_desc(b)} but is_sub_return_point is False"))
                else:
                    cb = want_rp.callsub_block
                    if cb is not b:
                        V.append(("callsub-block-wrong", f"{_desc(want_rp)}.callsub_block is {_desc(cb)}, the call site is {_desc(b)}"))
        # owner
        owners = orc.owners(orc.index_of_line[_fl(b)])
        try:
            own = b.subroutine.name
            own_obj = b.subroutine
        except Exception as e:  # pylint: disable=broad-except
            V.append(("block-subroutine-missing", f"{_desc(b)}: {e}"))
            continue
        if own not in owners or own_obj is not (teal.main if own == "__main__" else subs.get(own)):
            V.append(("block-subroutine-wrong", f"{_desc(b)}.subroutine = {own}, the block belongs to {owners}"))
    for b in teal.bbs:
        k0 = orc.index_of_line[_fl(b)]
        is_rp = k0 > 0 and orc.op[k0 - 1] == "callsub" and (k0 - 1) in orc.retained
        if bool(b.is_sub_return_point) != is_rp:
            V.append(("is-sub-return-point-wrong", f"{_desc(b)}: is_sub_return_point={b.is_sub_return_point}, preceded by a retained callsub: {is_rp}"))
    return V


def check_function_tables(orc: Oracle, teal: Any, fn: Any, what: str) -> List[Viol]:
    """Function.caller_blocks / return_point_blocks == the call sites among the function's blocks (compared by first line)"""
    V: List[Viol] = []
    lines_in_fn = Counter(_fl(b) for b in fn.blocks)
    for name, sub in fn.subroutines.items():
        sites = []
        rps = []
        for b in fn.blocks:
            k = orc.index_of_line.get(b.instructions[-1].line)
            if k is not None and orc.op[k] == "callsub" and orc.call_label[k] == name:
                sites.append(_fl(b))
                if k + 1 < orc.n:
                    rps.append(orc.line[k + 1])
        try:
            got_c = sorted(_fl(b) for b in fn.caller_blocks(sub))
            got_r = sorted(_fl(b) for b in fn.return_point_blocks(sub))
        except Exception as e:  # pylint: disable=broad-except
            V.append((f"{what}-tables-crash:{type(e).__name__}", f"{name}: {e!r}"[:200]))
            continue
        if got_c != sorted(sites):
            V.append((f"{what}-caller-blocks-wrong", f"{name}: Function.caller_blocks at lines {got_c}, call sites among its blocks {sorted(sites)}"))
        if got_r != sorted(rps):
            V.append((f"{what}-return-point-blocks-wrong", f"{name}: Function.return_point_blocks at lines {got_r}, expected {sorted(rps)}"))
    if any(n > 1 for n in lines_in_fn.values()):
        V.append((f"{what}-blocks-duplicate", f"Function.blocks lists the block at line(s) {[ln for ln, n in lines_in_fn.items() if n > 1]} more than once"))
    return V


_CG_DIR: Optional[str] = None


def call_graph_of(teal: Any) -> Optional[Tuple[Set[str], Set[Tuple[str, str]]]]:
    """run the real call-graph printer and read its DOT file back: (nodes, edges); None if the printer declines (version < 4)"""
    global _CG_DIR  # pylint: disable=global-statement
    import tealer.printers.call_graph as cg
    if _CG_DIR is None or not os.path.isdir(_CG_DIR) or not _CG_DIR.endswith(str(os.getpid())):
        _CG_DIR = tempfile.mkdtemp(prefix="cfgcheck_cg_", suffix="_" + str(os.getpid()))
    cg.ROOT_OUTPUT_DIRECTORY = Path(_CG_DIR)   # the module reads TEALER_ROOT_OUTPUT_DIR once, at import time
    path = Path(_CG_DIR) / teal.contract_name / "call-graph.dot"
    if path.exists():
        path.unlink()
    with quiet():
        cg.PrinterCallGraph(teal).print()
    if not path.exists():
        return None
    nodes: Set[str] = set()
    edges: Set[Tuple[str, str]] = set()
    text = path.read_text(encoding="utf-8")
    body = text[text.index("{") + 1:text.rindex("}")]
    for stmt in body.split(";"):
        stmt = stmt.strip()
        if not stmt:
            continue
        if "->" in stmt:
            a, b = [x.strip() for x in stmt.split("->")]
            edges.add((a, b))
        elif "[" in stmt:
            nodes.add(stmt[:stmt.index("[")].strip())
    return nodes, edges


def check_call_graph(orc: Oracle, teal: Any) -> List[Viol]:
    try:
        got = call_graph_of(teal)
    except Exception as e:  # pylint: disable=broad-except
        return [("call-graph-printer-crash:" + type(e).__name__, f"{e!r}"[:200])]
    if got is None:
        if orc.prog.version >= 4:
            return [("call-graph-not-written", "PrinterCallGraph.print() wrote no call-graph.dot")]
        return []
    nodes, edges = got
    required: Set[Tuple[str, str]] = set()
    allowed: Set[Tuple[str, str]] = set()
    for k in orc.retained:
        if orc.op[k] == "callsub":
            own = orc.owners(orc.leader_of[k])
            for f in own:
                allowed.add((f, orc.call_label[k]))  # type: ignore[arg-type]
            if len(own) == 1:
                required.add((own[0], orc.call_label[k]))  # type: ignore[arg-type]
    V: List[Viol] = []
    if nodes != set(orc.sub_names):
        V.append(("call-graph-nodes-wrong", f"nodes {sorted(nodes)} != subroutines {sorted(orc.sub_names)}"))
    if required - edges:
        V.append(("call-graph-edge-missing", f"edges {sorted(required - edges)} missing: a retained callsub in f targets g; exported {sorted(edges)}"))
    if edges - allowed:
        V.append(("call-graph-edge-spurious", f"edges {sorted(edges - allowed)} exported but no retained callsub in f targets g"))
    return V


# ----------------------------------------------------------------------------------------------------------------------
# call-structure programs
# ----------------------------------------------------------------------------------------------------------------------

CALL_CONTEXTS = ("plain", "loop", "cond", "cond-label-after", "dead", "dead-block")
SUB_ENDS = ("retsub", "return", "err", "cond-retsub")


def _call_stmt(unit: str, j: int, callee: str, ctx: str) -> List[str]:
    u = f"{unit}_{j}"
    if ctx == "plain":
        return [f"callsub {callee}"]
    if ctx == "loop":
        s = 30 + j
        return ["int 0", f"store {s}", f"{u}_lp:", f"load {s}", "int 2", ">=", f"bnz {u}_le", f"callsub {callee}",
                f"load {s}", "int 1", "+", f"store {s}", f"b {u}_lp", f"{u}_le:"]
    if ctx == "cond":
        return ["load 8", f"bz {u}_el", f"callsub {callee}", f"b {u}_jn", f"{u}_el:", "int 1", "pop", f"{u}_jn:"]
    if ctx == "cond-label-after":
        return ["load 8", f"bz {u}_sk", f"callsub {callee}", f"{u}_sk:"]
    if ctx == "dead":
        return [f"b {u}_sk", f"callsub {callee}", f"{u}_sk:"]
    if ctx == "dead-block":
        return [f"b {u}_sk", f"{u}_dd:", "int 1", "pop", f"callsub {callee}", "int 1", "pop", f"{u}_sk:"]
    raise ValueError(ctx)


def call_program(nsubs: int, calls: Dict[int, List[Tuple[int, str]]], order: Sequence[int], ends: Dict[int, str],
                 main_last_call: Optional[int] = None) -> str:
    """unit 0 is main, unit k >= 1 is subroutine s<k>; calls[u] = [(callee unit, context)]; order = textual order of the
    units; ends[k] = how subroutine k ends; main_last_call: main ends in `callsub s<k>` (only honoured when main is the
    last unit: call as the last instruction), else in `int 1; return`"""
    out = ["#pragma version 8"]
    if order[0] != 0:
        out.append("b main")
    for u in order:
        name = "main" if u == 0 else f"s{u}"
        if u != 0 or order[0] != 0:
            out.append(f"{name}:")
        for j, (callee, ctx) in enumerate(calls.get(u, [])):
            out += _call_stmt(name, j, f"s{callee}", ctx)
        if u == 0:
            if main_last_call is not None and order[-1] == 0:
                out += ["int 1", f"callsub s{main_last_call}"]
            else:
                out += ["int 1", "return"]
        else:
            e = ends.get(u, "retsub")
            if e == "retsub":
                out.append("retsub")
            elif e == "return":
                out += ["int 1", "return"]
            elif e == "err":
                out.append("err")
            else:
                out += ["load 9", f"bz {name}_r", "int 1", "return", f"{name}_r:", "retsub"]
    return "\n".join(out) + "\n"


def call_programs(max_subs: int, n_random: int, seed: int, full_product: bool = True) -> Iterator[Tuple[str, str]]:  # noqa: C901
    """systematic call-graph shapes x layouts x call contexts x subroutine endings (full_product; else every context with
    `retsub` endings and every ending with plain calls), then seeded random ones"""
    yield "calls/none", call_program(0, {}, [0], {})
    for n in range(1, max_subs + 1):
        subs = list(range(1, n + 1))
        graphs: Dict[str, Dict[int, List[int]]] = {
            "chain": {u: [u + 1] for u in range(0, n)},
            "star": {0: subs},
            "star-reversed": {0: subs[::-1]},
            "shared-last": {u: [n] for u in range(0, n)},
            "self-recursive": {0: subs, **{u: [u] for u in subs}},
            "mutual": {0: [1], **{u: [u % n + 1] for u in subs}},
            "complete": {u: subs for u in range(0, n + 1)},
            "only-from-dead-code": {0: []},
            "two-sites-each": {0: subs + subs},
            "diamond": {0: [1, min(2, n)], 1: [n], min(2, n): [n]},
        }
        layouts = {"subs-after": [0] + subs, "subs-before": subs + [0], "reversed-after": [0] + subs[::-1],
                   "interleaved": subs[:n // 2] + [0] + subs[n // 2:]}
        for gname, g in graphs.items():
            for lname, order in layouts.items():
                for ctx in CALL_CONTEXTS:
                    if gname == "only-from-dead-code":
                        calls = {0: [(s, "dead" if ctx not in ("dead", "dead-block") else ctx) for s in subs]}
                    else:
                        calls = {u: [(v, ctx if (u + i) % 2 == 0 else "plain") for i, v in enumerate(vs)] for u, vs in g.items()}
                    for end in SUB_ENDS:
                        if not full_product and ctx != "plain" and end != "retsub":
                            continue
                        ends = {u: (end if u % 2 == 1 else "retsub") for u in subs}
                        yield (f"calls/{n}/{gname}/{lname}/{ctx}/{end}", call_program(n, calls, order, ends))
                    if order[-1] == 0:
                        yield (f"calls/{n}/{gname}/{lname}/{ctx}/main-last-call",
                               call_program(n, calls, order, {}, main_last_call=n))
    rng = random.Random(f"callprogs/{seed}")
    for r in range(n_random):
        n = rng.randint(0, max_subs)
        units = list(range(0, n + 1))
        calls = {}
        for u in units:
            if n:
                calls[u] = [(rng.randint(1, n), rng.choice(CALL_CONTEXTS)) for _ in range(rng.choice((0, 1, 1, 2, 3)))]
        order = units[:]
        rng.shuffle(order)
        ends = {u: rng.choice(SUB_ENDS) for u in units[1:]}
        mlc = rng.randint(1, n) if n and rng.random() < 0.3 else None
        yield f"calls/random/{r}", call_program(n, calls, order, ends, mlc)


# ----------------------------------------------------------------------------------------------------------------------
# C05 stand-in
# ----------------------------------------------------------------------------------------------------------------------

def build_function(teal: Any, path: List[str]) -> Any:
    from tealer.teal.parse_functions import construct_function
    with quiet():
        return construct_function(teal, path)


def c05_one(acc: Acc, src: str, name: str, with_function: bool) -> None:
    try:
        orc = Oracle(src)
    except avm.Unsupported:
        acc.skipped += 1
        return
    acc.programs += 1
    try:
        teal = parse_with_tealer(src)
    except BaseException as e:  # pylint: disable=broad-except
        if isinstance(e, KeyboardInterrupt):
            raise
        acc.add("parse_teal-crash:" + type(e).__name__, f"parse_teal raised {type(e).__name__}: {e}", src, name)
        return
    try:
        tag = SHARED_TAG if orc.irregular() else ""
        vs = check_subs(orc, teal)
        if vs and vs[0][0] == "skip":
            acc.skipped += 1
            return
        acc.evaluations += 1
        if orc.sub_names:
            vs += check_call_graph(orc, teal)
            acc.evaluations += 1
            try:
                vs += check_function_tables(orc, teal, plain_function(teal), "Function")
            except Exception as e:  # pylint: disable=broad-except
                vs.append(("Function-init-crash:" + type(e).__name__, f"Function(...) over the contract's blocks: {e!r}"[:200]))
            acc.evaluations += 1
        if with_function:
            try:
                fn = build_function(teal, ["B0"])
            except Exception as e:  # pylint: disable=broad-except
                frames = traceback.extract_tb(e.__traceback__)
                vs.append((f"construct_function-crash:{type(e).__name__}@{frames[-1].name if frames else '?'}",
                           f"construct_function(teal, ['B0']): {e!r}"[:200]))
                fn = None
            if fn is not None:
                acc.evaluations += 1
                used: Set[str] = set()
                todo = ["__main__"]
                while todo:
                    f = todo.pop()
                    body = orc.main_set if f == "__main__" else orc.sub_set[f]
                    for k in body:
                        if orc.op[k] == "callsub" and orc.call_label[k] not in used:
                            used.add(orc.call_label[k])  # type: ignore[arg-type]
                            todo.append(orc.call_label[k])  # type: ignore[arg-type]
                if set(fn.subroutines) != used:
                    vs.append(("function-subroutines-wrong", f"function [B0] uses subroutines {sorted(fn.subroutines)}, call closure of main: {sorted(used)}"))
                else:
                    vs += check_function_tables(orc, teal, fn, "constructed-function")
        seen = set()
        for cls, msg in vs:
            if cls not in seen:
                seen.add(cls)
                acc.add(cls + tag, msg, src, name)
    except Exception:  # pylint: disable=broad-except
        acc.oracle_errors.append(f"{name}: {traceback.format_exc()[-600:]}\n{src}")


def _c05_skeleton_job(job: Tuple[int, Tuple[str, ...], Tuple[str, ...]]) -> Dict[str, Any]:
    n, first, alphabet = job
    acc = Acc()
    for src, _ in skeletons(n, alphabet, first, require="callsub"):
        c05_one(acc, src, f"skeleton/{n}", False)
    _cleanup_cg()
    return acc.dump()


def _c05_prog_job(progs: List[Tuple[str, str]]) -> Dict[str, Any]:
    acc = Acc()
    for name, src in progs:
        c05_one(acc, src, name, True)
    _cleanup_cg()
    return acc.dump()


def _cleanup_cg() -> None:
    global _CG_DIR  # pylint: disable=global-statement
    if _CG_DIR and os.path.isdir(_CG_DIR):
        shutil.rmtree(_CG_DIR, ignore_errors=True)
    _CG_DIR = None


@standin("C05")
def subroutine_tables(tier: str = "quick", seed: int = 0, known: Any = None) -> Dict[str, Any]:
    t0 = time.time()
    quick = tier == "quick"
    limit = 1500 if quick else 12000
    max_len, extra_len = (5, None) if quick else (5, 6)
    max_subs, n_random = (4, 600) if quick else (6, 5000)
    calls = list(call_programs(max_subs, n_random, seed, full_product=not quick))
    gens = _gen_programs(limit, seed)
    jobs_p = _chunks(HAND_PROGRAMS + calls, 40) + _chunks(gens, 40)
    jobs_s = sorted(skeleton_jobs(max_len, extra_len), key=lambda j: -j[0])
    with mp.get_context("fork").Pool(NPROC) as pool:
        r1 = pool.map_async(_c05_skeleton_job, jobs_s, chunksize=1)
        r2 = pool.map_async(_c05_prog_job, jobs_p, chunksize=1)
        parts_s, parts_p = r1.get(), r2.get()
    ts, tp = merge(parts_s), merge(parts_p)
    tot = merge([ts, tp])
    bound = (f"(a) call-structure programs: 0..{max_subs} subroutines x 10 call-graph shapes (chain, star, reversed star, shared, "
             f"self/mutual recursion, complete, only-from-dead-code, two sites, diamond) x 4 layouts x {len(CALL_CONTEXTS)} call contexts "
             f"{list(CALL_CONTEXTS)} x {len(SUB_ENDS)} subroutine endings {'(full product)' if not quick else '(each context with retsub endings, each ending with plain calls)'} + call as last instruction, + {n_random} seeded random ones "
             f"(seed={seed}): {len(calls)} programs; (b) gen.programs(k=2, limit={limit}): {len(gens)} programs; "
             f"(c) the control skeletons of C04 that contain a callsub (length <= {max_len}" + (f", reduced alphabet length {extra_len}" if extra_len else "")
             + f"): {ts['programs']} programs.  (a),(b) also through construct_function(teal, ['B0'])")
    summary = {"function": "parse_teal (subroutine discovery, tables), Subroutine.__init__/caller_blocks, BasicBlock.sub_return_point/"
                           "is_sub_return_point/callsub_block, Function.__init__, construct_function (used-subroutine closure), "
                           "printers.call_graph.PrinterCallGraph",
               "contract": "C05: Teal.subroutines = callsub targets; Subroutine.blocks = local closure of the entry; exit/retsub blocks; "
                           "called_subroutine / sub_return_point of every retained callsub block; caller/return-point tables = retained call "
                           "sites (contract and function level); block.subroutine; call-graph DOT edge f->g iff a retained callsub in f targets g",
               "bound": bound, "exhaustive": False, "call_structure_programs": len(calls), "generated_programs": len(gens),
               "skeleton_programs": ts["programs"], "skipped": tot["skipped"]}
    return finish("C05", "subroutine_tables (bounded)", tot, known, summary, t0)


# ======================================================================================================================
# C12: the function cut out by a dispatch path
# ======================================================================================================================

def snapshot(teal: Any) -> Tuple[Any, List[Any]]:
    """structural snapshot of everything reachable from the contract (ids keep identity; `keep` keeps the ids alive)"""
    keep: List[Any] = []
    blocks = []
    for b in teal.bbs:
        keep.append(b)
        ins = []
        for i in b.instructions:
            keep.append(i)
            ins.append((id(i), i.line, str(i), tuple(id(x) for x in i.next), tuple(id(x) for x in i.prev), id(i.bb),
                        id(getattr(i, "_called_subroutine", None))))
        blocks.append((id(b), b.idx, tuple(id(x) for x in b.next), tuple(id(x) for x in b.prev), tuple(ins),
                       id(b._subroutine), id(b.teal)))  # pylint: disable=protected-access
    subs = []
    for name, s in [("__main__", teal.main)] + sorted(teal.subroutines.items()):
        keep.append(s)
        subs.append((name, id(s), s.name, id(s.entry), tuple(id(x) for x in s.blocks), tuple(id(x) for x in s.exit_blocks),
                     tuple(id(x) for x in s.caller_blocks), tuple(id(x) for x in s.return_point_blocks)))
    return (tuple(blocks), tuple(subs), tuple(id(i) for i in teal.instructions), tuple(id(b) for b in teal.bbs)), keep


def snapshot_diff(a: Any, b: Any) -> str:
    names = ("blocks (idx/next/prev/instructions/subroutine)", "subroutine tables", "Teal.instructions", "Teal.bbs")
    for nm, x, y in zip(names, a, b):
        if x != y:
            if nm.startswith("blocks") and len(x) == len(y):
                for bx, by in zip(x, y):
                    if bx != by:
                        parts = ("id", "idx", "next", "prev", "instructions", "subroutine", "teal")
                        return f"block idx {bx[1]}: " + ", ".join(p for p, u, v in zip(parts, bx, by) if u != v) + " changed"
            return nm + " changed"
    return ""


def ctx_dump(ctx: Any, depth: int = 0) -> Any:
    def addr(a: Any) -> Any:
        return (a.any_addr, a.no_addr, tuple(sorted(map(str, a.possible_addr))))
    base = (tuple(sorted(ctx.group_sizes)), tuple(sorted(ctx.group_indices)), tuple(sorted(str(t) for t in ctx.transaction_types)),
            addr(ctx.rekeyto), addr(ctx.closeto), addr(ctx.assetcloseto), addr(ctx.sender), ctx.max_fee, ctx.max_fee_unknown)
    if depth or ctx.is_gtxn_context:
        return base
    tails = (tuple(ctx_dump(c, 1) for c in ctx._gtxn_at_index_context),  # pylint: disable=protected-access
             tuple(ctx_dump(c, 1) for c in ctx._abs_context),  # pylint: disable=protected-access
             tuple(sorted((k, ctx_dump(c, 1)) for k, c in ctx._relative_context.items())))  # pylint: disable=protected-access
    return base + tails


def is_err_block(b: Any) -> bool:
    from tealer.teal.instructions.instructions import TealerCustomErrInstruction
    return len(b.instructions) == 1 and isinstance(b.instructions[0], TealerCustomErrInstruction)


def function_signature(fn: Any) -> Any:
    """graph + contexts of a function, by block idx / line (err blocks by the idx of their predecessor and position)"""
    rows = []
    cids = {id(b) for b in fn.contract.bbs}
    for b in fn.blocks:
        key = ("E", tuple(sorted(p.idx for p in b.prev))) if is_err_block(b) else ("B", b.idx, id(b) in cids)
        try:
            cd = ctx_dump(fn.transaction_context(b))
        except Exception as e:  # pylint: disable=broad-except
            cd = f"{type(e).__name__}"
        rows.append((key, tuple(("E" if is_err_block(x) else x.idx) for x in b.next), tuple(sorted(x.idx for x in b.prev)),
                     tuple((i.line, str(i)) for i in b.instructions), cd))
    return tuple(sorted(rows, key=repr)), tuple(sorted(fn.subroutines))


def main_graph(orc: Oracle, bm: Dict[int, Any]) -> Tuple[Dict[int, List[int]], Dict[int, Any]]:
    """the contract's main graph by the AVM rules: idx -> ordered successor idx list (fall-through first), over the blocks of main"""
    blocks = {}
    for k in orc.main_set:
        blocks[bm[k].idx] = bm[k]
    adj: Dict[int, List[int]] = {}
    for idx, b in blocks.items():
        k = orc.index_of_line[b.instructions[-1].line]
        out: List[int] = []
        for s in orc.local[k]:
            if bm[s].idx not in out:
                out.append(bm[s].idx)
        adj[idx] = out
    return adj, blocks


def prefix_paths(adj: Dict[int, List[int]], root: int, cap: int = 400) -> List[List[int]]:
    """simple paths from the root (every root-to-block prefix), breadth first, at most cap"""
    out = [[root]]
    frontier = [[root]]
    while frontier and len(out) < cap:
        nxt = []
        for p in frontier:
            for s in adj[p[-1]]:
                if s not in p:
                    q = p + [s]
                    nxt.append(q)
                    out.append(q)
                    if len(out) >= cap:
                        return out
        frontier = nxt
    return out


def block_walks(root: Any, max_visits: int, cap: int) -> Optional[Set[Tuple[Any, ...]]]:
    """complete runs root..leaf over BasicBlock.next with every block visited at most max_visits times, as tuples of idx
    ("E" for an error block); None if the enumeration exceeds cap steps"""
    out: Set[Tuple[Any, ...]] = set()
    count = [0]

    def go(node: Any, path: List[Any], visits: Dict[int, int]) -> bool:
        count[0] += 1
        if count[0] > cap:
            return False
        succ = list(node.next)
        if not succ:
            out.add(tuple(("E" if is_err_block(x) else x.idx) for x in path))
            return True
        for nx in succ:
            v = visits.get(id(nx), 0)
            if v >= max_visits:
                continue
            visits[id(nx)] = v + 1
            path.append(nx)
            ok = go(nx, path, visits)
            path.pop()
            visits[id(nx)] = v
            if not ok:
                return False
        return True
    if not go(root, [root], {id(root): 1}):
        return None
    return out


def check_function(orc: Oracle, teal: Any, bm: Dict[int, Any], adj: Dict[int, List[int]], path: List[int], fn: Any,  # noqa: C901
                   snap0: Any) -> List[Viol]:
    V: List[Viol] = []
    k = len(path) - 1
    contract_ids = {id(b) for b in teal.bbs}
    orig = {b.idx: b for b in teal.bbs}
    # the cut graph expected by the AVM rules: successors of path blocks before Bk other than the next path block are errors
    cut: Dict[int, List[Any]] = {}
    for idx, succ in adj.items():
        cut[idx] = list(succ)
    for i in range(k):
        cut[path[i]] = [s if s == path[i + 1] else ("E", path[i], j) for j, s in enumerate(adj[path[i]])]
    reach: Set[int] = set()
    todo = [path[0]]
    while todo:
        x = todo.pop()
        if x in reach:
            continue
        reach.add(x)
        todo += [s for s in cut[x] if not isinstance(s, tuple)]
    # ---- main part of the function
    fmain = list(fn.main.blocks)
    normal = [b for b in fmain if not is_err_block(b)]
    errs = [b for b in fmain if is_err_block(b)]
    shared = [b for b in fmain if id(b) in contract_ids]
    if shared:
        V.append(("function-main-shares-contract-blocks", f"function main blocks {[_desc(b) for b in shared]} are the contract's own objects"))
    if fn.entry is not fn.main.entry or fn.entry.idx != path[0]:
        V.append(("function-entry-wrong", f"entry {_desc(fn.entry)}"))
    got_idx = sorted(b.idx for b in normal)
    if got_idx != sorted(reach):
        cls = "function-graph-not-isomorphic" if k == 0 else "function-blocks-wrong"
        V.append((cls, f"path {path}: function main blocks {got_idx}, expected {sorted(reach)}"))
        return V
    fb = {b.idx: b for b in normal}
    nerr_expected = sum(1 for i in range(k) for s in cut[path[i]] if isinstance(s, tuple))
    if len(errs) != nerr_expected:
        V.append(("function-err-blocks-count", f"path {path}: {len(errs)} error blocks among the function's blocks, {nerr_expected} departures from the path"))
    fblock_ids = {id(b) for b in fn.blocks}
    for idx in sorted(reach):
        b, o = fb[idx], orig[idx]
        # instructions: same text and lines as the contract's block and as the source
        ti = [(i.line, str(i)) for i in b.instructions]
        oi = [(i.line, str(i)) for i in o.instructions]
        if ti != oi:
            V.append(("function-graph-not-isomorphic" if k == 0 else "function-block-instructions-differ",
                      f"B{idx}: instructions {ti[:6]} vs contract {oi[:6]}"))
            continue
        for i in b.instructions:
            if avm._tokens(i.source_code) != avm._tokens(orc.prog.lines[i.line - 1]):  # pylint: disable=protected-access
                V.append(("function-instruction-line-wrong", f"B{idx}: `{i.source_code}` carries line {i.line}"))
                break
        # successors: the contract's list, with every departure from the path before Bk replaced by an error block in place
        ref = [x.idx for x in o.next]
        have = list(b.next)
        desc = [("E" if is_err_block(x) else x.idx) for x in have]
        if sorted(ref) != sorted(adj[idx]):
            return [("skip", "contract successors differ from the AVM rules: C04's business")]
        on_prefix = idx in path[:k]
        nxt_on_path = path[path.index(idx) + 1] if on_prefix else None
        want = [r if (not on_prefix or r == nxt_on_path) else "E" for r in ref]
        ok = desc == want
        if ok:
            for h, w in zip(have, want):
                if w == "E":
                    if h.next or [id(x) for x in h.prev] != [id(b)]:
                        ok = False
                elif h is not fb.get(w):
                    ok = False
        if not ok:
            if k == 0:
                V.append(("function-graph-not-isomorphic", f"B{idx}: next {desc}, contract main graph {ref}"))
            elif on_prefix:
                V.append(("function-departure-not-cut", f"path {path}: B{idx}.next = {desc}, expected {want} (every successor other than the next "
                          "path block an error block with no successors and this single predecessor, positions kept)"))
            else:
                V.append(("function-successors-differ", f"path {path}: B{idx}.next = {desc}, contract {ref}"))
        # predecessors: exactly the function blocks that have b as successor
        want_prev = sorted(p for p in reach if idx in [s for s in cut[p] if not isinstance(s, tuple)])
        outside = [x for x in b.prev if id(x) not in fblock_ids]
        if outside:
            V.append(("function-prev-names-block-outside-function", f"path {path}: B{idx}.prev names {[_desc(x) for x in outside]} which are not among "
                      "the function's blocks"))
        elif sorted(x.idx for x in b.prev) != want_prev:
            V.append(("function-predecessors-differ", f"path {path}: B{idx}.prev = {sorted(x.idx for x in b.prev)}, expected {want_prev}"))
        for x in have:
            if id(x) not in fblock_ids:
                V.append(("function-next-names-block-outside-function", f"path {path}: B{idx}.next names {_desc(x)}"))
    # ---- subroutines are shared, and exactly the used ones
    used: Set[str] = set()
    todo2 = [("__main__", None)]
    main_reach_instr = {kk for kk in orc.main_set if bm[kk].idx in reach}
    while todo2:
        f, _ = todo2.pop()
        body = main_reach_instr if f == "__main__" else orc.sub_set[f]
        for kk in body:
            if orc.op[kk] == "callsub" and orc.call_label[kk] not in used:
                used.add(orc.call_label[kk])  # type: ignore[arg-type]
                todo2.append((orc.call_label[kk], None))  # type: ignore[arg-type]
    if set(fn.subroutines) != used:
        V.append(("function-subroutines-wrong", f"path {path}: function subroutines {sorted(fn.subroutines)}, call closure of its main part {sorted(used)}"))
    else:
        for name, sub in fn.subroutines.items():
            if sub is not teal.subroutines.get(name):
                V.append(("function-subroutine-not-shared", f"{name} is not the contract's Subroutine object"))
        want_blocks = Counter(id(b) for b in fmain)
        for name in used:
            want_blocks.update(id(b) for b in teal.subroutines[name].blocks)
        if Counter(id(b) for b in fn.blocks) != want_blocks:
            V.append(("function-blocks-list-wrong", f"path {path}: Function.blocks is not main part + blocks of {sorted(used)} (each once)"))
        for b in normal:
            kk = orc.index_of_line[b.instructions[-1].line]
            if orc.op[kk] == "callsub":
                try:
                    if b.called_subroutine is not teal.subroutines[orc.call_label[kk]]:  # type: ignore[index]
                        V.append(("function-called-subroutine-wrong", f"B{b.idx}"))
                except Exception as e:  # pylint: disable=broad-except
                    V.append(("function-called-subroutine-missing", f"B{b.idx}: {e}"))
    # ---- runs: the function's complete runs == the contract's complete runs that start with the path
    if not V:
        for visits, cls in ((1, "function-runs-differ"), (2, "function-misses-runs-that-reenter-the-dispatch-prefix")):
            cruns = _int_walks(adj, path[0], visits, 4000)
            fruns = block_walks(fn.entry, visits, 4000)
            if cruns is None or fruns is None:
                continue
            want_runs = {r for r in cruns if list(r[:k + 1]) == path}
            got_runs = {r for r in fruns if r[-1] != "E"}
            if got_runs != want_runs:
                extra = sorted(got_runs - want_runs)[:2]
                missing = sorted(want_runs - got_runs)[:2]
                V.append((cls if not extra else "function-has-runs-outside-the-path", f"path {path} (each block at most {visits}x): function runs not in "
                          f"the contract/path: {extra}; contract runs starting with the path missing from the function: {missing}"))
                break
    # ---- the contract itself is untouched
    d = snapshot_diff(snap0, snapshot(teal)[0])
    if d:
        V.append(("contract-graph-modified-by-construct_function", f"path {path}: {d}"))
    return V


def _int_walks(adj: Dict[int, List[int]], root: int, max_visits: int, cap: int) -> Optional[Set[Tuple[int, ...]]]:
    out: Set[Tuple[int, ...]] = set()
    count = [0]

    def go(node: int, path: List[int], visits: Dict[int, int]) -> bool:
        count[0] += 1
        if count[0] > cap:
            return False
        succ = adj[node]
        if not succ:
            out.add(tuple(path))
            return True
        for s in succ:
            v = visits.get(s, 0)
            if v >= max_visits:
                continue
            visits[s] = v + 1
            path.append(s)
            ok = go(s, path, visits)
            path.pop()
            visits[s] = v
            if not ok:
                return False
        return True
    if not go(root, [root], {root: 1}):
        return None
    return out


# ----------------------------------------------------------------------------------------------------------------------
# C12 stand-in
# ----------------------------------------------------------------------------------------------------------------------

C12_FAMILIES = ["fee", "rekey", "groupsize", "gtxn"]


def c12_one(acc: Acc, src: str, name: str, max_paths: int, seed: int, max_rebuild: int = 99) -> None:  # noqa: C901
    try:
        orc = Oracle(src)
    except avm.Unsupported:
        acc.skipped += 1
        return
    try:
        teal = parse_with_tealer(src)
    except BaseException as e:  # pylint: disable=broad-except
        if isinstance(e, KeyboardInterrupt):
            raise
        acc.skipped += 1
        return
    try:
        bm = _blockmap(orc, teal)
        if bm is None:
            acc.skipped += 1
            return
        acc.programs += 1
        tag = SHARED_TAG if orc.irregular() else ""
        adj, _ = main_graph(orc, bm)
        root = bm[0].idx
        allp = prefix_paths(adj, root)
        rng = random.Random(f"{seed}/{name}/{len(src)}")
        chosen = [allp[0]]
        rest = allp[1:]
        if rest:
            chosen.append(rest[-1])          # a longest one
            others = rest[:-1]
            rng.shuffle(others)
            chosen += others[:max(0, max_paths - 2)]
        snap0, _keep = snapshot(teal)
        sig: Dict[Tuple[int, ...], Any] = {}
        kept: Dict[Tuple[int, ...], Any] = {}
        seen: Set[str] = set()

        def report(cls: str, msg: str, path: List[int]) -> None:
            if cls not in seen:
                seen.add(cls)
                acc.add(cls + tag, msg, src, name, dispatch_path=[f"B{i}" for i in path])

        def build(path: List[int]) -> Any:
            try:
                return build_function(teal, [f"B{i}" for i in path])
            except Exception as e:  # pylint: disable=broad-except
                frames = traceback.extract_tb(e.__traceback__)
                where = frames[-1].name if frames else "?"
                report(f"construct_function-crash:{type(e).__name__}@{where}",
                       f"construct_function(teal, {[f'B{i}' for i in path]}) raised {type(e).__name__}: {e!r}"[:300]
                       + f" in {where}: `{(frames[-1].line or '').strip()[:140]}`", path)
                return None

        for path in chosen:
            fn = build(path)
            acc.evaluations += 1
            if fn is None:
                d = snapshot_diff(snap0, snapshot(teal)[0])
                if d:
                    report("contract-graph-modified-by-construct_function", f"path {path} (construct_function raised): {d}", path)
                continue
            vs = check_function(orc, teal, bm, adj, path, fn, snap0)
            if vs and vs[0][0] == "skip":
                acc.skipped += 1
                continue
            for cls, msg in vs:
                report(cls, msg, path)
            sig[tuple(path)] = function_signature(fn)
            kept[tuple(path)] = fn
        # the function objects built first, looked at again after all the others exist: what they answer must not have changed
        # (per-function tables must not be shared between Function objects)
        for pth, fn0 in kept.items():
            acc.evaluations += 1
            try:
                same = function_signature(fn0) == sig[pth]
            except Exception as e:  # pylint: disable=broad-except
                same = False
            if not same:
                report("function-changed-by-later-construction", f"path {list(pth)}: the graph or the contexts this function object reports "
                       f"differ once the functions for {[list(q) for q in kept if q != pth][:4]} have been built from the same contract", list(pth))
        # the same functions built again in the opposite order, after the others exist
        for path in reversed(chosen[:max_rebuild]):
            if tuple(path) not in sig:
                continue
            fn = build(path)
            acc.evaluations += 1
            if fn is None:
                report("function-depends-on-build-order", f"path {path}: second construction failed", path)
                continue
            if function_signature(fn) != sig[tuple(path)]:
                report("function-depends-on-build-order", f"path {path}: graph or contexts differ when the function is built after the others", path)
        d = snapshot_diff(snap0, snapshot(teal)[0])
        if d:
            report("contract-graph-modified-by-construct_function", f"after building {len(chosen)} functions twice: {d}", chosen[0])
    except Exception:  # pylint: disable=broad-except
        acc.oracle_errors.append(f"{name}: {traceback.format_exc()[-700:]}\n{src}")


def _c12_job(job: Tuple[List[Tuple[str, str]], int, int, int]) -> Dict[str, Any]:
    progs, max_paths, seed, max_rebuild = job
    acc = Acc()
    for name, src in progs:
        c12_one(acc, src, name, max_paths, seed, max_rebuild)
    return acc.dump()


@standin("C12")
def function_cut(tier: str = "quick", seed: int = 0, known: Any = None) -> Dict[str, Any]:
    t0 = time.time()
    quick = tier == "quick"
    limit, nskel, ncalls, max_paths, max_rebuild = (600, 3, 200, 6, 3) if quick else (4000, 4, 1500, 10, 10)
    gens = _gen_programs(limit, seed, C12_FAMILIES)
    calls = list(call_programs(4 if quick else 6, 100 if quick else 2000, seed, full_product=not quick))
    rng = random.Random(f"c12/{seed}")
    rng.shuffle(calls)
    calls = calls[:ncalls]
    skel = [(f"skeleton/{n}", src) for n in range(1, nskel + 1) for src, _ in skeletons(n, FULL_ALPHABET)]
    progs = HAND_PROGRAMS + gens + calls + skel
    jobs = [(c, max_paths, seed, max_rebuild) for c in _chunks(progs, 12)]
    with mp.get_context("fork").Pool(NPROC) as pool:
        parts = pool.map(_c12_job, jobs, chunksize=1)
    tot = merge(parts)
    bound = (f"gen.programs(k=2, limit={limit}, families={C12_FAMILIES}) ({len(gens)}) + {len(calls)} call-structure programs + all control "
             f"skeletons of length <= {nskel} ({len(skel)}) + {len(HAND_PROGRAMS)} hand programs; per program <= {max_paths} dispatch paths "
             f"([B0], a longest simple prefix, seeded sample of the other root-to-block prefixes of the main graph), the first {max_rebuild} of them built a second time "
             "in reverse order after all others exist; run comparison over walks visiting a block at most 1x and 2x (cap 4000 steps)")
    summary = {"function": "tealer.teal.parse_functions.construct_function / copy_main_cfg, Function.__init__, the four context analyses",
               "contract": "C12: [B0] gives a copy isomorphic to the main graph sharing the subroutines; departures from the path before Bk lead to "
                           "error blocks in place; function graph closed and mirrored; complete runs = the contract's runs starting with the path; "
                           "graph+contexts independent of build order; the contract's own graph unchanged",
               "bound": bound, "exhaustive": False, "functions_built": tot["evaluations"], "skipped": tot["skipped"]}
    return finish("C12", "function_cut (bounded)", tot, known, summary, t0)


def oracle_selftest() -> None:
    """hand-computed cases for the independent model (instruction indices are 0-based, the #pragma line is index 0)"""
    o = Oracle(HAND_PROGRAMS[0][1])      # b live / int 1 / bnz live / err / live: / int 1 / return
    assert sorted(o.retained) == [0, 1, 5, 6, 7] and o.leaders == [0, 2, 4, 5] and o.sub_names == []
    assert o.local[3] == [4, 5] and o.local[1] == [5] and o.local[7] == []
    o = Oracle(HAND_PROGRAMS[1][1])      # load 8 / bnz after / callsub f / after: / int 1 / return / f: / retsub
    assert o.sub_names == ["f"] and sorted(o.main_set) == [0, 1, 2, 3, 4, 5, 6] and sorted(o.sub_set["f"]) == [7, 8]
    assert o.leaders == [0, 3, 4, 7] and o.local[3] == [4] and o.call_target[3] == 7 and not o.irregular()
    o = Oracle(HAND_PROGRAMS[4][1])      # int 1 / return / callsub g (dead) / err / g: / callsub h / retsub / h: / retsub
    assert o.sub_names == ["g", "h"] and sorted(o.retained) == [0, 1, 2, 5, 6, 7, 8, 9] and sorted(o.sub_set["g"]) == [5, 6, 7]
    assert o.owners(6) == ["g"] and o.owners(1) == ["__main__"]
    o = Oracle("#pragma version 8\nL0:\ncallsub L0\n")
    assert o.irregular() and o.exits_possible(2) and not o.exits_possible(1)
    src, slots = render_skeleton(("bnz", "L", "switch"), (0, 0, 0))
    assert src == "#pragma version 8\nload 1\nbnz L0\nL0:\nload 2\nswitch L0 L0\n" and slots == [(1, 2), (2, 3)]
    assert sum(1 for _ in skeletons(2, FULL_ALPHABET)) == 37 and sum(1 for _ in skeletons(3, FULL_ALPHABET)) == 425


if __name__ == "__main__":
    import json
    import sys
    oracle_selftest()
    which = sys.argv[1:] or ["C04", "C05", "C12"]
    for pid, fn_ in (("C04", cfg_wellformed), ("C05", subroutine_tables), ("C12", function_cut)):
        if pid not in which:
            continue
        res = fn_("quick", 0, None)
        print(f"==== {pid}")
        print(json.dumps(res["summary"], indent=1))
        for v_ in res["violations"]:
            d_ = v_["data"]
            print("----", v_["file"], "|", d_["class"], "| occurrences", d_["occurrences"], "|", d_["program"], d_.get("dispatch_path", ""))
            print(d_["failure"])
            print(d_["teal"])
