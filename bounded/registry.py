"""Registry of bounded / exhaustive stand-ins per property (DESIGN.md §4).  Each returns
{"summary": {...}, "violations": [{"file":..., "data":...}], "known_lines": [...]}; never counted as proved."""
from __future__ import annotations

from typing import Any, Callable, Dict, List

_REG: Dict[str, List[Callable[..., Dict[str, Any]]]] = {}


def standin(*props: str):
    def deco(fn):
        for p in props:
            _REG.setdefault(p, []).append(fn)
        return fn
    return deco


def for_property(pid: str) -> List[Callable[..., Dict[str, Any]]]:
    import bounded.keyspace  # noqa: F401
    import bounded.bsprog  # noqa: F401
    import bounded.outputs  # noqa: F401
    import bounded.cfgcheck  # noqa: F401
    import bounded.relational  # noqa: F401
    import bounded.tablecheck  # noqa: F401
    import bounded.parsecheck  # noqa: F401
    return _REG.get(pid, [])
