"""Registry of bounded / exhaustive stand-ins per property (DESIGN.md §4).  Each returns
{"summary": {...}, "violations": [{"file":..., "data":...}], "known_lines": [...]}; never counted as proved."""
from __future__ import annotations

from typing import Any, Callable, Dict, List

_REG: Dict[str, List[Callable[..., Dict[str, Any]]]] = {}


def standin(*props: str):
    def deco(fn):
        for p in props:
            _REG.setdefault(p, []).append(fn)
        return fn
    return deco


MODULES = ["keyspace", "bsprog", "tablecheck", "stackcheck", "parsecheck", "cfgcheck", "relational", "outputs", "enginecheck"]
IMPORT_ERRORS: Dict[str, str] = {}


def for_property(pid: str) -> List[Callable[..., Dict[str, Any]]]:
    import importlib
    for m in MODULES:
        try:
            importlib.import_module(f"bounded.{m}")
        except Exception as e:  # a broken stand-in module must not take the others down; it is reported by the CLI
            IMPORT_ERRORS[m] = f"{type(e).__name__}: {e}"
    return _REG.get(pid, [])
