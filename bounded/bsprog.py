"""BS-PROG runner: programs x inputs in parallel, triage of violations against the listed findings, registration as the
bounded stand-in of C01, C02, C06-C10 (DESIGN.md §4, Appendix C)."""
from __future__ import annotations

import multiprocessing as mp
import os
import re
import time
from typing import Any, Dict, Iterator, List, Optional, Set, Tuple

from bounded.registry import standin
from spec import avm

FAMILIES = {
    "C01": None, "C02": None,
    "C06": ["groupsize", "groupindex", "gtxn"], "C07": ["txntype", "gtxn"], "C08": ["rekey", "closeto", "assetcloseto", "gtxn"],
    "C09": ["fee", "gtxn"], "C10": ["gtxn", "groupindex"],
}
TEALER_ZERO_LITERAL = "AAAAAAAAAAAAAAAAAAAAAAAAAAAAAAAAAAAAAAAAAAAAEVAL4QAJS7JHB4"
ORDER_OPS = {"<", "<=", ">", ">="}
LITERAL_OPS = {"int", "pushint", "intc", "intc_0", "intc_1", "intc_2", "intc_3"}


def signatures(src: str) -> Set[str]:
    """Listed findings whose *trigger pattern* occurs in the program text (see DESIGN §9 / known_findings.json).
    A violation in a program is attributed to a finding only if the finding's pattern is present AND the violated
    property is among those the finding affects; everything else is reported."""
    sig: Set[str] = set()
    try:
        prog = avm.parse(src)
    except Exception:
        return sig
    ins = [i for i in prog.instrs if i.op not in ("#pragma",)]
    ops = [(i.op, tuple(i.args)) for i in ins]
    for a, b, c in zip(ops, ops[1:], ops[2:]):
        if a[0] in LITERAL_OPS and c[0] in ORDER_OPS and (b == ("global", ("GroupSize",)) or b == ("txn", ("GroupIndex",))):
            sig.add("D1")
    targets = set()
    for op, args in ops:
        if op in ("b", "bz", "bnz", "switch", "match"):
            targets.update(args)
    for a, b in zip(ops, ops[1:]):
        if a[0] == "callsub" and b[0] == "label:" and b[1][0] in targets:
            sig.add("D3")
    # D4: a subroutine (callsub target) from whose entry a `return` is reachable without leaving through retsub
    label_idx = {i.args[0]: k for k, i in enumerate(ins) if i.op == "label:"}
    subs = {args[0] for op, args in ops if op == "callsub"}

    def can_return(entry: int) -> bool:
        seen, todo = set(), [entry]
        while todo:
            k = todo.pop()
            if k in seen or k >= len(ins):
                continue
            seen.add(k)
            op, args = ops[k]
            if op == "return":
                return True
            if op in ("retsub", "err"):
                continue
            if op == "b":
                todo.append(label_idx.get(args[0], len(ins)))
                continue
            if op in ("bz", "bnz", "switch", "match"):
                todo += [label_idx.get(a, len(ins)) for a in args]
            if op == "callsub":
                todo.append(label_idx.get(args[0], len(ins)))
            todo.append(k + 1)
        return False
    for s in subs:
        if s in label_idx and can_return(label_idx[s]):
            sig.add("D4")
    if any(op == "txn" and args and args[0] in ("TypeEnum", "OnCompletion", "ApplicationID") for op, args in ops) or \
            any(op in ("gtxn", "gtxns") and args and args[-1] in ("TypeEnum", "OnCompletion", "ApplicationID") for op, args in ops):
        sig.add("D5")
    # D13: an absolute-index read inside a loop body (a backward branch exists and a gtxn-type read lies inside its span)
    for k, (op, args) in enumerate(ops):
        if op in ("b", "bz", "bnz") and label_idx.get(args[0], len(ins)) <= k:
            lo = label_idx[args[0]]
            if any(o in ("gtxn", "gtxna", "gtxnas", "gtxns", "gtxnsa") for o, _ in ops[lo:k + 1]):
                sig.add("D13")
    if TEALER_ZERO_LITERAL in src:
        sig.add("D19")
    # D20: `callsub` is the last instruction and the callee can return: the run ends after the retsub, tealer has no leaf there
    if ops and ops[-1][0] == "callsub":
        sig.add("D20")
    return sig


AFFECTS = {
    "D1": lambda v: v["prop"] in ("C06", "C10") or (v["prop"] == "C01" and v.get("detector") == "group-size-check"),
    "D4": lambda v: v["prop"] in ("C01", "C06", "C07", "C08", "C09", "C10"),
    "D5": lambda v: v["prop"] in ("C07", "C10") or (v["prop"] == "C01" and v.get("detector") in (
        "is-updatable", "is-deletable", "unprotected-updatable", "unprotected-deletable", "can-close-account", "can-close-asset")),
    "D13": lambda v: v["prop"] == "C01" and v.get("detector") == "group-size-check",
    "D19": lambda v: v["prop"] in ("C08", "C10", "C01"),
    "D20": lambda v: v["prop"] in ("C01", "C06", "C07", "C08", "C09", "C10"),
}


def attribute(src: str, v: Dict[str, Any], known: Set[str]) -> Optional[str]:
    for fid in sorted(signatures(src)):
        if fid in known and fid in AFFECTS and AFFECTS[fid](v):
            return fid
    return None


def _work(args: Tuple[str, str, int]) -> Dict[str, Any]:
    name, src, cap = args
    from bounded import harness
    r = harness.check_program(src, cap_inputs=cap)
    r["name"] = name
    r["src"] = src if (r["violations"] or r["crash"]) else ""
    return r


def run(pid: str, tier: str, seed: int, known: Any) -> Dict[str, Any]:
    from bounded import gen
    t0 = time.time()
    known_ids = set(known or [])
    fams = FAMILIES.get(pid)
    # the limit grows with the number of control shapes, so that adding a shape does not thin out the others
    nshapes = len(gen.SHAPES)
    limit, cap = (140 * nshapes, 40) if tier == "quick" else (6000 * nshapes, 200)
    if fams is not None and tier == "quick":
        limit = 85 * nshapes
    jobs = [(p["name"], p["src"], cap) for p in gen.programs(2, seed=seed, limit=limit, families=fams)]
    with mp.get_context("fork").Pool(16) as pool:
        results = pool.map(_work, jobs, chunksize=16)
    progs = len(results)
    inputs = sum(r["inputs"] for r in results)
    accepted = sum(r["accepted"] for r in results)
    nontrivial = sum(1 for r in results if r["accepted"] and r["accepted"] < r["inputs"])
    attributed: Dict[str, int] = {}
    unattributed: List[Dict[str, Any]] = []
    crashes = 0
    for r in results:
        if r["crash"]:
            crashes += 1
            if pid in ("C01",):
                v = {"prop": "C17", "kind": "crash", "detail": r["crash"]}
            continue
        for v in r["violations"]:
            if v["prop"] != pid:
                continue
            fid = attribute(r["src"], v, known_ids)
            if fid:
                attributed[fid] = attributed.get(fid, 0) + 1
            else:
                unattributed.append({"program": r["name"], "teal": r["src"], **v})
    res: Dict[str, Any] = {
        "summary": {"function": "whole pipeline (parse_teal -> construct_function -> 4 analyses -> 9 path detectors)",
                    "contract": f"top-level clause of {pid} evaluated natively against the reference interpreter spec/avm.py",
                    "bound": f"programs(k=2, limit={limit}, families={fams}) x <= {cap} region-representative inputs each",
                    "evaluations": inputs, "programs": progs, "accepted_runs": accepted,
                    "programs_with_accepted_and_rejected_inputs": nontrivial, "exhaustive": False,
                    "attributed_to_listed_findings": attributed, "unattributed_violations": len(unattributed),
                    "pipeline_crashes": crashes, "seconds": round(time.time() - t0, 1)},
        "violations": [], "known_lines": []}
    shapes: Dict[str, int] = {}
    for v in unattributed:
        k = v["program"].split("/")[1] + ":" + v.get("detector", v.get("detail", "")[:30])
        shapes[k] = shapes.get(k, 0) + 1
    res["summary"]["unattributed_by_shape"] = shapes
    for i, v in enumerate(unattributed[:3]):
        res["violations"].append({"file": f"bsprog_{pid}_{i}.json", "data": {"property": pid, "standin": "BS-PROG (bounded)", **v}})
    return res


for _p in FAMILIES:
    def _mk(p):
        def f(tier: str = "quick", seed: int = 0, known: Any = None) -> Dict[str, Any]:
            return run(p, tier, seed, known)
        f.__name__ = f"bsprog_{p}"
        return f
    standin(_p)(_mk(_p))
